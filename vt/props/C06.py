"""C06 Boolean restriction trees evaluate as propositional logic; DNF / CNF normal forms agree with the tree."""

from ..gen import c06_spec as gen
from ..ref import c06_prop as ref

ID = "C06"
LEVEL = "exploration"
TECHNIQUE = "truth-table comparison of real match()/normal forms against a propositional reference"
RULE = ("restriction-tree specs -> real pkgcore objects (And/Or/JustOne/AtMostOneOf with negate, restriction.Negate, "
        "PackageRestriction over StrExactMatch/StrGlobMatch/StrRegex/ContainmentMatch with negation at value and package "
        "level, value-level boolean trees, atoms, AlwaysBool). (a) all trees of depth<=2 over <=4 elementary predicates "
        "(quick: <=2 leaves, thorough: <=3 leaves complete + <=4 leaves strided), (b) random package-level trees of depth<=4 "
        "against a 32-package universe realising every assignment of 5 independent attributes, (c) random value-level trees "
        "against 32 strings, also wrapped in a PackageRestriction. Oracle: match(subject) == propositional value of the "
        "spec for every subject; OR-of-AND of every derived DNF and AND-of-OR of every derived CNF (list and iterator API, "
        "with and without full expansion) == propositional value of the tree for every subject. A tree is non-trivial "
        "when it nests a boolean node inside another or uses negation / exactly-one / at-most-one, and its truth vector "
        "over the universe is not constant; distinct = canonical spec.")
ASSUMPTIONS = [
    "leaf meaning (exact/prefix/suffix/literal-regex/substring/membership) is the elementary reading coded in vt/ref/c06_prop.py",
    "trees containing an empty any-of / exactly-one-of group (or an empty negated all-of) are not judged: propositional "
    "logic and PMS disagree about empty groups and the statement does not choose",
    "a normal form pkgcore declines to derive (NotImplementedError) or whose size bound exceeds 3000 clauses is not judged",
    "clause members pkgcore created itself (pieces of an expanded atom) are evaluated with their own match(); members "
    "that are objects of the tree or restriction.Negate wrappers around them are evaluated by the reference",
    "atoms only use integer versions, so version comparison is integer comparison",
]
SHARDS = {"quick": 4, "thorough": 16}
TIMEOUT = {"quick": 240, "thorough": 1800}
MIN_EVALS = 50000
REQUIRED_COUNTERS = ("match_evals", "dnf_forms_judged", "cnf_forms_judged", "trees_with_negated_or", "val_trees")

MAX_CLAUSES = 3000
_SOFT_Q = TIMEOUT["quick"] * 0.8  # quick tier: loops stop after ~35 s / ~50 s of wall clock even on a loaded machine


class Domain:
    """One universe: reference subjects, the matching real subjects, truth vectors as bit masks."""

    def __init__(self, name):
        self.name = name
        if name == "pkg":
            self.ref_subjects = gen.pkg_universe()
            self.impl_subjects = [gen.FakePkg(d) for d in self.ref_subjects]
        else:
            self.ref_subjects = gen.val_universe()
            self.impl_subjects = list(self.ref_subjects)
        self.n = len(self.ref_subjects)
        self.full = (1 << self.n) - 1
        self._leaf_cache = {}

    def _pointwise(self, spec):
        key = ref.canon(spec)
        m = self._leaf_cache.get(key)
        if m is None:
            m = 0
            for i, s in enumerate(self.ref_subjects):
                if ref.evaluate(spec, s):
                    m |= 1 << i
            if len(self._leaf_cache) < 200000:
                self._leaf_cache[key] = m
        return m

    def mask(self, spec):
        """Truth vector of a spec (reference semantics) as a bit mask; nodes by mask algebra."""
        k = spec["k"]
        if k in ref.NODE_KINDS or k in ref.VNODE_KINDS:
            ms = [self.mask(c) for c in spec["xs"]]
            kk = k.lstrip("v") if k in ref.VNODE_KINDS else k
            if kk == "and":
                r = self.full
                for m in ms:
                    r &= m
            elif kk == "or":
                r = 0
                for m in ms:
                    r |= m
            else:
                once = twice = 0
                for m in ms:
                    twice |= once & m
                    once |= m
                r = (once & ~twice) if kk == "one" else (self.full & ~twice)
            return (r ^ self.full) if spec["neg"] else r
        if k in ("not", "vnot"):
            return self.mask(spec["x"]) ^ self.full
        return self._pointwise(spec)

    def vec(self, m):
        return "".join("1" if m >> i & 1 else "0" for i in range(self.n))


_domains = {}


def domain(name):
    if name not in _domains:
        _domains[name] = Domain(name)
    return _domains[name]


def _nontrivial(spec, want, dom):
    if want in (0, dom.full):
        return False
    kinds = ref.count_kinds(spec)
    return ref.depth(spec) >= 2 or any(t.endswith("!") or t.lstrip("v") in ("not", "one", "amo") for t in kinds)


def _impl_mask(dom, obj):
    m = 0
    for i, s in enumerate(dom.impl_subjects):
        if obj.match(s):
            m |= 1 << i
    return m


def check_tree(ctx, domname, spec, forms=True, stats=True):
    """Build the real tree for `spec`, judge match() and every derivable normal form."""
    from pkgcore.restrictions import restriction

    dom = domain(domname)
    if ref.has_empty_group(spec):
        ctx.skip_unspecified("tree contains an empty any-of / exactly-one-of group")
        return
    try:
        want = dom.mask(spec)
    except ref.Unspecified as e:
        ctx.skip_unspecified(str(e))
        return
    tree, built = gen.build(spec)
    # (the spec travels as a JSON string: witnesses are depth-limited by the recorder)
    base = {"domain": domname, "spec": ref.canon(spec), "want_vec": dom.vec(want)}
    if stats:
        ctx.count("trees")
        ctx.count("trees_" + domname)
        if ref.contains_negated_or(spec):
            ctx.count("trees_with_negated_or")
        if _nontrivial(spec, want, dom):
            ctx.nontrivial(domname + ref.canon(spec))

    # (1) match == propositional value, for every subject
    try:
        got = _impl_mask(dom, tree)
    except Exception as e:
        ctx.violation("match-raises", dict(base, exc=repr(e)))
        return
    ctx.evaluated(dom.n)
    ctx.count("match_evals", dom.n)
    if got != want:
        i = (got ^ want).bit_length() - 1
        ctx.violation("match-vs-truth-table", dict(base, impl_vec=dom.vec(got), subject=dom.ref_subjects[i],
                                                   rule="root:" + spec["k"] + ("!" if spec.get("neg") else "")))
    if not forms or not hasattr(tree, "dnf_solutions"):
        return

    # (2) normal forms
    def elem_mask(e):
        s = built.spec_of(e)
        if s is not None:
            return dom.mask(s)
        if type(e) is restriction.Negate:
            return elem_mask(e._restrict) ^ dom.full
        ctx.count("opaque_clause_members")
        return _impl_mask(dom, e)

    dn, _dw = gen.dnf_bounds(spec)
    cn = gen.cnf_bound(spec)
    for form, api, full in (("dnf", "dnf_solutions", False), ("dnf", "iter_dnf_solutions", False),
                            ("dnf", "dnf_solutions", True), ("dnf", "iter_dnf_solutions", True),
                            ("cnf", "cnf_solutions", False), ("cnf", "iter_cnf_solutions", False),
                            ("cnf", "cnf_solutions", True), ("cnf", "iter_cnf_solutions", True)):
        if (dn if form == "dnf" else max(cn, dn)) > MAX_CLAUSES:
            ctx.count(form + "_skipped_size_bound")
            continue
        try:
            clauses = [list(c) for c in getattr(tree, api)(full)]
        except NotImplementedError:
            ctx.count(form + "_declined_notimplemented")
            continue
        except Exception as e:
            ctx.count(form + "_raised_" + type(e).__name__)
            ctx.skip_unspecified("normal form derivation raised %s" % type(e).__name__)
            continue
        try:
            if form == "dnf":
                r = 0
                for c in clauses:
                    m = dom.full
                    for e in c:
                        m &= elem_mask(e)
                    r |= m
            else:
                r = dom.full
                for c in clauses:
                    m = 0
                    for e in c:
                        m |= elem_mask(e)
                    r &= m
        except Exception as e:
            ctx.violation("clause-member-match-raises", dict(base, form=form, api=api, full=full, exc=repr(e)))
            continue
        ctx.evaluated(dom.n)
        ctx.count(form + "_forms_judged")
        ctx.count(form + "_clauses_seen", len(clauses))
        if r != want:
            i = (r ^ want).bit_length() - 1
            ctx.violation(form + "-not-equivalent",
                          dict(base, form=form, api=api, full=full, impl_vec=dom.vec(r), nclauses=len(clauses),
                               subject=dom.ref_subjects[i], clauses=[[str(e) for e in c] for c in clauses[:12]],
                               rule=form + (":tree-with-negated-any-of" if ref.contains_negated_or(spec)
                                            else ":no-negated-any-of")))


def self_check(ctx, rng):
    """The mask algebra must agree with the pointwise reference (guards the oracle itself)."""
    for domname in ("pkg", "val"):
        dom = domain(domname)
        for _ in range(60):
            spec = gen.gen_p(rng, 3) if domname == "pkg" else gen.gen_val_tree(rng, 3)
            try:
                m = dom.mask(spec)
                pw = sum(1 << i for i, s in enumerate(dom.ref_subjects) if ref.evaluate(spec, s))
            except ref.Unspecified:
                continue
            if m != pw:
                ctx.set_inconclusive("oracle self-check failed on %s" % ref.canon(spec))
                return False
    return True


def run(ctx):
    import random

    rng = ctx.rng
    if not self_check(ctx, random.Random(99)):
        return
    # (a) exhaustive small trees
    tiers = [(2, 1)] if ctx.quick else [(3, 1), (4, 7)]
    for max_leaves, stride in tiers:
        done = True
        for n, (idx, spec) in enumerate(gen.enumerate_small(max_leaves, 3, ctx.shard, ctx.nshards, stride)):
            check_tree(ctx, "pkg", spec)
            ctx.count("small_trees_leq%d" % max_leaves)
            if n < 1 and max_leaves <= 3:
                ctx.sample({"small_tree": spec})
            if n % 256 == 0 and ctx.out_of_time(ctx.budget(_SOFT_Q - 35, 420)):
                ctx.note("small-tree enumeration (<=%d leaves) stopped early by the soft deadline" % max_leaves)
                done = False
                break
        if done and stride == 1:
            ctx.count("exhaustive_leq%d_leaves_shards_complete" % max_leaves)
    # (b) random package-level trees, (c) random value-level trees
    n = ctx.budget(2500, 40000)
    for k in range(n):
        spec = gen.gen_p(rng, rng.choice([2, 3, 3, 4, 4]))
        check_tree(ctx, "pkg", spec)
        ctx.count("random_pkg_trees")
        if k < 2:
            ctx.sample({"pkg_tree": spec, "truth_vector": domain("pkg").vec(domain("pkg").mask(spec))
                        if not ref.has_empty_group(spec) else None})
        if k % 3 == 0:
            vs = gen.gen_val_tree(rng, rng.choice([2, 3, 4]))
            check_tree(ctx, "val", vs)
            ctx.count("val_trees")
            # the same value tree reached through a package restriction on an attribute
            wrapped = {"k": "pr", "attr": "category", "neg": rng.random() < 0.3, "v": vs}
            check_wrapped(ctx, wrapped)
            if k < 3:
                ctx.sample({"val_tree": vs})
        if k % 64 == 0 and ctx.out_of_time(ctx.budget(_SOFT_Q - 50, 20)):
            ctx.note("random workload stopped early by the soft deadline")
            break


_wrapped_pkgs = None


def check_wrapped(ctx, spec):
    """PackageRestriction(attr, <value tree>) against packages whose attribute runs over the string universe."""
    global _wrapped_pkgs
    if ref.has_empty_group(spec):
        ctx.skip_unspecified("tree contains an empty any-of / exactly-one-of group")
        return
    if _wrapped_pkgs is None:
        ds = [{"category": s, "package": "p0", "slot": "0", "use": ["y"], "fullver": "1"} for s in gen.val_universe()]
        _wrapped_pkgs = (ds, [gen.FakePkg(d) for d in ds])
    ds, pkgs = _wrapped_pkgs
    tree, _built = gen.build(spec)
    ctx.count("wrapped_val_trees")
    for d, p in zip(ds, pkgs):
        try:
            want = ref.evaluate(spec, d)
        except ref.Unspecified as e:
            ctx.skip_unspecified(str(e))
            return
        got = tree.match(p)
        ctx.evaluated()
        ctx.count("match_evals")
        if bool(got) != want:
            ctx.violation("wrapped-match-vs-truth-table", {"domain": "wrapped", "spec": ref.canon(spec), "subject": d,
                                                           "impl": bool(got), "want": want})
            return


def classify(w):
    """negated-or-dnf-fallthrough: the tree contains a negated any-of and the derived normal form is, for every
    subject, exactly what the `(not any-of) OR any-of` fall-through model predicts (and that differs from the tree)."""
    if w.get("kind") not in ("dnf-not-equivalent", "cnf-not-equivalent"):
        return None
    spec = _spec(w.get("spec"))
    if not spec or not ref.contains_negated_or(spec) or w.get("domain") not in ("pkg", "val"):
        return None
    subjects = gen.pkg_universe() if w["domain"] == "pkg" else gen.val_universe()
    try:
        model = "".join("1" if ref.fallthrough_model(spec, s, w["form"]) else "0" for s in subjects)
        want = "".join("1" if ref.evaluate(spec, s) else "0" for s in subjects)
    except Exception:
        return None
    if model == w.get("impl_vec") and model != want and want == w.get("want_vec"):
        return "negated-or-dnf-fallthrough"
    return None


def _spec(s):
    import json

    return json.loads(s) if isinstance(s, str) else s


def replay(ctx, w):
    if w.get("domain") == "wrapped":
        check_wrapped(ctx, _spec(w["spec"]))
    else:
        check_tree(ctx, w.get("domain", "pkg"), _spec(w["spec"]), stats=False)
