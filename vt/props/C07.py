"""C07 Restrictions that compare equal are interchangeable (same matches, same hash; restriction-keyed caches are safe)."""

import itertools
import json

from ..gen import c02_pairs as g2
from ..gen import c07_recipes as gen
from ..ref import c07_models as models

ID = "C07"
LEVEL = "exploration"
TECHNIQUE = "implication law r1 == r2 => hash equal and identical match vector; cached-vs-fresh differential on three caches"
RULE = ("pairs of independently constructed real restrictions built from JSON recipes: a random recipe (string/containment/"
        "equality matchers, _VersionMatch, USE-default containment, PackageRestriction and the *Dep wrappers, VersionMatch, "
        "atoms, boolean trees, Conditionals, DepSets incl. REQUIRED_USE) and a look-alike produced by one edit at one node "
        "(negation moved wrapper<->value, ~ with/without negate, operator complement + negate, revision respelled, "
        "if_missing flipped, USE deps reordered, ! vs !!, str vs set argument, case-insensitive respelling, children "
        "permuted/duplicated, same recipe rebuilt with instance caching off).  Whenever the implementation says r1 == r2 "
        "the hashes and the match outcome on every element of a fixed universe (values, version objects, (iuse,use) pairs, "
        "packages incl. ones lacking attributes) must agree.  Caches: caching_repo.match(r1) then .match(r2) vs an uncached "
        "query; _compiled_constraints(r1) then (r2) vs __wrapped__(r2) as truth tables; r2 built while r1 is alive vs r2 "
        "built after the weak instance caches were emptied.  Construction path 'incremental': every boolean recipe is "
        "also built with finalize=False + add_restriction() per member + finalize(), with hash()/dict/caching_repo lookups "
        "attempted while it is incomplete (a refusal is not judged), and judged against its one-shot twin.  Non-trivial = the implementation says equal and the two "
        "objects are distinct (different recipe or rebuilt uncached); distinct = distinct (recipe1, recipe2).")
ASSUMPTIONS = [
    "nothing is demanded of pairs that compare unequal",
    "'matches the same' is judged on a finite universe per restriction kind (listed in the module); an exception raised by "
    "match() counts as an outcome and must be the same for both",
    "DepSet.match is not implemented by pkgcore; equal DepSets are compared as the conjunction of their members (atoms) or by "
    "the truth table of their compiled REQUIRED_USE constraints",
    "emptying snakeoil's weak instance caches (all restriction classes except AlwaysBool) models 'every earlier instance "
    "was garbage collected'",
    "equality that changes when hash() is called on one side (value matchers keep _hash in __attr_comparison__) is only "
    "counted: obligations apply whenever == answered True at any point",
]
SHARDS = {"quick": 4, "thorough": 16}
TIMEOUT = {"quick": 240, "thorough": 1800}
MIN_EVALS = 50000
REQUIRED_COUNTERS = ("incremental_builds", "equal_pairs_distinct_objects", "match_vector_elements_compared", "query_cache_probes",
                     "compiled_cache_probes", "instance_cache_probes")

VALUE_TAGS_STR = ("StrExact", "StrGlob", "StrRegex", "Equality", "StrConv")
VALUE_TAGS_COLL = ("Contain", "Flatten", "Func", "AnyMatch")
REQ_FLAGS = ["x", "y", "z", "w", "v"]


def kind_of(recipe):
    tag = recipe[0]
    if tag in VALUE_TAGS_STR:
        return "str"
    if tag in VALUE_TAGS_COLL:
        return "coll"
    if tag == "VerMatch":
        return "ver"
    if tag == "UseDefault":
        return "usepair"
    if tag == "VBool":
        return kind_of(recipe[3][0])
    if tag == "DepSet":
        return "depset"
    return "pkg"


def pair_kind(rec1, rec2):
    k1, k2 = kind_of(rec1), kind_of(rec2)
    if k1 == k2:
        return k1
    if {k1, k2} == {"coll", "usepair"}:
        return "usecoll"  # plain vs USE-default containment: judged on both universes
    return None


class _Repo:
    def __init__(self, repo_id):
        self.repo_id = repo_id


class FakePkg:
    """Plain attribute bag; restrictions only use attrgetter on it."""

    def __init__(self, **kw):
        self.__dict__.update(kw)

    def __repr__(self):
        return "<pkg %s>" % self.__dict__.get("label")


class World:
    """Real pkgcore classes + the fixed universes."""

    def __init__(self, ctx):
        import random

        from pkgcore.ebuild import atom as atom_mod
        from pkgcore.ebuild import conditionals, cpv, restricts
        from pkgcore.repository import misc as repo_misc
        from pkgcore.repository import util as repo_util
        from pkgcore.restrictions import boolean, packages, required_use, restriction, values

        self.ctx = ctx
        self.atom = atom_mod.atom
        self.cpv, self.restricts, self.values, self.packages, self.boolean = cpv, restricts, values, packages, boolean
        self.restriction, self.required_use, self.DepSet = restriction, required_use, conditionals.DepSet
        self.repo_misc, self.repo_util = repo_misc, repo_util
        self.bool_cls = {"And": boolean.AndRestriction, "Or": boolean.OrRestriction, "JustOne": boolean.JustOneRestriction,
                         "AtMostOne": boolean.AtMostOneOfRestriction}
        self.funcs = {"len": len, "bool": bool}
        rnd = random.Random(7)

        flagsets = [frozenset(c) for n in range(4) for c in itertools.combinations("xyz", n)]
        self.U = {}
        self.U["str"] = ["", "a", "A", "b", "p", "q", "0", "1", "r1", "r2", "Foo", "foo", "FOO", "fo", "foobar", "xfoo",
                         "1.0", "1.00", "1.0.1", None, 1, 0, ("a",), frozenset(["a"])]
        # every generator string in the other case too (case_sensitive must make a visible difference)
        self.U["str"] += sorted({t for s_ in gen.STRS for t in (s_.upper(), s_.lower(), s_.swapcase(), s_ + "x", "x" + s_)}
                                - {x for x in self.U["str"] if isinstance(x, str)})
        self.U["coll"] = flagsets + [("x",), ("x", "y"), ["y"], ["z", "x"], "x", "xy", "", [("x",), "y"], None, 5,
                                     {"x": 1}]
        vers = []
        for v in gen.VERS + ["1.0.1", "3", "1_beta", "0"]:
            for r in ("", "0", "1", "2"):
                vers.append(cpv.VersionedCPV("a/p-" + v + ("-r" + r if r else "")))
        vers.append(cpv.UnversionedCPV("a/p"))
        self.U["ver"] = vers
        self.U["usepair"] = [(i, u) for i in flagsets for u in flagsets if u <= i]
        self.U["usepair"] += [(frozenset("x"), frozenset("xy")), (frozenset(), frozenset("z"))]
        self.U["usecoll"] = self.U["usepair"] + self.U["coll"]
        pk = []
        fullvers = ["1", "1.0", "1.00", "1.0-r1", "1.1", "2", "1_alpha", "01", "1.01", "1_p1", "1a", "0.5", "1-r2"]
        for cat in ("a", "b"):
            for name in ("p", "q"):
                for fv in fullvers:
                    for _ in range(2):
                        c = cpv.VersionedCPV("%s/%s-%s" % (cat, name, fv))
                        iuse = frozenset(f for f in "xyz" if rnd.random() < 0.6)
                        use = frozenset(f for f in iuse if rnd.random() < 0.5)
                        if rnd.random() < 0.1:
                            use = use | frozenset(rnd.choice("xyz"))
                        pk.append(FakePkg(label="%s/%s-%s" % (cat, name, fv), category=cat, package=name,
                                          key=c.key, version=c.version, revision=c.revision, fullver=c.fullver,
                                          cpvstr=c.cpvstr, slot=rnd.choice(["0", "1", "2.1"]),
                                          subslot=rnd.choice(["0", "1", "2"]), use=use, iuse=iuse, iuse_stripped=iuse,
                                          repo=_Repo(rnd.choice(["r1", "r2"]))))
        # packages lacking attributes (negation on the wrapper vs on the value differs exactly there)
        base = pk[0].__dict__
        for missing in ("repo", "slot", "subslot", "use", "iuse_stripped", "category", "fullver"):
            d = dict(base)
            d.pop(missing)
            d["label"] = "a/p-1{no %s}" % missing
            pk.append(FakePkg(**d))
        d = dict(base, version=None, revision=None, fullver=None, label="a/p{unversioned}", cpvstr="a/p")
        pk.append(FakePkg(**d))
        self.U["pkg"] = pk
        self.req_assignments = [frozenset(c) for n in range(len(REQ_FLAGS) + 1)
                                for c in itertools.combinations(REQ_FLAGS, n)]

        # a real repository for the query cache
        _attr_memo = {}

        class RepoPkg(cpv.VersionedCPV):
            __slots__ = ("slot", "subslot", "use", "iuse", "iuse_stripped", "repo")

            def __init__(self, *a):
                super().__init__(*a)
                sf = object.__setattr__
                attrs = _attr_memo.get(self.cpvstr)
                if attrs is None:
                    r = random.Random(self.cpvstr)
                    iuse = frozenset(f for f in "xyz" if r.random() < 0.6)
                    attrs = _attr_memo[self.cpvstr] = (
                        iuse, frozenset(f for f in iuse if r.random() < 0.5), r.choice(["0", "1"]),
                        r.choice(["0", "1", "2"]), _Repo(r.choice(["r1", "r2"])))
                sf(self, "iuse", attrs[0])
                sf(self, "iuse_stripped", attrs[0])
                sf(self, "use", attrs[1])
                sf(self, "slot", attrs[2])
                sf(self, "subslot", attrs[3])
                sf(self, "repo", attrs[4])

        self.db = repo_util.SimpleTree(
            {c: {n: list(fullvers) for n in ("p", "q")} for c in ("a", "b")}, pkg_klass=RepoPkg)

    # ---- recipes -> real objects -----------------------------------------------------------------
    def rev(self, r):
        return None if r is None else self.cpv.Revision(r)

    def build(self, r, nocache=False):
        kw = {"disable_inst_caching": True} if nocache else {}
        V, P, R = self.values, self.packages, self.restricts
        tag = r[0]
        if tag == "StrExact":
            if r[4]:
                return V.StrExactMatch(r[1], r[2], r[3], **kw)
            return V.StrExactMatch(r[1], case_sensitive=r[2], negate=r[3], **kw)
        if tag == "StrGlob":
            return V.StrGlobMatch(r[1], case_sensitive=r[2], prefix=r[3], negate=r[4], **kw)
        if tag == "StrRegex":
            return V.StrRegex(r[1], case_sensitive=r[2], match=r[3], negate=r[4], **kw)
        if tag == "Contain":
            arg = r[1][0] if r[4] == "str" else (tuple(r[1]) if r[4] == "tuple" else frozenset(r[1]))
            return V.ContainmentMatch(arg, match_all=r[2], negate=r[3], **kw)
        if tag == "Equality":
            return V.EqualityMatch(r[1], negate=r[2], **kw)
        if tag == "VerMatch":
            return R._VersionMatch(r[1], r[2], self.rev(r[3]), negate=r[4], **kw)
        if tag == "UseDefault":
            return R._UseDepDefaultContainment(r[1], tuple(r[2]), negate=r[3])
        if tag in ("VBool", "PBool"):
            kids = [self.build(c) for c in r[3]]
            nt = self.restriction.value_type if tag == "VBool" else self.restriction.package_type
            return self.bool_cls[r[1]](*kids, node_type=nt, negate=r[2], **kw)
        if tag == "Flatten":
            child = self.build(r[1])
            return V.FlatteningRestriction(str, child, r[2], **kw) if r[3] else \
                V.FlatteningRestriction(str, child, negate=r[2], **kw)
        if tag == "Func":
            f = self.funcs[r[1]]
            return V.FunctionRestriction(f, r[2], **kw) if r[3] else V.FunctionRestriction(f, negate=r[2], **kw)
        if tag == "StrConv":
            return V.StrConversion(self.build(r[1]))
        if tag == "AnyMatch":
            return V.AnyMatch(self.build(r[1]), negate=r[2], **kw)
        if tag == "PkgR":
            return P.PackageRestriction(r[1], self.build(r[2]), negate=r[3], **kw)
        if tag == "VersionMatch":
            if r[5] == "pos":
                return R.VersionMatch(r[1], r[2], self.rev(r[3]), r[4], **kw)
            return R.VersionMatch(r[1], r[2], self.rev(r[3]), negate=r[4], **kw)
        if tag in ("SlotDep", "SubSlotDep", "CategoryDep", "PackageDep", "RepositoryDep"):
            return getattr(R, tag)(r[1], negate=r[2], **kw)
        if tag == "StaticUseDep":
            return R.StaticUseDep(tuple(r[1]), tuple(r[2]), **kw)
        if tag == "UseDepDefault":
            return R.UseDepDefault(r[1], tuple(r[2]), tuple(r[3]), **kw)
        if tag == "Atom":
            f = r[1]
            if f.get("negate_vers"):
                return self.atom(g2.atom_str(f), negate_vers=True, **kw)
            return self.atom(g2.atom_str(f), **kw)
        if tag == "Cond":
            return P.Conditional("use", V.ContainmentMatch(r[1], negate=r[2]), tuple(self.build(c) for c in r[3]), **kw)
        if tag == "DepSet":
            if r[1] == "atoms":
                if any(m[1].get("negate_vers") for m in r[2]):
                    return self.DepSet(tuple(self.build(m) for m in r[2]), self.atom, False)
                return self.DepSet.parse(" ".join(g2.atom_str(m[1]) for m in r[2]), self.atom)
            ops = {"||": self.boolean.OrRestriction, "": self.boolean.AndRestriction,
                   "^^": self.boolean.JustOneRestriction, "??": self.boolean.AtMostOneOfRestriction}

            def mk(data):
                if data[0] == "!":
                    return V.ContainmentMatch(data[1:], negate=True)
                return V.ContainmentMatch(data)

            return self.DepSet.parse(render_requse(r[2]), V.ContainmentMatch, operators=ops, element_func=mk,
                                     attr="REQUIRED_USE")
        raise ValueError(tag)

    def clear_instance_caches(self):
        n = 0
        seen = set()
        stack = [self.restriction.base]
        while stack:
            c = stack.pop()
            if c in seen:
                continue
            seen.add(c)
            stack.extend(c.__subclasses__())
            if issubclass(c, self.restriction.AlwaysBool):
                continue
            cache = c.__dict__.get("__instance_cache__")
            if cache is not None:
                cache.clear()
                n += 1
        return n


def render_requse(nodes):
    out = []
    for n in nodes:
        if n[0] == "Contain":
            out.append(("!" if n[3] else "") + n[1][0])
        elif n[0] == "VBool":
            op = {"Or": "|| ", "JustOne": "^^ ", "AtMostOne": "?? ", "And": ""}[n[1]]
            out.append(op + "( " + render_requse(n[3]) + " )")
        elif n[0] == "ReqCond":
            out.append(("!" if n[2] else "") + n[1] + "? ( " + render_requse(n[3]) + " )")
        else:
            raise ValueError(n[0])
    return " ".join(out)


def outcome(r, x):
    try:
        v = r.match(x)
    except Exception as e:
        return "raises " + type(e).__name__
    return v if isinstance(v, bool) else "returns " + repr(v)


def label_of(x):
    if isinstance(x, FakePkg):
        return x.label
    try:
        s = getattr(x, "cpvstr", None)
    except Exception:
        s = None
    return s if isinstance(s, str) else repr(x)


class Mon:
    def __init__(self, ctx):
        self.ctx = ctx
        self.w = World(ctx)

    # ---- semantic value of a restriction on its universe ------------------------------------------------
    def vector(self, obj, kind, recipe):
        w = self.w
        if kind != "depset":
            return [outcome(obj, x) for x in w.U[kind]]
        if recipe[1] == "atoms":
            out = []
            for p in w.U["pkg"]:
                try:
                    out.append(all(m.match(p) for m in obj.restrictions))
                except Exception as e:
                    out.append("raises " + type(e).__name__)
            return out
        return self.requse_table(w.required_use._compiled_constraints.__wrapped__(obj))

    def requse_table(self, compiled):
        tab = []
        for on in self.w.req_assignments:
            kwargs = {f: (f in on) for f in REQ_FLAGS}
            try:
                tab.append(all(c(**kwargs) for c, _vars in compiled))
            except Exception as e:
                tab.append("raises " + type(e).__name__)
        return tab

    def universe_labels(self, kind, recipe):
        if kind == "depset":
            if recipe[1] == "atoms":
                return [p.label for p in self.w.U["pkg"]]
            return ["+".join(sorted(a)) for a in self.w.req_assignments]
        return [label_of(x) for x in self.w.U[kind]]

    # ---- the implication law on one pair ------------------------------------------------------------------
    def check_pair(self, rec1, rec2, label="", nocache2=False):
        ctx, w = self.ctx, self.w
        kind = pair_kind(rec1, rec2)
        if kind is None:
            ctx.count("pair_skipped_kinds_differ")
            return None
        try:
            r1 = w.build(rec1)
            r2 = w.build(rec2, nocache=nocache2)
        except Exception as e:
            ctx.count("build_failed:" + type(e).__name__)
            ctx.note("build failed for %s / %s: %r" % (json.dumps(rec1)[:150], json.dumps(rec2)[:150], e))
            return None
        ctx.count("pairs")
        ctx.count("pairs:" + kind)
        if label:
            ctx.count("edit:" + label)
        wit = {"r1": rec1, "r2": rec2, "universe": kind, "edit": label, "nocache2": nocache2}
        try:
            eq_before = bool(r1 == r2) or bool(r2 == r1)
            h1, h2 = hash(r1), hash(r2)
            eq_after = bool(r1 == r2) or bool(r2 == r1)
        except Exception as e:
            ctx.evaluated()
            ctx.violation("eq-or-hash-raises", dict(wit, exc=repr(e)))
            return None
        if eq_before != eq_after:
            ctx.count("equality_changed_after_hashing")
        same_obj = r1 is r2
        if same_obj:
            ctx.count("pairs_same_object(instance cache)")
        if not (eq_before or eq_after):
            ctx.count("unequal_pairs(no obligation)")
            return False
        ctx.count("equal_pairs")
        if same_obj:
            return True
        ctx.count("equal_pairs_distinct_objects")
        ctx.count("equal_pairs_distinct_objects:" + rec1[0])
        ctx.nontrivial(json.dumps([rec1, rec2], sort_keys=True))
        wit.update(eq_before_hash=eq_before, eq_after_hash=eq_after)
        ctx.evaluated()
        if h1 != h2:
            ctx.violation("equal-hash-differs", dict(wit, hash1=h1, hash2=h2))
        v1 = self.vector(r1, kind, rec1)
        v2 = self.vector(r2, kind, rec2)
        ctx.evaluated(len(v1))
        ctx.count("match_vector_elements_compared", len(v1))
        if any(isinstance(o, str) for o in v1):
            ctx.count("match_outcomes_that_are_exceptions_or_nonbool", sum(isinstance(o, str) for o in v1))
        if v1 != v2:
            labs = self.universe_labels(kind, rec1)
            diffs = [{"on": labs[i], "r1": v1[i], "r2": v2[i]} for i in range(len(v1)) if v1[i] != v2[i]]
            ctx.violation("equal-match-differs", dict(wit, n_differ=len(diffs), differ=diffs[:4]))
        if ctx.want_sample():
            ctx.sample({"r1": rec1, "r2": rec2, "equal": True, "hash_equal": h1 == h2, "same_matches": v1 == v2})
        return True

    # ---- caches -------------------------------------------------------------------------------------------------
    def probe_query_cache(self, rec1, rec2, label=""):
        """caching_repo primed with r1, then asked for r2, against an uncached query for r2."""
        ctx, w = self.ctx, self.w
        if kind_of(rec1) != "pkg" or kind_of(rec2) != "pkg":
            return
        try:
            r1, r2 = w.build(rec1), w.build(rec2)
            hash(r1), hash(r2)
        except Exception:
            ctx.count("query_cache_probe_skipped_unbuildable_or_unhashable")
            return
        cache = w.repo_misc.caching_repo(w.db, iter)
        try:
            first = sorted(p.cpvstr for p in cache.match(r1))
            got = sorted(p.cpvstr for p in cache.match(r2))
            fresh = sorted(p.cpvstr for p in w.db.itermatch(r2, sorter=iter))
        except Exception as e:
            ctx.count("query_cache_probe_raised:" + type(e).__name__)
            return
        ctx.count("query_cache_probes")
        if len(cache.__cache__) == 1 and r1 is not r2:
            ctx.count("query_cache_hits_with_distinct_key_object")
        ctx.evaluated()
        if got != fresh:
            ctx.violation("query-cache-returns-other-query", {
                "r1": rec1, "r2": rec2, "universe": "pkg", "edit": label, "cached_answer": got, "fresh_answer": fresh,
                "answer_for_r1": first})

    def probe_compiled_cache(self, rec1, rec2, label=""):
        ctx, w = self.ctx, self.w
        if rec1[0] != "DepSet" or rec2[0] != "DepSet" or rec1[1] != "requse" or rec2[1] != "requse":
            return
        cc = w.required_use._compiled_constraints
        try:
            r1, r2 = w.build(rec1), w.build(rec2)
            cc(r1)
            got = self.requse_table(cc(r2))
            fresh = self.requse_table(cc.__wrapped__(r2))
        except Exception as e:
            ctx.count("compiled_cache_probe_raised:" + type(e).__name__)
            ctx.note("compiled cache probe raised %r on %s" % (e, render_requse(rec2[2])))
            return
        ctx.count("compiled_cache_probes")
        ctx.evaluated()
        if got != fresh:
            labs = ["+".join(sorted(a)) for a in w.req_assignments]
            d = [{"on": labs[i], "cached": got[i], "fresh": fresh[i]} for i in range(len(got)) if got[i] != fresh[i]]
            ctx.violation("compiled-cache-returns-other-query", {
                "r1": rec1, "r2": rec2, "universe": "depset", "edit": label, "required_use_1": render_requse(rec1[2]),
                "required_use_2": render_requse(rec2[2]), "n_differ": len(d), "differ": d[:4]})

    def probe_instance_cache(self, rec1, rec2, label=""):
        """r2 built while r1 is alive vs r2 built after the weak instance caches were emptied."""
        ctx, w = self.ctx, self.w
        kind = pair_kind(rec1, rec2)
        if kind is None or kind == "depset":
            return
        try:
            r1 = w.build(rec1)
            v1 = self.vector(r1, kind, rec1)  # materialises lazily built children of r1
            r2 = w.build(rec2)
            v2 = self.vector(r2, kind, rec2)
            w.clear_instance_caches()
            r2f = w.build(rec2)
            v2f = self.vector(r2f, kind, rec2)
        except Exception as e:
            ctx.count("instance_cache_probe_raised:" + type(e).__name__)
            return
        ctx.count("instance_cache_probes")
        ctx.evaluated(len(v2))
        if v2 != v2f:
            labs = self.universe_labels(kind, rec2)
            d = [{"on": labs[i], "built_after_r1": v2[i], "built_fresh": v2f[i]} for i in range(len(v2)) if v2[i] != v2f[i]]
            ctx.violation("instance-cache-returns-other-query", {
                "r1": rec1, "r2": rec2, "universe": kind, "edit": label, "n_differ": len(d), "differ": d[:4],
                "r1_answers_equal_r2_cached": v1 == v2})
        del v1


    def probe_incremental(self, rec, label="incremental"):
        """A boolean built step by step (finalize=False, add_restriction, finalize) with hash()/dict/query-cache lookups
        attempted while it is still incomplete, against its twin built in one go: the same laws as for any other pair."""
        ctx, w = self.ctx, self.w
        if rec[0] not in ("VBool", "PBool") or len(rec[3]) < 2:
            return
        kind = kind_of(rec)
        try:
            kids = [w.build(c) for c in rec[3]]
            nt = w.restriction.value_type if rec[0] == "VBool" else w.restriction.package_type
            inc = w.bool_cls[rec[1]](kids[0], node_type=nt, negate=rec[2], finalize=False)
        except Exception as e:
            ctx.count("incremental_build_failed:" + type(e).__name__)
            return
        cache = w.repo_misc.caching_repo(w.db, iter) if kind == "pkg" else None
        probe_dict = {}
        early = {"hash": 0, "dict": 0, "query": 0}
        try:
            for kid in kids[1:]:
                # lookups with the half built object; refusing them (TypeError: not finalized) is fine and is not judged
                for what, f in (("hash", lambda: hash(inc)), ("dict", lambda: probe_dict.get(inc)),
                                ("query", (lambda: list(cache.match(inc))) if cache is not None else None)):
                    if f is None:
                        continue
                    try:
                        f()
                        early[what] += 1
                        ctx.count("incremental_early_%s_accepted" % what)
                    except TypeError:
                        ctx.count("incremental_early_%s_refused" % what)
                    except Exception as e:
                        ctx.count("incremental_early_%s_raised_%s" % (what, type(e).__name__))
                inc.add_restriction(kid)
            inc.finalize()
            twin = w.bool_cls[rec[1]](*kids, node_type=nt, negate=rec[2])
        except Exception as e:
            ctx.count("incremental_build_failed:" + type(e).__name__)
            ctx.note("incremental build of %s failed: %r" % (json.dumps(rec)[:160], e))
            return
        ctx.count("incremental_builds")
        wit = {"r1": rec, "r2": rec, "universe": kind, "edit": label, "path": "r2 built incrementally: finalize=False, "
               "add_restriction() per member with hash/dict/query-cache lookups attempted in between, finalize()",
               "early_lookups_accepted": early}
        try:
            equal = bool(inc == twin) or bool(twin == inc)
            h1, h2 = hash(twin), hash(inc)
        except Exception as e:
            ctx.evaluated()
            ctx.violation("eq-or-hash-raises", dict(wit, exc=repr(e)))
            return
        if inc is twin:
            ctx.count("incremental_twin_is_same_object")
            return
        if not equal:
            ctx.count("incremental_twin_unequal(no obligation)")
            return
        ctx.count("equal_pairs")
        ctx.count("equal_pairs_distinct_objects")
        ctx.nontrivial("incremental|" + json.dumps(rec, sort_keys=True))
        ctx.evaluated()
        if h1 != h2:
            ctx.violation("equal-hash-differs", dict(wit, hash1=h1, hash2=h2))
        ctx.evaluated()
        if len({twin, inc}) != 1 and h1 == h2:
            ctx.violation("equal-hash-differs", dict(wit, rule="set keeps both", hash1=h1, hash2=h2))
        v1, v2 = self.vector(twin, kind, rec), self.vector(inc, kind, rec)
        ctx.evaluated(len(v1))
        ctx.count("match_vector_elements_compared", len(v1))
        if v1 != v2:
            labs = self.universe_labels(kind, rec)
            diffs = [{"on": labs[i], "r1": v1[i], "r2": v2[i]} for i in range(len(v1)) if v1[i] != v2[i]]
            ctx.violation("equal-match-differs", dict(wit, n_differ=len(diffs), differ=diffs[:4]))
        if cache is not None:
            try:
                got_inc = sorted(p.cpvstr for p in cache.match(inc))
                got_twin = sorted(p.cpvstr for p in cache.match(twin))
                fresh = sorted(p.cpvstr for p in w.db.itermatch(twin, sorter=iter))
            except Exception as e:
                ctx.count("query_cache_probe_raised:" + type(e).__name__)
                return
            ctx.count("query_cache_probes")
            ctx.evaluated()
            if got_inc != fresh or got_twin != fresh:
                ctx.violation("query-cache-returns-other-query", dict(
                    wit, cached_answer_incremental=got_inc, cached_answer_twin=got_twin, fresh_answer=fresh))


INCREMENTAL_FIXED = [
    ["PBool", c, n, [["CategoryDep", "a", False], ["PackageDep", "p", False], ["SlotDep", "0", False]][:k]]
    for c in ("And", "Or", "JustOne", "AtMostOne") for n in (False, True) for k in (2, 3)
] + [
    ["VBool", c, False, [["StrExact", "foo", True, False, 0], ["StrGlob", "f", True, True, False]]]
    for c in ("And", "Or", "JustOne", "AtMostOne")
] + [["PBool", "And", False, [["PkgR", "category", ["StrExact", "a", True, False, 0], False],
                              ["PkgR", "package", ["StrExact", "p", True, False, 0], False]]]]

USE_DEFAULT_ALL = "atom:use-default-all"


def flip_all_defaults(rng, rec):
    """Atom look-alike for the instance cache: every USE-dep default sign flipped ((+) <-> (-))."""
    f = rec[1]
    sign = rng.choice("+-")
    fl = rng.sample(gen.FLAGS, 2)
    f["use"] = ["%s(%s)" % (fl[0], sign), "-%s(%s)" % (fl[1], sign)]
    g = dict(f)
    other = "-" if sign == "+" else "+"
    g["use"] = [t.replace("(%s)" % sign, "(%s)" % other) for t in f["use"]]
    return ["Atom", g]


def run(ctx):
    mon = Mon(ctx)
    rng = ctx.rng
    # every run: the fixed incremental-construction cases (one per boolean class), on every shard
    for rec in INCREMENTAL_FIXED:
        mon.probe_incremental(rec, "incremental-fixed")
    n = ctx.budget(9000, 200000)
    for k in range(n):
        rec1, kind = gen.random_recipe(rng)
        if rec1[0] in ("VBool", "PBool"):
            mon.probe_incremental(rec1, "incremental")
        r = rng.random()
        if r < 0.04:
            rec2, label = gen.random_recipe(rng)[0], "random"
        elif r < 0.08 and rec1[0] == "Atom":
            rec2, label = flip_all_defaults(rng, rec1), USE_DEFAULT_ALL
        else:
            rec2, label = gen.lookalike(rng, rec1)
            if rng.random() < 0.1:
                rec2, l2 = gen.lookalike(rng, rec2)
                label = "two-edits"
        mon.check_pair(rec1, rec2, label, nocache2=rng.random() < 0.25)
        if kind == "pkg" and k % 3 == 0:
            mon.probe_query_cache(rec1, rec2, label)
        if kind == "depset":
            mon.probe_compiled_cache(rec1, rec2, label)
        if kind != "depset" and (k % 6 == 0 or label == USE_DEFAULT_ALL or "if-missing" in label):
            mon.probe_instance_cache(rec1, rec2, label)
        if k % 64 == 0 and ctx.out_of_time(30):
            ctx.note("stopped early by the soft deadline after %d pairs" % k)
            break


def classify(w):
    return models.classify(w)


def replay(ctx, w):
    mon = Mon(ctx)
    r1, r2 = w["r1"], w["r2"]
    label = w.get("edit", "replay")
    if str(w.get("path", "")).startswith("r2 built incrementally"):
        mon.probe_incremental(r2, label)
        return
    mon.check_pair(r1, r2, label, nocache2=bool(w.get("nocache2")))
    mon.probe_query_cache(r1, r2, label)
    mon.probe_compiled_cache(r1, r2, label)
    mon.probe_instance_cache(r1, r2, label)
