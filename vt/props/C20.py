"""C20 Unmerge removes exactly what it owns and never base directories."""

import json
import os
import posixpath
import shutil

ID = "C20"
LEVEL = "exploration"
TECHNIQUE = "filesystem snapshots around real MergeEngine runs vs a removal model written from the statement"
RULE = ("random live roots (merged-usr symlinks bin/sbin/lib/lib64 -> usr/*, base directories, unlisted neighbours, an "
        "outside area only reachable through symlinks) with an installed old package (entries modified, missing, "
        "turned into symlinks since recording; symlinks to files/dirs/outside/dangling, fifos, nested empty and "
        "non-empty listed dirs) and, for replace, a new image sharing entries with the old one by the same or by an "
        "aliasing spelling (lib/x vs usr/lib/x; the shared object is a file, a symlink or a fifo). MergeEngine.uninstall / MergeEngine.replace (merge, unmerge, "
        "BaseSystemUnmergeProtection only) run hook by hook with offset '/' inside a chroot and with a nested offset; "
        "the root snapshot after the run must equal the model's expected snapshot. A scenario is non-trivial when the "
        "old set contains a symlink, a listed dir that must survive (non-empty, or an otherwise empty base dir), or shares a physical path "
        "with the new set; distinct = distinct (mode, style, per-entry dispositions).")
ASSUMPTIONS = [
    "listed paths are identified with the physical object the OS reaches (parent-directory symlinks resolved, last component not)",
    "the protected base directories are the 15 documented defaults of BaseSystemUnmergeProtection (/usr /usr/lib ... /root)",
    "entries whose on-disk type switched between directory and non-directory since recording, and a listed base path "
    "that is a symlink on disk, are not decided by the statement and are not compared",
    "replace: only the unmerge half is judged (snapshot after post_merge vs after final); what merge writes belongs to another property",
    "an engine run that raises is outside the statement (counted, not judged)",
    "chroot(2) is available to the worker (uid 0); offset '/' runs happen in a forked, chrooted child",
]
SHARDS = {"quick": 4, "thorough": 16}
TIMEOUT = {"quick": 240, "thorough": 1800}
MIN_EVALS = 2500
REQUIRED_COUNTERS = ("runs:uninstall:chroot", "runs:replace:chroot", "runs:replace:nested", "disp:remove",
                     "base_dir_protection_decisive", "replace_aliased_paths", "replace_aliased:file",
                     "replace_aliased:non-regular",
                     "disp:rmdir-if-empty", "disp:protected", "disp:kept-for-new-package", "listed_symlinks_judged")

K_ALIAS = "replace-remove-set-by-recorded-path"
K_HOST = "uninstall-offset-intersects-host-root"


def _mods():
    from ..gen import c20_scen, c20_world
    from ..ref import c20_unmerge_model as model

    return c20_world, c20_scen, model


def _scratch():
    return os.environ.get("VT_SCRATCH") or "/var/tmp/c20-scratch-%d" % os.getpid()


_seq = [0]


def judge(ctx, plan, tag="run"):
    """Run one plan and judge it. Returns the number of violation groups raised."""
    W, _, model = _mods()
    _seq[0] += 1
    base = os.path.join(_scratch(), "c20-%s-%d-%d" % (tag, os.getpid(), _seq[0]))
    shutil.rmtree(base, ignore_errors=True)
    try:
        before, res, after = W.run_plan(plan, base, _scratch())
    finally:
        shutil.rmtree(base, ignore_errors=True)
    mode, style = plan["mode"], plan["style"]
    ctx.count("runs:%s:%s" % (mode, style))
    if res.get("exc"):
        ctx.count("engine_raised:%s:%s" % (res.get("failed_hook"), res.get("exc_type")))
        if res.get("exc_type") == "ChildFailure" or str(res.get("exc", "")).startswith("harness/setup"):
            ctx.note("harness problem: %s %s" % (res.get("exc"), (res.get("exc_tb") or "")[-300:]))
            ctx.count("harness_problem")
        else:
            ctx.note("engine raised in %s: %s" % (res.get("failed_hook"), res.get("exc")))
        ctx.skip_unspecified("engine run raised (%s at %s)" % (res.get("exc_type"), res.get("failed_hook")))
        return 0
    old = plan["old"]
    listed = {rel: e["t"] for rel, e in old.items()}
    if mode == "replace":
        S = res["snaps"].get("post_merge")
        if S is None:
            ctx.skip_unspecified("no post_merge snapshot")
            return 0
        new_phys = model.physical_set(S, plan["new"].keys())
        keep = set(new_phys)
    else:
        S = before
        new_phys = {}
        keep = set()
    E, either, disp = model.expected_after_unmerge(S, listed, keep)
    listed_phys = {}
    for rel, (p, d) in disp.items():
        if p is not None:
            listed_phys.setdefault(p, []).append(rel)
        ctx.count("disp:" + d)
    # targets of listed symlinks (as found on disk) that live inside the root
    link_targets = set()
    nlinks = 0
    for p in listed_phys:
        e = S.get(p)
        if e is not None and e["type"] == "link" and p not in either:
            nlinks += 1
            t = e["target"]
            rp = W.root_prefix(plan, base)
            if t.startswith("/"):
                if rp and t.startswith(rp + "/"):
                    t = t[len(rp) + 1:]
                elif not rp:
                    t = t.lstrip("/")
                else:
                    continue
            else:
                t = posixpath.normpath(posixpath.join(posixpath.dirname(p), t))
            if t in S and t not in listed_phys:
                link_targets.add(t)
    ctx.count("listed_symlinks_judged", nlinks)
    ctx.count("listed_symlink_targets_watched", len(link_targets))
    diffs = model.compare(S, E, after, either, set(listed_phys), keep, link_targets)
    ctx.evaluated(len(listed) + 1)
    ctx.count("entries_judged", len(listed))
    ctx.count("unlisted_paths_watched", len([p for p in S if p not in listed_phys]))
    # non-triviality
    dvals = {d for _, d in disp.values()}
    decisive_protect = any(d == "protected" and not any(q.startswith(p + "/") for q in E) for p, d in disp.values())
    if decisive_protect:
        ctx.count("base_dir_protection_decisive")  # an empty listed base dir: only the protection keeps it
    if nlinks or decisive_protect or ("kept-for-new-package" in dvals) or any(
            d == "rmdir-if-empty" and p in E for p, d in disp.values()):
        ctx.nontrivial(json.dumps([mode, style, sorted((r, d) for r, (p, d) in disp.items())]))
    if mode == "replace":
        shared = [p for p in keep if p in listed_phys]
        ctx.count("replace_shared_physical_paths", len(shared))
        aliased = [p for p in shared if not set(listed_phys[p]) & set(new_phys[p])]
        ctx.count("replace_aliased_paths", len(aliased))
        for p in aliased:
            # by the type the new package installs there (regular files and other objects take different code paths)
            t = {plan["new"][r]["t"] for r in new_phys[p]}
            ctx.count("replace_aliased:" + ("dir" if "d" in t else "file" if "f" in t else "non-regular"))
    for d in ("either", "unresolvable"):
        n = sum(1 for _, dd in disp.values() if dd == d)
        for _ in range(n):
            ctx.skip_unspecified("listed entry not decided by the statement (%s)" % d)
    if ctx.want_sample():
        ctx.sample({"mode": mode, "style": style, "listed": len(listed), "removed": sorted(set(S) - set(after))[:6],
                    "expected_removed": sorted(set(S) - set(E))[:6], "survivors_of_listed_dirs": sorted(
                        p for p, d in disp.values() if d == "rmdir-if-empty" and p in E)[:4]})
    if not diffs:
        ctx.count("scenarios_conform")
        return 0
    un = {r for r, _ in (res.get("csets", {}).get("uninstall") or [])}
    for rule, paths in sorted(diffs.items()):
        details = []
        for p in paths[:80]:
            d = {"path": p, "old_spellings": sorted(listed_phys.get(p, [])), "new_spellings": sorted(new_phys.get(p, [])),
                 "before": _brief(S.get(p)), "after": _brief(after.get(p))}
            if style == "nested" and mode == "uninstall":
                d["exists_on_host_unoffset"] = [os.path.lexists("/" + r) for r in d["old_spellings"]]
            d["in_engine_uninstall_cset"] = [("/" + r) in un for r in d["old_spellings"]]
            details.append(d)
        ctx.violation(rule, {"rule": rule, "mode": mode, "style": style, "paths": paths[:80], "npaths": len(paths),
                             "details": details, "new_rels": sorted(plan["new"]) if plan.get("new") else [],
                             "engine_uninstall_cset": sorted(un)[:60], "plan": plan})
    return len(diffs)


def _brief(e):
    if e is None:
        return None
    d = {k: v for k, v in e.items() if k in ("type", "mode", "size", "target")}
    if "sha" in e:
        d["sha"] = e["sha"][:12]
    return d


def classify(w):
    rule = w.get("rule")
    det = w.get("details") or []
    if not det or w.get("npaths", 0) != len(det):
        return None
    if rule == "replace-new-entry-removed" and w.get("mode") == "replace":
        # wrong model: "an old entry is removed iff its *recorded spelling* is not a spelling of the new package"
        new_rels = set(w.get("new_rels") or [])
        for d in det:
            olds = d.get("old_spellings") or []
            if not olds or not any(o not in new_rels for o in olds):
                return None
            if not d.get("new_spellings"):
                return None
        return K_ALIAS
    if rule in ("listed-entry-not-removed", "empty-listed-dir-not-removed") and w.get("mode") == "uninstall" \
            and w.get("style") == "nested":
        # wrong model: "the old package's entries are looked up on the host's root, without the offset"
        for d in det:
            ex = d.get("exists_on_host_unoffset")
            if not ex or any(ex) or any(d.get("in_engine_uninstall_cset") or [True]):
                return None
        return K_HOST
    return None


def replay(ctx, w):
    plan = w.get("plan", w)
    judge(ctx, plan, tag="replay")


def _close():
    W, _, _ = _mods()
    W.close_jail()


def run(ctx):
    W, scen, _ = _mods()
    try:
        _run(ctx, scen)
    finally:
        W.close_jail()


def _run(ctx, scen):
    g = scen.Gen(ctx.rng)
    n = ctx.budget(150, 1500)
    combos = [("uninstall", "chroot"), ("replace", "chroot"), ("replace", "nested"), ("uninstall", "nested"),
              ("uninstall", "chroot"), ("replace", "chroot"), ("replace", "nested")]
    for i in range(n):
        mode, style = combos[(i + ctx.shard) % len(combos)]
        try:
            plan = g.plan(mode, style)
        except ValueError as e:
            ctx.count("generator_rejected")
            ctx.note("generator rejected a plan: %s" % e)
            continue
        judge(ctx, plan)
        if ctx.out_of_time(20):
            ctx.note("stopped early by the soft deadline after %d scenarios" % (i + 1))
            break
