"""C08 Repository queries return exactly the matching packages, each once; unversioned / sorted / stacked variants."""

import json

from ..gen import c06_spec as specs
from ..gen import c08_queries as gen
from ..ref import c06_prop as ref
from ..ref import c08_model as model

ID = "C08"
LEVEL = "exploration"
TECHNIQUE = "differential: real itermatch() vs brute-force filter of independently enumerated repository contents"
RULE = ("random SimpleTree contents (1-4 categories x 1-4 packages x 1-4 versions out of name pools with shared prefixes, "
        "occasionally an empty category or version-less package; 1-3 overlapping repositories) x random query specs built "
        "into real restrictions: atoms (with and without version operator), exact/glob/regex/containment matchers on "
        "category, package and fullver, negation at value, PackageRestriction, restriction.Negate and node level, "
        "all-of/any-of/exactly-one/at-most-one nodes to depth 3, value-level boolean trees, plus negation-free and/or "
        "queries mixing clauses that constrain category+package, one of them, or neither, plus any-of queries whose clauses "
        "all name ONE category exactly (atoms, category==c && package exact/glob/regex/negated-exact, factored form) built "
        "from names present in the repository. After the queries each first repository goes through a mutation history: "
        "full walk (loads the caches) -> notify_add_package (new name in a known category / new version / new category) or "
        "notify_remove_package -> AlwaysTrue, category, package-glob, atom and and/or queries judged against the harness' "
        "own record of the new contents. Each set also gets a spelling case: two repositories storing some spellings of "
        "one version (1.0/1.00/1.0-r0, 0.06/0.060, 1_alpha/1_alpha0, ...) queried by =, ~ and range atoms in every spelling "
        "of the group, in particular spellings that are not stored literally. Every query runs through "
        "itermatch (plain, sorter=sorted, reverse sorter, versioned=False with the default and with UnversionedCPV raw "
        "class), match/has_match, multiplex.tree, filtered.tree and caching_repo. Oracle: multiset equality with "
        "[p for p in <all packages enumerated from the generator's dict> if restrict.match(p)]. A case is non-trivial "
        "when the expected answer is neither empty nor the whole repository and the query is not a bare atom; "
        "distinct = (repository contents, query).")
ASSUMPTIONS = [
    "restrict.match(pkg) itself is taken from the implementation (judged by C04/C06); only the query machinery is judged",
    "unversioned queries are only issued with restrictions over category/package, and (category, package) pairs "
    "without any version are left out of the comparison (the statement does not say whether they are pairs of the repository)",
    "sorter order is checked as: the yielded sequence is a fixed point of the sorter",
    "mutation histories respect the notification preconditions (add only an absent cpv, remove only a present one) and "
    "walk the whole repository before each step, as a merge operation does",
    "the stacked (multiplex) and filtered answers are compared with the per-repository answers the implementation "
    "gave, so a per-repository defect is not reported twice",
]
SHARDS = {"quick": 4, "thorough": 16}
TIMEOUT = {"quick": 240, "thorough": 1100}
MIN_EVALS = 5000
REQUIRED_COUNTERS = ("queries_plain", "queries_sorted", "queries_unversioned", "queries_multiplex", "queries_filtered",
                     "queries_positive", "candidate_sets_observed", "answers_partial", "queries_same_category_clauses",
                     "queries_after_notify", "mutations_add", "mutations_remove", "queries_version_spellings",
                     "spelling_queries_equal_version_stored_under_other_spelling")


# ---------------------------------------------------------------------------------------------------------
def all_cpvs(cpv_dict):
    return [(c, p, v) for c, pk in cpv_dict.items() for p, vs in pk.items() for v in vs]


def all_cps(cpv_dict):
    return [(c, p) for c, pk in cpv_dict.items() for p, vs in pk.items() if vs]


def _name(x):
    if isinstance(x, tuple):
        return "/".join(x)
    s = getattr(x, "cpvstr", None)
    return s if s is not None else str(x)


class Repo:
    """A real SimpleTree plus the harness' own record of its contents and a tap on candidate selection."""

    def __init__(self, cpv_dict):
        from pkgcore.repository.util import SimpleTree

        # the harness keeps its OWN record of the contents (the tree gets a deep copy)
        self.cpv_dict = {c: {p: list(vs) for p, vs in pk.items()} for c, pk in cpv_dict.items()}
        self.initial = json.loads(json.dumps(self.cpv_dict))
        self.history = []
        self.tree = SimpleTree({c: {p: list(vs) for p, vs in pk.items()} for c, pk in cpv_dict.items()}, frozen=False)
        self.pkgs = [self.tree.package_class(c, p, v) for c, p, v in all_cpvs(cpv_dict)]
        self.candidates = None
        orig = self.tree._identify_candidates

        def tapped(restrict, sorter):
            cands = orig(restrict, sorter)
            cands = [tuple(cp) for cp in cands]
            self.candidates = cands
            return cands

        self.tree._identify_candidates = tapped
        self._tapped, self._orig = tapped, orig

    def expected(self, restrict):
        return [p for p in self.pkgs if restrict.match(p)]

    def warm(self):
        """Walk the whole repository once so that its category/package/version caches are loaded."""
        return list(self.tree.itermatch(self._always_true()))

    @staticmethod
    def _always_true():
        from pkgcore.restrictions import packages

        return packages.AlwaysTrue

    def mutate(self, step):
        """Apply one add/remove notification to the real tree and, independently, to the harness' record."""
        op, c, p, v = step
        pkg = self.tree.package_class(c, p, v)
        if op == "add":
            self.tree.notify_add_package(pkg)
            self.cpv_dict.setdefault(c, {}).setdefault(p, []).append(v)
        else:
            self.tree.notify_remove_package(pkg)
            self.cpv_dict[c][p].remove(v)
            if not self.cpv_dict[c][p]:
                del self.cpv_dict[c][p]
                if not self.cpv_dict[c]:
                    del self.cpv_dict[c]
        self.history.append(list(step))
        self.pkgs = [self.tree.package_class(*cpv) for cpv in all_cpvs(self.cpv_dict)]

    def full_scan(self, restrict, **kw):
        """The same real query with candidate pruning neutralised (every (category, package) is a candidate)."""
        self.tree._identify_candidates = lambda r, s: list(all_cps(self.cpv_dict))
        try:
            return list(self.tree.itermatch(restrict, **kw))
        finally:
            self.tree._identify_candidates = self._tapped


def _witness(repo, spec, mode, impl, expected, **extra):
    w = {"repo": json.loads(json.dumps(repo.cpv_dict)), "query": ref.canon(spec), "mode": mode,
         "impl": sorted(map(_name, impl)) if impl is not None else None,
         "expected": sorted(map(_name, expected))}
    if repo.history:
        # contents were reached through notifications: replay needs the starting point and the steps
        w["repo0"] = repo.initial
        w["history"] = [list(h) for h in repo.history]
    w.update(extra)
    return w


def _tuple_model(repo, restrict):
    """What the query machinery answers when restrict.match is asked about bare (category, package) tuples."""
    cands = repo.candidates
    if cands is None:
        cands = [(restrict.category, restrict.package)]
    nonempty = set(all_cps(repo.cpv_dict))
    out = []
    for cp in cands:
        if tuple(cp) in nonempty:
            try:
                if restrict.match(tuple(cp)):
                    out.append(tuple(cp))
            except Exception:
                return None
    return sorted(map(_name, out))


def judge_answer(ctx, repo, spec, restrict, mode, impl, expected, kw):
    """Multiset comparison of one answer; on a mismatch find out (by experiment) whether candidate pruning did it."""
    ctx.evaluated()
    missing, extra = model.multiset_diff(list(map(_name, impl)), list(map(_name, expected)))
    if not missing and not extra:
        return True
    w = _witness(repo, spec, mode, impl, expected, missing=missing, extra=extra, candidates=repo.candidates)
    if mode == "unversioned-default":
        w["tuple_model"] = _tuple_model(repo, restrict)
        w["rule"] = "default-raw-class"
        ctx.violation("query-answer-differs", w)
        return False
    try:
        fs = repo.full_scan(restrict, **kw)
        m2, e2 = model.multiset_diff(list(map(_name, fs)), list(map(_name, expected)))
        w["full_scan_ok"] = not m2 and not e2
    except Exception as e:
        w["full_scan_ok"] = False
        w["full_scan_exc"] = repr(e)
    reasons = _polarity_reasons(w)
    w["rule"] = ("extra" if extra else "missing") + ("+dup" if len(set(map(_name, impl))) != len(impl) else "") + \
        (":" + "+".join(reasons) if reasons else "") + (":after-notify" if repo.history else "")
    ctx.violation("query-answer-differs", w)
    return False


def _missed_cps(w):
    cps = set()
    for name in w.get("missing") or ():
        for c, pk in w["repo"].items():
            for p, vs in pk.items():
                if name == "%s/%s" % (c, p) or any(name == "%s/%s-%s" % (c, p, v) for v in vs):
                    cps.add((c, p))
    return sorted(cps)


def _polarity_reasons(w):
    try:
        spec = json.loads(w["query"])
        return model.explained_by_polarity_blind_pruning(spec, _missed_cps(w))
    except Exception:
        return None


def run_query(ctx, repos, spec, cp_only):
    """One query spec against every repository and every access path."""
    from functools import partial

    from pkgcore.ebuild.cpv import UnversionedCPV
    from pkgcore.repository import filtered, misc, multiplex

    restrict, _built = specs.build(spec)
    per_repo_impl = []
    nontrivial = False
    for repo in repos:
        expected = repo.expected(restrict)
        if 0 < len(expected) < len(repo.pkgs) and spec["k"] != "atom":
            nontrivial = True
            ctx.count("answers_partial")
        elif not expected:
            ctx.count("answers_empty")
        else:
            ctx.count("answers_everything")
        # -- plain
        repo.candidates = None
        try:
            impl = list(repo.tree.itermatch(restrict))
        except Exception as e:
            ctx.evaluated()
            ctx.violation("query-raises", _witness(repo, spec, "plain", None, expected, exc=repr(e),
                                                   rule=type(e).__name__))
            per_repo_impl.append(None)
            continue
        ctx.count("queries_plain")
        if repo.candidates is not None:
            ctx.count("candidate_sets_observed")
            if len(set(repo.candidates)) < len(all_cps(repo.cpv_dict)):
                ctx.count("candidate_sets_pruned")
        ok = judge_answer(ctx, repo, spec, restrict, "plain", impl, expected, {})
        per_repo_impl.append(impl)
        if ok:
            # list form / has_match / containment agree with the generator form
            ctx.evaluated()
            m = repo.tree.match(restrict)
            if sorted(map(_name, m)) != sorted(map(_name, impl)) or repo.tree.has_match(restrict) != bool(expected) \
                    or (restrict in repo.tree) != bool(expected):
                ctx.violation("match-hasmatch-differs", _witness(repo, spec, "match/has_match", m, expected))
        # -- sorted, both directions
        for mode, sorter in (("sorted", sorted), ("sorted-reverse", partial(sorted, reverse=True))):
            repo.candidates = None
            try:
                impl_s = list(repo.tree.itermatch(restrict, sorter=sorter))
            except Exception as e:
                ctx.evaluated()
                ctx.violation("query-raises", _witness(repo, spec, mode, None, expected, exc=repr(e), rule=type(e).__name__))
                continue
            ctx.count("queries_sorted")
            if judge_answer(ctx, repo, spec, restrict, mode, impl_s, expected, {"sorter": sorter}):
                ctx.evaluated()
                if [id(x) for x in sorter(impl_s)] != [id(x) for x in impl_s]:
                    ctx.violation("not-in-sorter-order", _witness(repo, spec, mode, impl_s, expected,
                                                                  order=[_name(x) for x in impl_s]))
        # -- unversioned
        if cp_only:
            cps = all_cps(repo.cpv_dict)
            exp_u = [cp for cp in cps if restrict.match(UnversionedCPV(*cp))]
            for mode, kw in (("unversioned-default", {}), ("unversioned-cpv", {"raw_pkg_cls": UnversionedCPV})):
                repo.candidates = None
                try:
                    impl_u = list(repo.tree.itermatch(restrict, versioned=False, **kw))
                except Exception as e:
                    ctx.evaluated()
                    ctx.violation("query-raises", _witness(repo, spec, mode, None, exp_u, exc=repr(e), rule=type(e).__name__))
                    continue
                ctx.count("queries_unversioned")
                if mode == "unversioned-default":
                    impl_names = [x if isinstance(x, tuple) else (x.category, x.package) for x in impl_u]
                else:
                    impl_names = [(x.category, x.package) for x in impl_u]
                judge_answer(ctx, repo, spec, restrict, mode, impl_names, exp_u, dict(kw, versioned=False))
        # -- filtered view of this repository
        if per_repo_impl[-1] is not None and ctx.rng.random() < 0.5:
            fspec = gen.gen_leaf(ctx.rng)
            frestrict, _b = specs.build(fspec)
            sentinel = ctx.rng.random() < 0.5
            try:
                ft = filtered.tree(repo.tree, frestrict, sentinel_val=sentinel)
                impl_f = list(ft.itermatch(restrict))
            except Exception as e:
                ctx.evaluated()
                ctx.violation("query-raises", _witness(repo, spec, "filtered", None, expected, exc=repr(e),
                                                       filter=ref.canon(fspec), rule="filtered:" + type(e).__name__))
            else:
                ctx.count("queries_filtered")
                ctx.evaluated()
                want_f = [p for p in per_repo_impl[-1] if bool(frestrict.match(p)) == sentinel]
                if sorted(map(_name, impl_f)) != sorted(map(_name, want_f)):
                    ctx.violation("filtered-answer-differs", _witness(repo, spec, "filtered", impl_f, want_f,
                                                                      filter=ref.canon(fspec), sentinel=sentinel))
        # -- caching wrapper
        if per_repo_impl[-1] is not None and ctx.rng.random() < 0.3:
            try:
                hash(restrict)
            except TypeError:
                ctx.count("caching_skipped_unhashable")
            else:
                cr = misc.caching_repo(repo.tree, iter)
                a = list(cr.match(restrict))
                b = list(cr.itermatch(restrict))
                ctx.count("queries_caching")
                ctx.evaluated()
                names = sorted(map(_name, per_repo_impl[-1]))
                if sorted(map(_name, a)) != names or sorted(map(_name, b)) != names:
                    ctx.violation("caching-answer-differs", _witness(repo, spec, "caching", a, per_repo_impl[-1]))
    # -- stack of repositories
    if len(repos) > 1 and all(x is not None for x in per_repo_impl):
        mt = multiplex.tree(*[r.tree for r in repos])
        union = [p for impl in per_repo_impl for p in impl]
        for mode, kw in (("multiplex", {}), ("multiplex-sorted", {"sorter": sorted})):
            try:
                impl_m = list(mt.itermatch(restrict, **kw))
            except Exception as e:
                ctx.evaluated()
                ctx.violation("query-raises", _witness(repos[0], spec, mode, None, union, exc=repr(e),
                                                       repos=[r.cpv_dict for r in repos], rule=mode + ":" + type(e).__name__))
                continue
            ctx.count("queries_multiplex")
            ctx.evaluated()
            missing, extra = model.multiset_diff(list(map(_name, impl_m)), list(map(_name, union)))
            if missing or extra:
                ctx.violation("multiplex-not-union", _witness(repos[0], spec, mode, impl_m, union, missing=missing, extra=extra,
                                                              repos=[r.cpv_dict for r in repos]))
            elif kw and [id(x) for x in sorted(impl_m)] != [id(x) for x in impl_m] \
                    and [_name(x) for x in sorted(impl_m)] != [_name(x) for x in impl_m]:
                ctx.violation("not-in-sorter-order", _witness(repos[0], spec, mode, impl_m, union,
                                                              order=[_name(x) for x in impl_m],
                                                              repos=[r.cpv_dict for r in repos]))
    return nontrivial


def spelling_phase(ctx):
    """Equal versions under different spellings: '=' / '~' / range atoms spelled one way against repositories that
    store an equal version spelled another way (judged by the same brute-force oracle, through every access path)."""
    dicts, atoms, (c, p) = gen.gen_spelling_case(ctx.rng)
    repos = [Repo(d) for d in dicts]
    key = json.dumps(dicts, sort_keys=True)
    for a in atoms:
        spec = {"k": "atom", "s": a}
        restrict, _b = specs.build(spec)
        for repo in repos:
            stored = repo.cpv_dict.get(c, {}).get(p, [])
            if a.startswith("=") and a.split("%s/%s-" % (c, p), 1)[1] not in stored and repo.expected(restrict):
                ctx.count("spelling_queries_equal_version_stored_under_other_spelling")
                ctx.nontrivial(key + a)
        run_query(ctx, repos, spec, False)
        ctx.count("queries_version_spellings")


def mutation_phase(ctx, repo, steps=3):
    """Mutation history on one repository: walk it (loads the caches), notify an add/remove, query again; every
    answer is judged against brute force over the harness' own record of the NEW contents."""
    rng = ctx.rng
    for _ in range(steps):
        repo.warm()
        step = gen.gen_mutation(rng, repo.cpv_dict)
        if step is None:
            return
        try:
            repo.mutate(step)
        except Exception as e:
            ctx.count("notify_raised_" + type(e).__name__)
            ctx.skip_unspecified("notify_%s_package raised %s" % (step[0], type(e).__name__))
            return
        ctx.count("mutations_" + step[0])
        c, p = step[1], step[2]
        queries = [
            {"k": "const", "val": True},
            {"k": "pr", "attr": "category", "neg": False, "v": {"k": "exact", "s": c, "neg": False}},
            {"k": "pr", "attr": "package", "neg": False, "v": {"k": "glob", "s": p[:1], "prefix": True, "neg": False}},
            {"k": "atom", "s": "%s/%s" % (c, p)},
            gen.gen_positive_query(rng, 2, True),
        ]
        for spec in queries:
            run_query(ctx, [repo], spec, True)
            ctx.count("queries_after_notify")


def run(ctx):
    rng = ctx.rng
    nrepos = ctx.budget(70, 2000)
    nq = ctx.budget(34, 34)
    for i in range(nrepos):
        dicts = [gen.gen_repo(rng) for _ in range(rng.choice([1, 2, 2, 3]))]
        repos = [Repo(d) for d in dicts]
        ctx.count("repositories", len(repos))
        key = json.dumps(dicts, sort_keys=True)
        for j in range(nq):
            r = rng.random()
            cp_only = rng.random() < 0.35
            if r < 0.12:
                spec = gen.gen_same_category_query(rng, rng.choice(dicts))
                ctx.count("queries_same_category_clauses")
            elif r < 0.3:
                spec = gen.gen_positive_query(rng, rng.choice([1, 2, 2, 3]), cp_only)
                ctx.count("queries_positive")
            elif r < 0.4:
                spec = gen.gen_leaf(rng, cp_only)
                if rng.random() < 0.3:
                    spec = {"k": "not", "x": spec}
                ctx.count("queries_single_leaf")
            else:
                spec = gen.gen_query(rng, rng.choice([1, 2, 2, 3]), cp_only)
                ctx.count("queries_random_tree")
            if ref.has_negation(spec):
                ctx.count("queries_with_negation")
            if run_query(ctx, repos, spec, cp_only):
                ctx.nontrivial(key + ref.canon(spec))
            if i == 0 and j < 3:
                ctx.sample({"repos": dicts, "query": spec})
        mutation_phase(ctx, repos[0])
        spelling_phase(ctx)
        if ctx.out_of_time(ctx.budget(TIMEOUT["quick"] * 0.8 - 50, 15)):
            ctx.note("stopped early by the soft deadline after %d repository sets" % (i + 1))
            break


# ---------------------------------------------------------------------------------------------------------
def classify(w):
    kind = w.get("kind")
    mode = w.get("mode")
    if kind == "query-raises":
        # restriction.Negate at the top of a query: _fast_identify_candidates reads restrict.negate
        try:
            spec = json.loads(w["query"])
        except Exception:
            return None
        if spec.get("k") == "not" and "AttributeError" in w.get("exc", "") and "'negate'" in w.get("exc", "") \
                and "Negate" in w.get("exc", ""):
            return "negate-wrapper-has-no-negate-attribute"
        return None
    if kind != "query-answer-differs":
        return None
    if mode == "unversioned-default":
        # bare (category, package) tuples are handed to restrict.match: nothing that looks at an attribute matches
        # the answer is exactly {candidate pairs for which restrict.match(<tuple>) is true} (and that is wrong)
        if w.get("tuple_model") is not None and w.get("impl") == w["tuple_model"] and w["impl"] != w.get("expected"):
            return "unversioned-default-raw-class-is-tuple"
        return None
    # polarity-blind candidate pruning: only packages are lost, the same query is right once pruning is
    # neutralised, and every lost (category, package) is rejected by the positive reading of a misread matcher
    if w.get("extra") or not w.get("missing") or not w.get("full_scan_ok"):
        return None
    if len(set(w.get("impl") or ())) != len(w.get("impl") or ()):
        return None
    if _polarity_reasons(w):
        return "pruning-polarity-blind"
    # a constant always-true value matcher on category/package is flattened away when clauses are mixed
    try:
        if model.has_always_true_cp_value(json.loads(w["query"])):
            return "pruning-drops-always-true-value-matcher"
    except Exception:
        pass
    return None


def replay(ctx, w):
    spec = json.loads(w["query"]) if isinstance(w["query"], str) else w["query"]
    if w.get("history"):
        repo = Repo(w["repo0"])
        for step in w["history"]:
            repo.warm()
            repo.mutate(tuple(step))
        repos = [repo]
    else:
        dicts = w.get("repos") or [w["repo"]]
        repos = [Repo(d) for d in dicts]
    run_query(ctx, repos, spec, bool(w.get("mode", "").startswith("unversioned")))
