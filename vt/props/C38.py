"""C38 Package-list rewriting touches only the lines it must."""

import json

from ..gen import c38_lists as gen
from ..ref import c38_pkglist as ref

ID = "C38"
LEVEL = "exploration"
TECHNIQUE = "contract monitor on PackageList.expand + parse/build round trips judged by a byte-level line model"
RULE = ("random package-list texts (specs with/without operator, version, slot; 0-4 keywords incl. the * ^ - sentinels; "
        "tabs/runs of spaces before, between and after tokens; trailing and stand-alone comments containing sentinels and "
        "'#'; blank lines; \\n, \\r\\n and missing final newline mixed in one text) and random suggestion tables (0-4 "
        "keywords per spec). Per text: (1) entries re-joined == text and every entry field == reference line split, "
        "(2) build(entries) parses back to the entries, (3) expand(): line count, untouched lines byte-identical, rewritten "
        "lines keep leading whitespace, spec token, gap before the first keyword, tail (whitespace+comment) and line ending, "
        "and carry the reference expansion. A text is non-trivial for (3) when at least one line is rewritten and at least "
        "one other line must stay byte-identical or the rewritten line has irregular spacing/comment/CRLF; distinct = "
        "distinct (text, suggestions).")
ASSUMPTIONS = [
    "domain: lines end in \\n or \\r\\n (or the text ends), in-line whitespace is space/tab only; other line separators "
    "and Unicode whitespace are outside the statement",
    "'^' copies the expansion of the previous PACKAGE line (blank and comment-only lines do not count as lines with keywords)",
    "keywords on a rewritten line are compared as a token list (spacing BETWEEN keywords cannot be preserved when one "
    "sentinel becomes several keywords)",
    "where expand() should refuse is not part of the statement: a missing refusal is skipped as unspecified, an "
    "unexpected refusal of an expandable text is a violation",
    "texts whose expansion repeats a keyword, or puts '-' next to other keywords, are only judged on the parts that do "
    "not depend on the keyword field",
]
SHARDS = {"quick": 4, "thorough": 16}
TIMEOUT = {"quick": 240, "thorough": 1800}
MIN_EVALS = 5000
REQUIRED_COUNTERS = ("parse_roundtrips", "build_roundtrips", "expand_calls", "expand_lines_rewritten",
                     "expand_lines_untouched_checked", "expand_keyword_fields_judged", "expand_refused_as_expected",
                     "with_keywords_calls")


class Mon:
    def __init__(self, ctx):
        from pkgcore.bugzilla import pkglist
        from pkgcore.bugzilla.errors import PackageListError
        from pkgcore.ebuild.atom import atom

        self.ctx = ctx
        self.PL = pkglist.PackageList
        self.Err = PackageListError
        self.atom = atom
        if getattr(self.PL.expand, "_vt_c38", False):
            return
        orig = self.PL.expand
        mon = self

        def monitored_expand(self_, suggest):
            seen = {}

            def recording(pkg):
                r = suggest(pkg)
                try:
                    seen[str(pkg)] = list(r)
                except Exception:
                    pass
                return r

            try:
                res = orig(self_, recording)
            except PackageListError as e:
                try:
                    mon.judge_expand(self_.text, seen, None, e)
                except Exception as e2:
                    ctx.note("monitor error in expand (refusal): %r" % (e2,))
                raise
            try:
                mon.judge_expand(self_.text, seen, res, None)
            except Exception as e2:
                ctx.note("monitor error in expand: %r" % (e2,))
            return res

        monitored_expand._vt_c38 = True
        self.PL.expand = monitored_expand

    # ---- (1) parse / render ------------------------------------------------------------------
    def check_parse(self, text):
        ctx = self.ctx
        if not ref.in_domain(text):
            ctx.skip_unspecified("text uses line separators / whitespace outside the model's domain")
            return None
        pl = self.PL(text)
        try:
            entries = pl.entries
        except self.Err as e:
            ctx.evaluated()
            ctx.violation("parse-refuses-valid-list", {"text": text, "exc": str(e), "rule": "parse-error"})
            return None
        ctx.count("parse_roundtrips")
        ctx.evaluated()
        rendered = "".join(e.raw + e.eol for e in entries)
        if rendered != text:
            ctx.violation("render-differs-from-text", {"text": text, "impl": rendered, "rule": "rejoin"})
        if str(pl) != text:
            ctx.violation("render-differs-from-text", {"text": text, "impl": str(pl), "rule": "str"})
        lines = ref.split_lines(text)
        ctx.evaluated()
        if len(entries) != len(lines):
            ctx.violation("entry-count", {"text": text, "impl": len(entries), "want": len(lines), "rule": "entry-count"})
            return pl
        for i, (e, (raw, eol)) in enumerate(zip(entries, lines)):
            ln = ref.parse_line(raw)
            got = {"lineno": e.lineno, "raw": e.raw, "eol": e.eol, "blank": e.pkg is None,
                   "keywords": list(e.keywords), "comment": e.comment}
            want = {"lineno": i + 1, "raw": raw, "eol": eol, "blank": ln["blank"], "keywords": ln["keywords"],
                    "comment": ln["comment"]}
            ctx.evaluated()
            if got != want:
                bad = sorted(k for k in got if got[k] != want[k])
                ctx.violation("entry-fields", {"text": text, "line": i + 1, "impl": got, "want": want,
                                               "rule": ",".join(bad)})
            elif not ln["blank"] and str(e.pkg) != ref.canonical_spec(ln["spec"]):
                ctx.violation("entry-fields", {"text": text, "line": i + 1, "impl": str(e.pkg),
                                               "want": ref.canonical_spec(ln["spec"]), "rule": "pkg"})
        return pl

    # ---- (2) build -> parse -------------------------------------------------------------------
    def check_build(self, entries):
        """entries: [[spec token, [keywords]]]"""
        ctx = self.ctx
        want = [(ref.canonical_spec(s), tuple(k)) for s, k in entries]
        arg = [(self.atom(c), (iter(k) if i % 3 == 0 else (list(k) if i % 3 == 1 else k)))
               for i, (c, k) in enumerate(want)]
        ctx.count("build_roundtrips")
        ctx.evaluated()
        try:
            pl = self.PL.build(arg)
            got = [(str(e.pkg), tuple(e.keywords)) for e in pl.entries if e.pkg is not None]
            nblank = sum(1 for e in pl.entries if e.pkg is None)
            atoms_equal = all(e.pkg == a for e, (a, _) in zip((x for x in pl.entries if x.pkg is not None), arg))
        except self.Err as e:
            ctx.violation("build-does-not-parse", {"entries": entries, "exc": str(e), "rule": "parse-error"})
            return
        if want and any(k for _, k in want):
            ctx.nontrivial("build " + json.dumps(entries))
        if got != want or nblank or not atoms_equal:
            ctx.violation("build-parse-mismatch", {"entries": entries, "text": pl.text, "impl": got,
                                                   "want": [list(x) for x in want], "blank_entries": nblank,
                                                   "rule": "entries"})
        # and the built text is itself a fixed point of parse/render
        if "".join(e.raw + e.eol for e in pl.entries) != pl.text:
            ctx.violation("render-differs-from-text", {"text": pl.text, "rule": "built-text"})

    # ---- (3) expand -----------------------------------------------------------------------------
    def judge_expand(self, text, seen, res, exc):
        ctx = self.ctx
        ctx.count("expand_calls")
        if not ref.in_domain(text):
            ctx.skip_unspecified("text uses line separators / whitespace outside the model's domain")
            return
        split = ref.split_lines(text)
        lines = [ref.parse_line(raw) for raw, _ in split]
        eols = [eol for _, eol in split]
        wit = {"text": text, "suggest": dict(seen)}

        class Unknown(Exception):
            pass

        def sugg(canon):
            if canon not in seen:
                raise Unknown(canon)
            return seen[canon]

        try:
            new, unsettled = ref.expand(lines, sugg)
            err = None
        except ref.ExpandError as e:
            new, unsettled, err = None, [], e
        except Unknown as e:
            # the implementation never asked for a suggestion the reference needs: it did not expand that '*'
            if exc is None:
                ctx.evaluated()
                ctx.violation("sentinel-not-expanded", dict(wit, impl=res.text, missing_suggestion_for=str(e),
                                                            rule="suggest-not-called"))
            else:
                ctx.skip_unspecified("expand() refused before reaching a '*' line")
            return
        ctx.evaluated()
        if err is not None:
            if exc is not None:
                ctx.count("expand_refused_as_expected")
                ctx.count("refusal:" + err.why)
                ctx.nontrivial("refuse " + json.dumps(wit, sort_keys=True))
            else:
                ctx.skip_unspecified("expand() accepted a '^' the docstring says it refuses (statement is silent)")
            return
        if exc is not None:
            ctx.violation("expand-refuses-expandable-list", dict(wit, exc=str(exc), rule="unexpected-refusal"))
            return
        out = res.text
        sentinel_lines = sum(1 for ln in lines if any(k in ("*", "^") for k in ln["keywords"]))
        if not sentinel_lines:
            ctx.count("expand_no_sentinel_texts")
            if out != text:
                ctx.violation("text-without-sentinels-modified", dict(wit, impl=out, rule="no-sentinel"))
            return
        out_split = ref.split_lines(out)
        if len(out_split) != len(split):
            ctx.violation("line-count-changed", dict(wit, impl=out, want_lines=len(split), impl_lines=len(out_split),
                                                     rule="line-count"))
            return
        rewritten = untouched = 0
        irregular = any_bad = False
        any_unsettled = False
        for i, (ln, eol, kws, (oraw, oeol)) in enumerate(zip(lines, eols, new, out_split)):
            ambiguous = unsettled[i]
            for why in ambiguous:
                ctx.skip_unspecified("keyword field of a line not judged: " + why)
                any_unsettled = True
            has_sentinel = any(k in ("*", "^") for k in ln["keywords"])
            must_change = (not ln["blank"]) and kws != ln["keywords"]
            ctx.evaluated()
            if not has_sentinel or (not must_change and not ambiguous):
                # lines without sentinels are never rewritten; neither are lines whose keywords do not change
                untouched += 1
                ctx.count("expand_lines_untouched_checked")
                if (oraw, oeol) != (ln["raw"], eol):
                    any_bad = True
                    ctx.violation("untouched-line-modified", dict(
                        wit, line=i + 1, impl_line=oraw + oeol, want_line=ln["raw"] + eol, impl=out,
                        rule="no-sentinel-on-line" if not has_sentinel else "keywords-unchanged"))
                continue
            rewritten += 1
            ctx.count("expand_lines_rewritten")
            o = ref.parse_line(oraw)
            bad = []
            if o["blank"]:
                bad.append("spec")
            else:
                if o["lead"] != ln["lead"]:
                    bad.append("leading-whitespace")
                if o["spec"] != ln["spec"]:
                    bad.append("spec")
                if o["comment"] != ln["comment"]:
                    bad.append("comment")
                if oeol != eol:
                    bad.append("line-ending")
                if not ambiguous:
                    ctx.count("expand_keyword_fields_judged")
                    if o["keywords"] != kws:
                        bad.append("keywords")
                    elif kws and ln["keywords"]:
                        if o["gap"] != ln["gap"]:
                            bad.append("gap-before-keywords")
                        if o["tail"] != ln["tail"]:
                            bad.append("tail")
            if ln["lead"] or ln["comment"] or eol != "\n" or (ln["gap"] not in (None, " ")) or ln["tail"]:
                irregular = True
            if bad:
                any_bad = True
                ctx.violation("rewritten-line-damaged", dict(
                    wit, line=i + 1, impl_line=oraw + oeol, want_keywords=kws, impl=out,
                    want=None if any_unsettled else ref.render_expected(lines, eols, new), rule=",".join(bad)))
        if not any_unsettled:
            ctx.evaluated()
            want = ref.render_expected(lines, eols, new)
            # whole-text cross-check modulo the spacing between keywords of rewritten lines
            if _squeeze(out, lines, new) != _squeeze(want, lines, new) and not any_bad:
                ctx.violation("expanded-text-differs", dict(wit, impl=out, want=want, rule="whole-text"))
        if rewritten and (untouched or irregular):
            ctx.nontrivial("expand " + json.dumps(wit, sort_keys=True))
        if ctx.want_sample() and rewritten and untouched and irregular:
            ctx.sample({"text": text, "suggest": seen, "expanded": out})

    # ---- with_keywords, the rewriting primitive expand() is built on --------------------------------
    def check_with_keywords(self, text, lineno, new):
        ctx = self.ctx
        entry = self.PL(text).entries[lineno - 1]
        ln = ref.parse_line(ref.split_lines(text)[lineno - 1][0])
        if ln["blank"]:
            return
        r = entry.with_keywords(iter(new))
        o = ref.parse_line(r.raw)
        ctx.count("with_keywords_calls")
        ctx.evaluated()
        bad = []
        if o["blank"] or o["spec"] != ln["spec"]:
            bad.append("spec")
        else:
            if o["lead"] != ln["lead"]:
                bad.append("leading-whitespace")
            if o["comment"] != ln["comment"]:
                bad.append("comment")
            if r.eol != entry.eol:
                bad.append("line-ending")
            if o["keywords"] != list(new) or list(r.keywords) != list(new):
                bad.append("keywords")
            elif new and ln["keywords"]:
                if o["gap"] != ln["gap"]:
                    bad.append("gap-before-keywords")
                if o["tail"] != ln["tail"]:
                    bad.append("tail")
        if ln["lead"] or ln["comment"] or ln["gap"] not in (None, " ") or ln["tail"]:
            ctx.nontrivial("with_keywords " + json.dumps([ln["raw"], new]))
        if bad:
            ctx.violation("with-keywords-damages-line", {"text": text, "line": lineno, "new_keywords": list(new),
                                                         "impl_line": r.raw, "rule": ",".join(bad)})

    def run_expand(self, text, table):
        pl = self.PL(text)

        def suggest(pkg):
            return tuple(table.get(str(pkg), ()))

        try:
            return pl.expand(suggest)
        except self.Err:
            return None


def _squeeze(text, lines, new):
    """Collapse runs of blanks inside the text (only used to cross-check whole texts modulo inter-keyword spacing)."""
    import re
    return re.sub(r"[ \t]+", " ", text)


def run(ctx):
    mon = Mon(ctx)
    rng = ctx.rng
    for k in range(ctx.budget(6000, 60000)):
        text, specs = gen.text(rng)
        table = gen.suggestions(rng, sorted({ref.canonical_spec(s) for s in specs}))
        if mon.check_parse(text) is not None:
            mon.run_expand(text, table)
            nlines = len(ref.split_lines(text))
            if nlines and k % 2 == 0:
                mon.check_with_keywords(text, rng.randrange(nlines) + 1,
                                        rng.sample(gen.SUGGEST, rng.choice((0, 1, 2, 3))))
        if k % 3 == 0:
            mon.check_build(gen.build_entries(rng))
        if k % 256 == 0 and ctx.out_of_time(15):
            break


def classify(w):
    return None


def replay(ctx, w):
    mon = Mon(ctx)
    if "entries" in w:
        mon.check_build(w["entries"])
    elif "text" in w:
        mon.check_parse(w["text"])
        if "new_keywords" in w:
            mon.check_with_keywords(w["text"], w["line"], w["new_keywords"])
        if "suggest" in w:
            mon.run_expand(w["text"], w["suggest"])
