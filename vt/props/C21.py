"""C21 Protected configuration files are never silently overwritten or removed."""

import json
import os
import shutil

ID = "C21"
LEVEL = "exploration"
TECHNIQUE = "filesystem snapshots + recorded contents around real MergeEngine runs vs a config-protection model"
RULE = ("random <root>/etc/env.d settings (CONFIG_PROTECT split over two files, CONFIG_PROTECT_MASK, COLLISION_IGNORE "
        "globs and directory entries, with and without a SPACE_SEPARATED declaration; trailing/double slashes), "
        "extra_protects/extra_disables arguments, config files that are absent / identical / edited (different and same "
        "size) / as recorded, pending ._cfgNNNN_ updates (identical to the incoming file or not, gaps, 0041, 9997, "
        "malformed and foreign names), occasional non-file replacements; 0/1/2/3 distinct mask entries with edited "
        "neighbours whose names only extend a masked directory's name (app.conf, appdata/x, app-extra/x next to a "
        "masked app/); install, replace and uninstall engines "
        "(ConfigProtectInstall(+_restore), ConfigProtectUninstall, merge, unmerge, BaseSystemUnmergeProtection) with "
        "offset '/' inside a chroot and with a nested offset. Judged per file by the filesystem outcome and "
        "get_merged_cset(). Non-trivial = an existing regular file that the model says is protected and whose content "
        "differs from the incoming/recorded one; distinct = (mode, style, file state, pending numbers, identical pending).")
ASSUMPTIONS = [
    "CONFIG_PROTECT/CONFIG_PROTECT_MASK entries are directories; 'under' = path prefix after normalisation",
    "COLLISION_IGNORE entries are fnmatch globs against the full path; an entry naming an existing directory or ending in /* covers the subtree",
    "settings are relative to the root the engine works on (paths without the offset)",
    "files under /etc when /etc is not listed in CONFIG_PROTECT (pkgcore adds it implicitly), .keep files, existing "
    "non-regular files, and files only covered by extra_protects at uninstall time (the uninstall trigger has no such argument) are not decided by the statement",
    "unprotected / masked / ignored files are not judged (whether they are overwritten belongs to the merge property)",
    "pending-update numbers are compared per file name; well-formed = ._cfg + at least 4 digits + _ + name",
    "an engine run that raises is outside the statement (counted, not judged); a trigger exception the engine suppresses is judged by the filesystem outcome",
]
SHARDS = {"quick": 4, "thorough": 16}
TIMEOUT = {"quick": 240, "thorough": 1800}
MIN_EVALS = 600
REQUIRED_COUNTERS = ("runs:install:chroot", "runs:replace:chroot", "runs:uninstall:chroot", "install:protected-differs",
                     "install:conform", "uninstall:protected-modified", "install:with-identical-pending",
                     "install:with-pending", "install:mask-name-extension:2-masks",
                     "install:mask-name-extension:3+-masks", "uninstall:mask-name-extension:2-masks",
                     "uninstall:mask-name-extension:3+-masks", "install:mask-name-extension:1-mask")

K_OFFSET = "filter-ignores-offset"
K_ENVD_STR = "collision-ignore-envd-string"
K_DIR_ATTR = "collision-ignore-dir-attributeerror"
K_PENDING = "pending-update-number-not-reused"
K_SELFCMP = "uninstall-compares-livefs-with-itself"
K_NONFILE = "non-file-replacement-attributeerror"
K_UNANCHORED = "collision-ignore-glob-unanchored"


def _mods():
    from ..gen import c20_world, c21_scen
    from ..ref import c21_cfgprotect_model as model

    return c20_world, c21_scen, model


def _scratch():
    return os.environ.get("VT_SCRATCH") or "/var/tmp/c21-scratch-%d" % os.getpid()


_seq = [0]


def _suppressed(res):
    out = []
    cur = "?"
    for lvl, msg in res.get("msgs", []):
        if lvl == "trigger_start":
            cur = msg
        elif lvl == "trigger_end":
            cur = "?"
        if lvl == "warn" and "unhandled exception caught and suppressed" in msg:
            lines = [ln for ln in msg.strip().splitlines() if ln.strip()]
            funcs = [ln.strip().rsplit(" in ", 1)[-1] for ln in lines if ln.strip().startswith("File ")]
            out.append({"exception": lines[-1][:300] if lines else "", "frames": funcs[-4:], "trigger": cur})
    return out


def judge(ctx, plan, tag="run"):
    W, _, model = _mods()
    _seq[0] += 1
    base = os.path.join(_scratch(), "c21-%s-%d-%d" % (tag, os.getpid(), _seq[0]))
    shutil.rmtree(base, ignore_errors=True)
    try:
        before, res, after = W.run_plan(plan, base, _scratch())
    finally:
        shutil.rmtree(base, ignore_errors=True)
    mode, style, cfg = plan["mode"], plan["style"], plan["cfg"]
    ctx.count("runs:%s:%s" % (mode, style))
    if res.get("exc"):
        ctx.count("engine_raised:%s:%s" % (res.get("failed_hook"), res.get("exc_type")))
        if res.get("exc_type") == "ChildFailure" or str(res.get("exc", "")).startswith("harness/setup"):
            ctx.note("harness problem: %s %s" % (res.get("exc"), (res.get("exc_tb") or "")[-300:]))
            ctx.count("harness_problem")
        else:
            ctx.note("engine raised in %s: %s" % (res.get("failed_hook"), res.get("exc")))
        ctx.skip_unspecified("engine run raised (%s at %s)" % (res.get("exc_type"), res.get("failed_hook")))
        return
    supp = _suppressed(res)
    if supp:
        ctx.count("runs_with_suppressed_trigger_exception")
    live_dirs = {p for p, e in before.items() if e["type"] == "dir"}
    new, old = plan.get("new") or {}, plan.get("old") or {}
    findings = {}  # rule -> [file detail]
    conform = {"install": 0, "uninstall": 0}

    def flag(rule, detail):
        findings.setdefault(rule, []).append(detail)

    # ---- merge side --------------------------------------------------------------------------------------
    nonfile_over_file = []
    for rel, ent in sorted(new.items()):
        cur = before.get(rel)
        if ent["t"] != "f":
            if ent["t"] != "d" and cur is not None and cur["type"] == "file":
                nonfile_over_file.append(rel)
                ctx.skip_unspecified("incoming entry is not a regular file")
            continue
        if cur is None:
            ctx.count("install:fresh")
            continue
        if cur["type"] != "file":
            ctx.skip_unspecified("existing entry is not a regular file")
            continue
        prot = model.protected("/" + rel, cfg, live_dirs, extras=True)
        isha = model.sha(ent["d"])
        if prot is None:
            ctx.skip_unspecified("protection of the path is not decided by the statement")
            continue
        if isha == cur["sha"]:
            ctx.count("install:identical")
            continue
        if not prot:
            ctx.count("install:unprotected-differs")
            a = after.get(rel)
            ctx.count("install:unprotected-differs:" + ("overwritten" if a and a.get("sha") == isha else "kept"))
            continue
        ctx.count("install:protected-differs")
        if _mask_sibling("/" + rel, cfg):
            ctx.count("install:mask-name-extension:%s" % _nmask_class(cfg))
        pend = model.pending_updates(before, rel)
        if pend:
            ctx.count("install:with-pending")
        problems, info = model.judge_incoming(rel, isha, before, after, res.get("merged"))
        if info["identical_pending"]:
            ctx.count("install:with-identical-pending")
        ctx.evaluated()
        ctx.nontrivial(json.dumps([mode, style, "in", sorted(pend), info["identical_pending"],
                                   cur["size"] == len(ent["d"].encode())]))
        if not problems:
            ctx.count("install:conform")
            conform["install"] += 1
            if ctx.want_sample():
                ctx.sample({"file": "/" + rel, "style": style, "pending_before": info["pending_before"],
                            "identical_pending": info["identical_pending"], "created": info["created"],
                            "kept": True})
        for rule, detail in problems:
            d = {"file": "/" + rel, "incoming_sha": isha[:12], "pending_before": info["pending_before"],
                 "identical_pending": info["identical_pending"], "created": info["created"],
                 "ignore_pattern_found_inside_path": _unanchored_hit("/" + rel, cfg.get("ignore", ()))}
            d.update({k: _brief(v) if isinstance(v, dict) and "type" in v else v for k, v in detail.items()})
            flag(rule, d)
    # ---- unmerge side ------------------------------------------------------------------------------------
    if mode in ("uninstall", "replace"):
        S = before if mode == "uninstall" else res["snaps"].get("post_merge")
        if S is None:
            ctx.skip_unspecified("no post_merge snapshot")
            S = {}
        for rel, ent in sorted(old.items()):
            if ent["t"] != "f" or rel in new:
                continue
            cur = S.get(rel)
            if cur is None or cur["type"] != "file":
                continue
            rsha = model.sha(ent["d"])
            if cur["sha"] == rsha:
                ctx.count("uninstall:unmodified")
                continue
            prot = model.protected("/" + rel, cfg, live_dirs, extras=False)
            if prot is None:
                ctx.skip_unspecified("protection of the path is not decided by the statement")
                continue
            if not prot:
                ctx.count("uninstall:unprotected-modified")
                continue
            ctx.count("uninstall:protected-modified")
            if _mask_sibling("/" + rel, cfg):
                ctx.count("uninstall:mask-name-extension:%s" % _nmask_class(cfg))
            ctx.evaluated()
            ctx.nontrivial(json.dumps([mode, style, "out", cur["size"] == len(ent["d"].encode())]))
            if model.ident(after.get(rel)) != model.ident(cur):
                pre = {x[0] for x in (res.get("csets", {}).get("uninstall_pre") or [])}
                flag("modified-protected-file-removed", {"file": "/" + rel, "recorded_sha": rsha[:12],
                                                         "before": _brief(cur), "after": _brief(after.get(rel)),
                                                         "still_in_remove_set_after_pre_unmerge": ("/" + rel) in pre})
            else:
                ctx.count("uninstall:conform")
                conform["uninstall"] += 1
    if not findings:
        ctx.count("scenarios_conform")
        return
    facts = {"style": style, "mode": mode, "suppressed": supp, "nonfile_over_existing_file": nonfile_over_file,
             "protected_files_kept_in_same_run": conform,
             "ignore_in_envd": bool(cfg.get("ignore")), "ignore_declared_list": bool(cfg.get("ignore_declared_list")),
             "ignore_dir_entries": [p for p in cfg.get("ignore", ())
                                    if not p.endswith("/*") and p.strip("/") in live_dirs]}
    for rule, files in sorted(findings.items()):
        # only the exceptions of the trigger responsible for this clause are evidence for it
        want = "ConfigProtectUninstall" if rule == "modified-protected-file-removed" else "ConfigProtectInstall"
        mine = [x for x in supp if x["trigger"].endswith(":" + want)]
        ctx.violation(rule, dict(facts, suppressed=mine, rule=rule, files=files[:40], nfiles=len(files), plan=plan))


def _mask_sibling(path, cfg):
    """coverage only: the path extends the *name* of a masked directory without lying under it."""
    import posixpath

    for m in cfg.get("mask", ()):
        m = posixpath.normpath(m).rstrip("/")
        if path.startswith(m) and not path.startswith(m + "/"):
            return True
    return False


def _nmask_class(cfg):
    n = len(set(cfg.get("mask", ())))
    return "1-mask" if n <= 1 else ("2-masks" if n == 2 else "3+-masks")


def _unanchored_hit(path, patterns):
    """classification evidence only: would the pattern match somewhere *inside* the path (re.search instead of a
    full match)?  The model itself uses anchored fnmatch."""
    import fnmatch
    import re

    for pat in patterns:
        if re.search(fnmatch.translate(pat), path) and not fnmatch.fnmatchcase(path, pat):
            return pat
    return None


def _brief(e):
    if e is None:
        return None
    d = {k: v for k, v in e.items() if k in ("type", "mode", "size", "target")}
    if "sha" in e:
        d["sha"] = e["sha"][:12]
    return d


def classify(w):
    rule = w.get("rule")
    supp = w.get("suppressed") or []
    files = w.get("files") or []
    if not files or w.get("nfiles") != len(files):
        return None
    lost = rule in ("protected-file-overwritten", "modified-protected-file-removed")
    if supp:
        # protection lost because a trigger died and the engine swallowed it: accept only the three recorded crashes,
        # each with the configuration that provokes it
        if not lost or len(supp) != 1:
            return None  # (one responsible trigger runs once per engine)
        exc, frames = supp[0].get("exception", ""), supp[0].get("frames") or []
        if "gen_collision_ignore_filter" in frames[-1:]:
            if exc == "AttributeError: 'str' object has no attribute 'extend'" and w.get("ignore_in_envd") \
                    and not w.get("ignore_declared_list"):
                return K_ENVD_STR
            if exc == "AttributeError: 'list' object has no attribute 'rstrip'" and w.get("ignore_dir_entries") \
                    and w.get("ignore_declared_list"):
                return K_DIR_ATTR
            return None
        if rule == "protected-file-overwritten" and exc.startswith("AttributeError: (symlink:") \
                and exc.endswith("'chksums')") and "simple_chksum_compare" in frames and w.get("nonfile_over_existing_file"):
            return K_NONFILE
        return None
    kept = w.get("protected_files_kept_in_same_run") or {}
    if w.get("style") == "nested":
        # wrong model: the CONFIG_PROTECT filter is matched against the offset-prefixed location => *nothing* is
        # protected in the whole run (a run that kept some protected file has a different problem)
        if rule == "protected-file-overwritten" and all(not f.get("created") for f in files) \
                and kept.get("install") == 0:
            return K_OFFSET
        if rule == "modified-protected-file-removed" and kept.get("uninstall") == 0:
            return K_OFFSET
        return None
    if rule == "modified-protected-file-removed" and w.get("mode") in ("uninstall", "replace"):
        # wrong model: "recorded" checksums are taken from the file on disk => never differs => always removed
        # (evidence: the trigger itself left the file in the remove set; a file it dropped and that is removed
        # anyway is a different mechanism)
        # and no modified protected file survived in the same run (the wrong model removes all of them)
        if kept.get("uninstall") == 0 and all(
                f.get("after") is None and f.get("still_in_remove_set_after_pre_unmerge") for f in files):
            return K_SELFCMP
        return None
    if rule == "protected-file-overwritten" and w.get("ignore_declared_list"):
        # wrong model: COLLISION_IGNORE globs are searched for anywhere in the path instead of matching the whole path
        if all(f.get("ignore_pattern_found_inside_path") and not f.get("created") for f in files):
            return K_UNANCHORED
        return None
    if rule == "identical-pending-not-reused":
        # wrong model: the pending update is never recognised => always max+1
        for f in files:
            pb, cr = f.get("pending_before") or [], f.get("created") or []
            if len(cr) != 1 or not pb or cr[0] != max(pb) + 1:
                return None
        return K_PENDING
    return None


def replay(ctx, w):
    judge(ctx, w.get("plan", w), tag="replay")


NMASK = [2, 3, None, 2, 1, 3, None, 0]  # 8 is coprime to the 11 combos: every (mode, style) meets every count


def run(ctx):
    W, scen, _ = _mods()
    try:
        g = scen.Gen(ctx.rng)
        n = ctx.budget(120, 1100)
        combos = [("install", "chroot", True), ("replace", "chroot", True), ("uninstall", "chroot", True),
                  ("install", "nested", None), ("install", "chroot", False), ("replace", "chroot", None),
                  ("replace", "nested", None), ("uninstall", "chroot", None), ("install", "chroot", True),
                  ("uninstall", "nested", None), ("replace", "chroot", False)]
        for i in range(n):
            mode, style, clean = combos[(i + ctx.shard) % len(combos)]
            judge(ctx, g.plan(mode, style, clean, NMASK[i % len(NMASK)]))
            if ctx.out_of_time(20):
                ctx.note("stopped early by the soft deadline after %d scenarios" % (i + 1))
                break
    finally:
        W.close_jail()
