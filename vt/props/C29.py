"""C29 Package database updates (vdb / binpkg install, replace, uninstall) are crash-consistent."""

import hashlib
import json
import os
import shutil
from os.path import join as pjoin

from ..gen import c29_scen as gen
from ..gen.c29_faultdriver import run_driver, run_injected
from ..ref import c29_judge as ref

ID = "C29"
LEVEL = "fault_enumeration"
TECHNIQUE = "fault enumeration over every filesystem operation (crash boundary states, EIO, torn writes) + fresh-view old-or-new oracle"
RULE = ("scenario = (repository kind, operation kind, hand-written packages before the operation, new package read by the real "
        "ebuild_built code from a hand-written source vdb); the real repo operation (operations.install/replace/uninstall, "
        "add_data(domain), finish()) runs under vt.fault, which numbers every mutating filesystem operation 1..N. Fault points: "
        "(a) EVERY crash boundary b=0..N (= crash-after(b) = crash-before(b+1)): the on-disk tree after operation b, recorded "
        "during the uninjected pass; (b) EIO at operation k with pkgcore's error handling running: every k (thorough), every k "
        "of the finalization + every third k of the hidden-temp-entry preparation (quick); (c) real dying processes (os._exit "
        "through vt.fault): torn writes (all write ops of the fixed scenarios / every sixth of the generated ones in thorough, one "
        "per scenario in quick) and crash-after / EIO runs whose resulting tree must equal the recorded one (else INCONCLUSIVE). "
        "After each fault a fresh repository object is built on the resulting tree, listed, and slot/use/deps/contents/"
        "environment/ebuild of every listed package are read, plus the hash of every file of a listed vdb entry; the result "
        "must equal the observation before the operation (old) or after the uninjected operation (new). One evaluation = one "
        "fault point judged. A case is NON-TRIVIAL when the tree at judgement time equals neither the pre-operation tree nor "
        "the completed tree (a genuinely intermediate state); distinct = (scenario, kind, k). Quick: 6 fixed vdb scenarios "
        "(2 install, 2 replace, 2 uninstall) + 7 binpkg-repository scenarios (install, replace same version [also with the new .tbz2 in the same mtime second as the old one] / new version / new revision, 2 uninstall; binpkg observation also reads the xpak of the file directly; "
        "tarball + xpak + Packages cache written by the real code); thorough: + 36 generated vdb scenarios (EAPI 5-8, slots, "
        "CONTENTS sizes, NEEDED files, missing optional metadata, siblings).")
ASSUMPTIONS = [
    "a crash is process death at a Python-level filesystem-operation boundary (or in the middle of one write); the kernel's "
    "view stays coherent (no power-loss reordering of un-fsynced data)",
    "eio = the operation fails with EIO, pkgcore's own error handling runs, then the process ends; judged like a crash point",
    "temp names the listing is documented to skip (.tmp.*, -MERGING-*, *.lockfile) may be left behind",
    "replace with a different version: a fresh view listing BOTH the complete old and the complete new version is accepted "
    "(no sequence of renames can avoid either 'both' or 'neither'; the statement only forbids partial and neither)",
    "COUNTER (wall clock) is compared by shape only; mtimes are not part of the observation",
    "package phases (pkg_*), livefs merging and the ebuild daemon are not part of the repository operation and are not run",
    "binpkg: the package handed to install/replace is the source package with contents = livefs scan of a build image (what "
    "pkgcore packs binpkgs from); old binpkgs carry an old mtime; the same-second rebuild (Packages cache cannot tell old from new by "
    "int(mtime)) is exercised by one scenario that puts the subject .tbz2 of every post-fault state into the old file's "
    "second with os.utime before the fresh view is built; bz2.BZ2File's file is made visible to vt.fault by re-binding "
    "bz2._builtin_open in the child",
]
SHARDS = {"quick": 4, "thorough": 16}
TIMEOUT = {"quick": 600, "thorough": 3000}  # generous: the sandbox is shared; normal wall is far below
MIN_EVALS = 800
REQUIRED_COUNTERS = ("fault_points_judged", "kind:crash-before", "kind:crash-after", "kind:torn", "kind:eio",
                     "intermediate_states", "state:old", "state:new", "vdb:install", "vdb:replace", "vdb:uninstall",
                     "binpkg:install", "binpkg:replace", "binpkg:uninstall", "recorded_state_rechecked:crash-after")


# ------------------------------------------------------------------------------------------------ harness

def _preimport():
    """Import everything in the parent so that the forked child only performs the operation itself."""
    import logging

    import pkgcore.binpkg.repository  # noqa: F401
    import pkgcore.vdb.ondisk  # noqa: F401
    from pkgcore import __title__
    from pkgcore.ebuild.atom import atom  # noqa: F401
    from pkgcore.operations import observer  # noqa: F401
    from pkgcore.test.misc import FakePkg  # noqa: F401
    from pkgcore.vdb import repo_ops
    from snakeoil.version import get_version

    logging.getLogger("pkgcore").setLevel(logging.CRITICAL)
    get_version(__title__, repo_ops.__file__)  # memoised: keeps three `git` subprocesses out of every child


class Scenario:
    """One scenario materialised on disk: template + work dir + reference observations."""

    def __init__(self, scen, base):
        self.scen = scen
        self.base = base
        self.template = pjoin(base, "template")
        self.work = pjoin(base, "work")
        self.repo = pjoin(self.work, "repo")
        self.snaps = pjoin(base, "snaps")
        self.kind = scen["repo"]
        self.old_cpv = scen["old"]
        self.new_cpv = gen.cpv(scen["new"]) if scen["new"] else None
        gen.build_template(self.template, scen)
        if self.kind == "binpkg":
            _pack_binpkg_template(self)
        self._observe = ref.observe_vdb if self.kind == "vdb" else ref.observe_binpkg

    def observe(self, repo):
        """Fresh view of `repo`.  For a same_second scenario the subject .tbz2 found there (old or new build) first
        gets an mtime inside the second of the replaced file (os.utime): the case of an immediate rebuild, made
        deterministic instead of depending on how fast the harness ran."""
        if self.kind == "binpkg" and self.scen.get("same_second"):
            for c in {self.old_cpv, self.new_cpv} - {None}:
                path = pjoin(repo, c + ".tbz2")
                if os.path.isfile(path):
                    os.utime(path, (gen.OLD_MTIME + 0.25, gen.OLD_MTIME + 0.25))
        return self._observe(repo)

    def restore(self):
        if os.path.exists(self.work):
            for sub in ("repo", "pmtmp"):
                shutil.rmtree(pjoin(self.work, sub), ignore_errors=True)
                shutil.copytree(pjoin(self.template, sub), pjoin(self.work, sub), symlinks=True)
        else:
            shutil.copytree(self.template, self.work, symlinks=True)

    def fn(self):
        return _make_fn(self.scen, self.work)

    @property
    def roots(self):
        return [self.work]

    def record(self, tag):
        shutil.copytree(self.repo, pjoin(self.snaps, tag), symlinks=True)

    def pre(self, want0=False):
        """Fresh work dir + the *old* reference observation."""
        self.restore()
        shutil.rmtree(self.snaps, ignore_errors=True)
        os.makedirs(self.snaps)
        self.old_obs = self.observe(self.repo)
        self.old_shape = shape(self.repo)
        self.ops, self.eio, self.new_obs, self.new_shape, self.out = [], {}, None, None, {}
        if want0:
            shutil.copytree(self.repo, pjoin(self.snaps, "0"), symlinks=True)

    def post(self, out):
        """Operation list, EIO outcomes and the *new* reference observation from the driver child's record."""
        self.out = out or {}
        self.ops = self.out.get("ops", [])
        self.eio = self.out.get("eio", {})
        final = pjoin(self.snaps, "final")
        if os.path.isdir(final):
            self.new_obs = self.observe(final)
            self.new_shape = shape(final)


import re  # noqa: E402

_PID_RE = re.compile(r"^\.tmp\.\d+\.")


def shape(repo):
    """Content of a repository tree (no mtimes; volatile files by name only)."""
    out = {}
    for dp, dns, fns in os.walk(repo):
        rel = os.path.relpath(dp, repo)
        out[rel] = "<dir>"
        for n in fns:
            p = pjoin(dp, n)
            r = pjoin(rel, _PID_RE.sub(".tmp.PID.", n))
            if n in ref.VOLATILE or n in ("Packages", ".update.Packages"):
                out[r] = "<volatile>"
            elif os.path.islink(p):
                out[r] = "-> " + os.readlink(p)
            else:
                with open(p, "rb") as f:
                    out[r] = hashlib.sha256(f.read()).hexdigest()[:12]
    return out


def _make_fn(scen, work):
    def fn():
        from pkgcore.ebuild.atom import atom
        from pkgcore.operations import observer as obs
        from pkgcore.test.misc import FakePkg

        installed = [FakePkg(c, slot=s, subslot=ss) for c, s, ss in scen["installed"]]

        class Installed:
            def itermatch(self, restrict, **kw):
                return [p for p in installed if restrict.match(p)]

        class Domain:  # what add_data(domain) uses: pm_tmpdir (NEEDED files) and all_installed_repos (':=' deps)
            pm_tmpdir = pjoin(work, "pmtmp")
            all_installed_repos = Installed()

        from pkgcore.vdb import ondisk

        if scen["repo"] == "vdb":
            dst = ondisk.tree(pjoin(work, "repo"), disable_cache=True)
        else:
            from pkgcore.binpkg import repository

            dst = repository.tree(pjoin(work, "repo"))
        o = obs.repo_observer(obs.null_output())
        new = old = None
        if scen["new"]:
            src = ondisk.tree(pjoin(work, "src"), disable_cache=True)
            new = src.match(atom("=" + gen.cpv(scen["new"])))[0]
            if scen["repo"] == "binpkg":
                new = _with_image_contents(new, pjoin(work, "image"))
        if scen["old"]:
            old = dst.match(atom("=" + scen["old"]))[0]
        if scen["op"] == "install":
            op = dst.operations.install(new, o)
        elif scen["op"] == "replace":
            op = dst.operations.replace(old, new, o)
        else:
            op = dst.operations.uninstall(old, o)
        if scen["repo"] == "vdb":
            if new is not None:
                op.add_data(Domain())
        return {"finish": bool(op.finish())}

    return fn


def _with_image_contents(pkg, image_root):
    """A binpkg is packed from the files of a build image: contents = livefs scan of image/<cat>/<pf>
    (a vdb CONTENTS entry has no mode/uid and no data to pack)."""
    from pkgcore.fs.livefs import scan
    from pkgcore.package.mutated import MutatedPkg

    img = pjoin(image_root, pkg.category, "%s-%s" % (pkg.package, pkg.fullver))
    return MutatedPkg(pkg, {"contents": scan(img, offset=img)})


def _pack_binpkg_template(sc):
    """Binpkg 'pre' packages: packed into template/repo by uninjected runs of the real install operation
    (set-up only; the packed files become the *old* state, which is observed, not assumed)."""
    from pkgcore.binpkg import repository
    from pkgcore.ebuild.atom import atom
    from pkgcore.operations import observer as obs
    from pkgcore.vdb import ondisk

    repo = pjoin(sc.template, "repo")
    stage = ondisk.tree(pjoin(sc.template, "stage"), disable_cache=True)
    dst = repository.tree(repo)
    o = obs.repo_observer(obs.null_output())
    for spec in sc.scen["pre"]:
        p = _with_image_contents(stage.match(atom("=" + gen.cpv(spec)))[0], pjoin(sc.template, "image"))
        dst.operations.install(p, o).finish()
        path = pjoin(repo, spec["cat"], spec["pf"] + ".tbz2")
        os.utime(path, (gen.OLD_MTIME, gen.OLD_MTIME))
    # rewrite the cache against the aged files through a fresh view (what any later run would do)
    fresh = repository.tree(repo)
    for p in fresh:
        p.description  # noqa: B018 - forces metadata load => cache refresh
    fresh.cache.commit()


# ------------------------------------------------------------------------------------------------ judgement

def _subject_summary(obs, cpvs):
    return {c: obs["pkgs"][c] for c in cpvs if c and c in obs["pkgs"]}


def _tmp_complete(sc, repo):
    """Is a complete copy of the new entry sitting under a hidden temp name? (witness detail for the classifier)"""
    if sc.kind != "vdb" or not sc.new_cpv or sc.new_cpv not in sc.new_obs["pkgs"]:
        return None
    cat, pf = sc.new_cpv.split("/", 1)
    d = pjoin(repo, cat, ".tmp." + pf)
    if not os.path.isdir(d):
        return None
    return ref._raw_dir(d) == sc.new_obs["pkgs"][sc.new_cpv]["files"]


def judge_state(ctx, sc, repo, mode, k, done, res=None, real=False):
    """Judge one fault point.  `repo` holds the post-fault tree; `done` = operations completed before the fault."""
    obs = sc.observe(repo)
    fails, label = ref.judge(obs, sc.old_obs, sc.new_obs, sc.old_cpv, sc.new_cpv)
    ctx.evaluated()
    ctx.count("fault_points_judged")
    ctx.count("kind:" + mode)
    ctx.count("%s:%s" % (sc.kind, sc.scen["op"]))
    if real:
        ctx.count("judged_after_real_process_death" if mode != "eio" else "judged_after_real_eio")
    shp = shape(repo)
    if shp != sc.old_shape and shp != sc.new_shape:
        ctx.count("intermediate_states")
        ctx.nontrivial("%s|%s|%d" % (sc.scen["name"], mode, k))
    if obs["hidden"]:
        ctx.count("hidden_temp_entries_left")
    if label:
        ctx.count("state:" + label)
    if mode == "eio" and res:
        ctx.count("eio_outcome:" + res.get("status", "?"))
    for rule, detail in fails:
        if rule == "partial-package" and sc.kind == "binpkg":
            # sub-mechanism for the report: the listed package's metadata is not what its own file says
            # (e.g. served from a stale Packages cache entry) -> a package mixed from two builds
            ent = obs["pkgs"].get(detail) or {}
            m, x = ent.get("meta", {}), ent.get("files", {})
            if x.get("xpak:DESCRIPTION") is not None and (
                    m.get("description") != x.get("xpak:DESCRIPTION")
                    or m.get("use") != sorted((x.get("xpak:USE") or "").split())):
                rule = "partial-package-metadata-not-from-its-file"
        w = {
            "rule": rule, "detail": detail, "scenario": sc.scen, "repo": sc.kind, "op": sc.scen["op"],
            "mode": mode, "k": k, "done": done, "nops": len(sc.ops),
            "next_op": sc.ops[done][1:] if done < len(sc.ops) else None,
            "ops": [[o[1], o[2]] for o in sc.ops],
            "status": (res or {}).get("status"), "exc": (res or {}).get("exc"),
            "old_cpv": sc.old_cpv, "new_cpv": sc.new_cpv,
            "observed_listing": sorted(obs["pkgs"]), "observed_subject": _subject_summary(obs, {sc.old_cpv, sc.new_cpv}),
            "hidden": obs["hidden"], "tmp_complete": _tmp_complete(sc, repo),
            "old_files": sc.old_obs["pkgs"].get(sc.old_cpv, {}).get("files") if sc.old_cpv else None,
            "expected": "fresh view lists the subject package exactly as before the operation or exactly as after the "
                        "completed operation",
        }
        ctx.violation("not-old-or-new", w)
    return fails, label


def finalization_start(ops):
    """Index of the first operation that touches a *visible* name of the repository (anything but the hidden
    temp entry being prepared and the repository mtime)."""
    for i, (k, name, detail) in enumerate(ops, 1):
        if name in ("utime", "subprocess", "spawn"):
            continue
        if "/.tmp." in detail.split(" ")[0] and name != "rename":
            continue
        return i
    return len(ops) + 1


def want_state_for(ctx):
    return lambda i, b: (b + i) % ctx.nshards == ctx.shard


def want_eio_for(ctx):
    """EIO fault points: every operation (thorough); quick: every operation of the finalization, every third one of the
    preparation of the hidden temp entry.  Dealt round-robin over the shards."""
    def want(i, k, ops):
        if (k + i) % ctx.nshards != ctx.shard:
            return False
        if not ctx.quick:
            return True
        return k >= finalization_start(ops) or k % 3 == 0
    return want


def fork_items(ctx, sc, fault):
    """(k, mode) pairs run as real dying processes: torn writes, and real os._exit / real EIO runs that re-check the
    states recorded by the driver child."""
    n = len(sc.ops)
    fin = finalization_start(sc.ops)
    writes = [k for k in range(1, n + 1) if fault.is_write_op(sc.ops[k - 1])]
    base = not sc.scen["name"].startswith("rand-")
    items = []
    if ctx.quick:
        torn = writes[len(writes) // 2: len(writes) // 2 + 1]
        real = [min(n, (fin + n) // 2)]
        real_eio = [min(n, (fin + n) // 2)] if sc.scen["op"] == "replace" else []
    else:
        torn = writes if base else writes[::6]
        real = [k for k in range(1, n + 1) if k % 20 == 0 or (k >= fin and (base or k % 5 == 0))]
        real_eio = [k for k in range(fin, n + 1) if (base and k % 2 == 0) or k % 8 == 0]
    items += [(k, "torn") for k in sorted(set(torn))]
    items += [(k, "crash-after") for k in real]
    items += [(k, "eio") for k in real_eio]
    return items


def judge_scenario(ctx, fault, sc, idx, counter, want):
    """Judge everything the driver child recorded for one scenario, then the forked fault points."""
    name = sc.scen["name"]
    out = sc.out
    if out.get("error") or not (out.get("ret") or {}).get("finish") or sc.new_obs is None:
        ctx.set_inconclusive("uninjected run of %s did not complete: %s" % (name, out.get("error") or out))
        return
    if out.get("audit_unnumbered"):
        ctx.set_inconclusive("%s: %d filesystem mutations were seen by the audit hook but not numbered by vt.fault" % (
            name, out["audit_unnumbered"]))
        return
    # the references must be usable: the completed operation is 'new', and old/new are distinguishable
    fails, label = ref.judge(sc.new_obs, sc.old_obs, sc.new_obs, sc.old_cpv, sc.new_cpv)
    ctx.evaluated()
    if fails or label not in ("new", "both"):
        ctx.violation("completed-operation-not-new", {"rule": "reference", "scenario": sc.scen, "fails": fails, "label": label})
        return
    if sc.old_obs["pkgs"].get(sc.old_cpv or "") == sc.new_obs["pkgs"].get(sc.new_cpv or ""):
        ctx.set_inconclusive("%s: old and new observation are indistinguishable" % name)
        return
    n = len(sc.ops)
    ctx.count("scenarios")
    ctx.count("ops_total", n)
    if ctx.want_sample():
        ctx.sample({"scenario": name, "op": sc.scen["op"], "nops": n, "first_ops": sc.ops[:4], "last_ops": sc.ops[-4:]})
    # (1) every crash boundary b = 0..n (b operations completed): crash-after(b) == crash-before(b+1)
    shapes = {}
    for b in range(0, n + 1):
        if not want(idx, b):
            continue
        d = pjoin(sc.snaps, str(b))
        if not os.path.isdir(d):
            ctx.set_inconclusive("%s: state after operation %d was not recorded" % (name, b))
            continue
        if b >= 1:
            judge_state(ctx, sc, d, "crash-after", b, b)
            if b < n:  # the same on-disk state named from the other side: counted, not judged twice
                ctx.count("kind:crash-before")
        else:
            judge_state(ctx, sc, d, "crash-before", 1, 0)
        shapes[b] = shape(d)
    # (2) EIO at operation k (pkgcore's error handling ran in the driver child)
    eio_shapes = {}
    for ks, rec in sorted(sc.eio.items(), key=lambda kv: int(kv[0])):
        k = int(ks)
        d = pjoin(sc.snaps, "eio-%d" % k)
        if not rec.get("injected") or not rec.get("same_prefix") or not os.path.isdir(d):
            ctx.count("eio_not_delivered")
            ctx.note("eio not delivered: %s k=%d %r" % (name, k, rec))
            continue
        if rec.get("audit_unnumbered"):
            ctx.set_inconclusive("%s eio k=%d: un-numbered mutation seen by audit hook" % (name, k))
            continue
        judge_state(ctx, sc, d, "eio", k, k - 1, rec)
        eio_shapes[k] = shape(d)
    # (3) real dying processes: torn writes + re-check of recorded states against real os._exit / EIO runs
    for k, mode in fork_items(ctx, sc, fault):
        counter[0] += 1
        if (k + idx) % ctx.nshards != ctx.shard:  # the shard that holds the recorded state of boundary / EIO point k
            continue
        if ctx.out_of_time(25):
            ctx.count("forked_fault_points_skipped_deadline")
            continue
        sc.restore()
        r = run_injected(fault, sc.fn(), mode, k, [sc.work])
        if r.get("audit_unnumbered"):
            ctx.set_inconclusive("%s k=%d: un-numbered mutation seen by audit hook" % (name, k))
            continue
        if not r.get("injected") or r["status"] in ("child-died", "harness-error"):
            ctx.count("fault_not_delivered:" + r.get("status", "?"))
            ctx.note("fault not delivered: %s k=%d %s -> %s %s" % (name, k, mode, r.get("status"), (r.get("tb") or "")[-200:]))
            continue
        done = k if mode == "crash-after" else k - 1
        judge_state(ctx, sc, sc.repo, mode, k, done, r, real=True)
        recorded = shapes.get(k) if mode == "crash-after" else eio_shapes.get(k) if mode == "eio" else None
        if recorded is not None:
            ctx.count("recorded_state_rechecked:" + mode)
            if shape(sc.repo) != recorded:
                ctx.set_inconclusive("%s: tree after a real %s at operation %d differs from the state recorded by the "
                                     "driver child" % (name, mode, k))
    shutil.rmtree(sc.snaps, ignore_errors=True)


def scenarios_for(ctx):
    import random

    scens = gen.base_scenarios()
    if not ctx.quick:
        rng = random.Random(2900 + ctx.seed)  # same list in every shard; the fault points are what is sharded
        scens += [gen.random_scenario(rng, i) for i in range(36)]
    scens += binpkg_scenarios(ctx)
    return scens


def binpkg_scenarios(ctx):
    return gen.binpkg_scenarios()


def run(ctx):
    from .. import fault

    _preimport()
    base = pjoin(os.environ["VT_SCRATCH"], "c29")
    os.makedirs(base, exist_ok=True)
    want = want_state_for(ctx)
    scs = []
    for i, scen in enumerate(scenarios_for(ctx)):
        sc = Scenario(scen, pjoin(base, "s%d" % i))
        sc.pre(want0=want(i, 0))
        scs.append((i, sc))
    res = run_driver(fault, scs, want, want_eio_for(ctx), timeout=max(120, int(ctx.time_left()) - 20))
    if res.get("status") != "done":
        ctx.set_inconclusive("driver child did not finish: %s %s" % (res.get("status"), res.get("exc") or res.get("tb") or ""))
        return
    outs = res.get("result") or {}
    counter = [0]
    for i, sc in scs:
        sc.post(outs.get(str(i)))
        judge_scenario(ctx, fault, sc, i, counter, want)
        shutil.rmtree(sc.base, ignore_errors=True)
    if ctx.counters.get("forked_fault_points_skipped_deadline"):
        ctx.note("soft deadline: %d torn-write / re-check runs were skipped (all crash boundaries and EIO points were "
                 "still enumerated)" % ctx.counters["forked_fault_points_skipped_deadline"])
    if ctx.counters.get("fault_not_delivered:child-died", 0) + ctx.counters.get("fault_not_delivered:harness-error", 0) > 5:
        ctx.set_inconclusive("too many fault runs without a result")


# ------------------------------------------------------------------------------------------------ known mechanisms

def _rmtree_window(w):
    """Indices (1-based) [first, rmdir, rename] of the in-place removal of the live old entry, from the witness' op list.

    first  = first op of the consecutive unlink/rmdir run that ends with `rmdir repo/<cat>/<old pf>`
    rmdir  = that rmdir
    rename = the following `rename ... repo/<cat>/<new pf>` (replace only, else None)
    """
    ops = w.get("ops") or []
    old = w.get("old_cpv")
    if not old:
        return None
    live = "repo/" + old
    rmdir = None
    for i, (name, detail) in enumerate(ops, 1):
        if name == "rmdir" and detail == live:
            rmdir = i
            break
    if rmdir is None:
        return None
    first = rmdir
    while first - 1 >= 1 and ops[first - 2][0] in ("unlink", "rmdir") and "/" not in ops[first - 2][1]:
        first -= 1
    rename = None
    if w.get("new_cpv"):
        tgt = "repo/" + w["new_cpv"]
        for i in range(rmdir + 1, len(ops) + 1):
            if ops[i - 1][0] == "rename" and ops[i - 1][1].endswith(" " + tgt):
                rename = i
                break
    return first, rmdir, rename


def _partially_deleted_old(w):
    old = w.get("old_cpv")
    subj = (w.get("observed_subject") or {}).get(old)
    of = w.get("old_files")
    if subj is None or not of:
        return False
    files = subj.get("files") or {}
    return len(files) < len(of) and all(of.get(n) == h for n, h in files.items())


def classify(w):
    if w.get("kind") != "not-old-or-new" or w.get("repo") != "vdb":
        return None
    win = _rmtree_window(w)
    if not win:
        return None
    first, rmdir, rename = win
    rule, done = w.get("rule"), w.get("done")
    if not isinstance(done, int):
        return None
    # done = number of operations completed when the process died / the operation failed
    if w.get("op") == "uninstall":
        # in-place shutil.rmtree of the live entry: entry listed while only some of its files are left
        if rule == "partial-package" and w.get("detail") == w.get("old_cpv") and first <= done < rmdir \
                and _partially_deleted_old(w):
            return "vdb-uninstall-partial"
        return None
    if w.get("op") == "replace" and rename:
        if rule == "partial-package" and w.get("detail") == w.get("old_cpv") and first <= done < rmdir \
                and _partially_deleted_old(w):
            return "vdb-rmtree-window"
        # old entry gone, new entry still under its .tmp. name
        if rule == "neither" and rmdir <= done < rename and w.get("tmp_complete") is True \
                and not w.get("observed_subject"):
            return "vdb-rmtree-window"
    return None


def replay(ctx, w):
    """Re-run one witness with a REAL injected fault (os._exit / EIO through vt.fault), judge it again."""
    from .. import fault

    _preimport()
    scen = w["scenario"]
    tag = hashlib.sha1(json.dumps(scen, sort_keys=True).encode()).hexdigest()[:10]
    base = pjoin(os.environ["VT_SCRATCH"], "c29-replay-" + tag)
    sc = Scenario(scen, base)
    sc.pre()
    res = run_driver(fault, [(0, sc)], lambda i, b: False, lambda i, k, ops: False)
    sc.post((res.get("result") or {}).get("0"))
    if res.get("status") != "done" or sc.new_obs is None or sc.out.get("error"):
        ctx.set_inconclusive("replay: uninjected run failed: %s %s" % (res.get("status"), sc.out.get("error") or res.get("exc")))
        return
    mode, k, done = w.get("mode", "crash-after"), w.get("k"), w.get("done")
    if w.get("pick"):
        # symbolic fault point (a pinned witness stays valid when unrelated operations are added before the window)
        win = _rmtree_window({"ops": [[o[1], o[2]] for o in sc.ops], "old_cpv": sc.old_cpv, "new_cpv": sc.new_cpv})
        if not win:
            ctx.note("replay: no in-place removal of the live entry in the operation list any more")
            shutil.rmtree(base, ignore_errors=True)
            return
        first, rmdir, rename = win
        mode = "crash-after"
        k = done = {"rmtree-middle": (first + rmdir) // 2, "after-rmdir": rmdir}[w["pick"]]
    if mode in ("crash-after", "crash-before"):
        if done == 0:
            mode, k = "crash-before", 1
        else:
            mode, k = "crash-after", done
    sc.restore()
    r = run_injected(fault, sc.fn(), mode, k, [sc.work])
    if r.get("injected"):
        judge_state(ctx, sc, sc.repo, mode, k, done, r, real=True)
    else:
        ctx.note("replay: fault not delivered (%s k=%s): %s" % (mode, k, r.get("status")))
    shutil.rmtree(base, ignore_errors=True)
