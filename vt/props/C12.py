"""C12 Incremental token expansion follows left-to-right incremental semantics."""

import itertools
import os

from ..ref import c12_incr as ref

ID = "C12"
LEVEL = "exploration"
RULE = (
    "token streams over {a,b,c,*,-a,-b,-c,-*,-} (plain) and {L1..L3,-L1..,*,-*,@g1,@g2,@nest,@deep,-@g1,-@nest,@missing,"
    "-@missing,-,-@,@} (license): every stream up to length 4 (quick) / 5 (thorough, plain) enumerated, plus random streams of "
    "length 0-12 with random prior sets; restrict->data tables (always/category/package/atom rows) for "
    "collapsed_restrict_to_data. Oracle: left-to-right fold written from the statement; a condensed token SET (output of "
    "optimize_incrementals, un-finalized incremental_expansion) applied negatives-first to 3 different prior sets must equal "
    "the fold of the original stream over the same prior. A stream is NON-TRIVIAL when it contains a negation or -* that "
    "follows a token it cancels (fold differs from the plain union of its positive tokens) or an incomplete negation; "
    "distinct = distinct (function family, stream, prior)."
)
ASSUMPTIONS = [
    "a condensed token set is consumed negatives (incl. -*) first, then positives -- the way pkgcore's consumers "
    "(split_negations + add_bare_global, `in features`) read it; its yield order is not judged",
    "for plain (non-license) streams '@x', '-@' and '@' are ordinary tokens: streams containing '@'/'-@' are not judged there",
    "an @group / -@group token naming an undefined group contributes nothing (statement silent; generated but expected to be a no-op)",
    "optimize_incrementals is lazy and stops at the right-most -*: a bare '-' to the LEFT of a -* is dead text; whether it "
    "must still be rejected is not stated -> counted as unspecified, not judged",
    "collapsed_restrict_to_data orders rows by specificity (always < repo/category/package < atom) by design; only tables "
    "whose row order already is that order (plus later always-rows made of negations only, which the class folds into the "
    "atom rows) are generated, so that 'left to right' is unambiguous",
    "license groups are flattened by the real repo_objs.Licenses from an on-disk license_groups file (acyclic nesting)",
]
SHARDS = {"quick": 4, "thorough": 16}
TIMEOUT = {"quick": 240, "thorough": 1800}
MIN_EVALS = 100000
REQUIRED_COUNTERS = ("plain_streams", "license_streams", "tables", "condensed_checks", "rejections_expected",
                     "rejections_observed")
TECHNIQUE = "contract monitoring of the real expansion functions against a left-to-right fold"

PLAIN = ["a", "b", "c", "*", "-a", "-b", "-c", "-*", "-"]
PLAIN_W = [4, 4, 3, 1, 4, 4, 3, 3, 1]
LIC = ["L1", "L2", "L3", "-L1", "-L2", "-L3", "*", "-*", "@g1", "@g2", "@nest", "@deep", "-@g1", "-@g2", "-@nest",
       "@missing", "-@missing", "-", "-@", "@"]
LIC_W = [4, 4, 3, 3, 3, 2, 2, 3, 3, 2, 2, 1, 3, 1, 2, 1, 1, 1, 1, 1]
RAW_GROUPS = {"g1": ["L1", "L2"], "g2": ["L3"], "nest": ["@g1", "L4"], "deep": ["@nest", "@g2", "L5"]}
ALL_LICENSES = ["L1", "L2", "L3", "L4", "L5", "L6"]
PRIORS = [[], ["a"], ["a", "b", "c", "*"], ["b", "z"]]


class Mon:
    def __init__(self, ctx):
        from pkgcore.ebuild import misc

        self.ctx = ctx
        self.misc = misc
        self.groups_real = None
        self.groups_flat = ref.flatten_groups(RAW_GROUPS)

    # -- real license group mapping from an on-disk file --------------------------------------------------------
    def license_groups(self):
        if self.groups_real is None:
            from pkgcore.ebuild.repo_objs import Licenses

            base = os.path.join(os.environ.get("VT_SCRATCH") or "/var/tmp", "c12_repo_%d" % os.getpid())
            os.makedirs(os.path.join(base, "profiles"), exist_ok=True)
            os.makedirs(os.path.join(base, "licenses"), exist_ok=True)
            with open(os.path.join(base, "profiles", "license_groups"), "w") as f:
                for k, v in RAW_GROUPS.items():
                    f.write("%s %s\n" % (k, " ".join(v)))
            for lic in ALL_LICENSES:
                with open(os.path.join(base, "licenses", lic), "w") as f:
                    f.write("text\n")

            class _Repo:
                location = base

            self.groups_real = Licenses(_Repo()).groups
            got = {k: set(v) for k, v in self.groups_real.items()}
            self.ctx.evaluated()
            if got != self.groups_flat:
                self.ctx.violation("license-groups-flattening", {"raw": RAW_GROUPS, "impl": {k: sorted(v) for k, v in got.items()},
                                                                 "expected": {k: sorted(v) for k, v in self.groups_flat.items()},
                                                                 "rule": "groups"})
        return self.groups_real

    # -- random license_groups files: nesting depth up to 4, lines in any order ----------------------------------
    def check_group_file(self, rng, serial):
        from pkgcore.ebuild import misc
        from pkgcore.ebuild.repo_objs import Licenses

        ngroups = rng.randrange(2, 7)
        names = ["G%d" % i for i in range(ngroups)]
        raw = {}
        for i, nm in enumerate(names):
            toks = [rng.choice(ALL_LICENSES) for _ in range(rng.randrange(0, 3))]
            # acyclic: a group may only reference groups with a higher index; chains get deep on purpose
            for j in range(i + 1, ngroups):
                if rng.random() < (0.75 if j == i + 1 else 0.2):
                    toks.append("@" + names[j])
            if rng.random() < 0.1:
                toks.append("@nosuchgroup")
            rng.shuffle(toks)
            if toks:
                raw[nm] = toks
        order = list(raw)
        rng.shuffle(order)
        if not order:
            return
        base = os.path.join(os.environ.get("VT_SCRATCH") or "/var/tmp", "c12_grp_%d_%d" % (os.getpid(), serial))
        os.makedirs(os.path.join(base, "profiles"), exist_ok=True)
        os.makedirs(os.path.join(base, "licenses"), exist_ok=True)
        with open(os.path.join(base, "profiles", "license_groups"), "w") as f:
            for k in order:
                f.write("%s %s\n" % (k, " ".join(raw[k])))
        for lic in ALL_LICENSES:
            with open(os.path.join(base, "licenses", lic), "w") as f:
                f.write("text\n")

        class _Repo:
            location = base

        want = ref.flatten_groups({k: raw[k] for k in order})
        depth = max((self._depth(raw, k) for k in raw), default=0)
        self.ctx.count("group_files")
        self.ctx.count("group_file_depth:%d" % depth)
        try:
            groups = Licenses(_Repo()).groups
            got = {k: set(v) for k, v in groups.items()}
        except Exception as e:  # noqa: BLE001
            got, groups = {"<exception>": {repr(e)}}, None
        self.ctx.evaluated()
        if depth >= 2:
            self.ctx.nontrivial(("groupfile", tuple((k, tuple(raw[k])) for k in order)))
        wit = {"file_lines": [[k] + raw[k] for k in order], "rule": "groups-depth-%d" % min(depth, 3)}
        bad = {k for k in want if want[k] != {t for t in got.get(k, ()) if not t.startswith("@")} or any(t.startswith("@") and t[1:] in raw for t in got.get(k, ()))}
        if bad:
            self.ctx.violation("license-groups-flattening", dict(wit, impl={k: sorted(got.get(k, ())) for k in sorted(bad)},
                                                                 expected={k: sorted(want[k]) for k in sorted(bad)}))
        elif groups is not None:
            # the flattened mapping feeds the real expansion: @G / -@G must add / remove the member licenses
            for _ in range(4):
                toks = [rng.choice(["@" + rng.choice(order), "-@" + rng.choice(order), rng.choice(ALL_LICENSES), "*", "-*"])
                        for _ in range(rng.randrange(1, 6))]
                st, res = self.call(misc.incremental_expansion_license, None, ALL_LICENSES, groups, toks)
                exp = ref.fold_license(toks, ALL_LICENSES, want) if hasattr(ref, "fold_license") else None
                if exp is not None and st == "ok":
                    self.ctx.evaluated()
                    if set(res) != set(exp):
                        self.ctx.violation("license-expansion-with-file-groups", dict(wit, tokens=toks, impl=sorted(res), expected=sorted(exp)))
        import shutil
        shutil.rmtree(base, ignore_errors=True)

    @staticmethod
    def _depth(raw, k, seen=()):
        refs = [t[1:] for t in raw.get(k, ()) if t.startswith("@") and t[1:] in raw and t[1:] not in seen]
        return 1 + max((Mon._depth(raw, r, seen + (k,)) for r in refs), default=0) if refs else 0

    # -- plain streams ---------------------------------------------------------------------------------------------
    def call(self, f, *a, **kw):
        try:
            return "ok", f(*a, **kw)
        except ValueError as e:
            return "reject", str(e)
        except Exception as e:  # noqa: BLE001
            return "crash", "%s: %s" % (type(e).__name__, e)

    def check_plain(self, toks, prior):
        ctx = self.ctx
        misc = self.misc
        toks = list(toks)
        ctx.count("plain_streams")
        bad = ref.first_incomplete(toks)
        nontriv = False
        if bad is None:
            exp = ref.fold(toks, prior)
            if exp != set(prior) | {t for t in toks if not t.startswith("-")}:
                nontriv = True
        else:
            exp = None
            nontriv = True
            ctx.count("rejections_expected")
        if nontriv:
            ctx.nontrivial("plain|" + " ".join(toks) + "|" + " ".join(prior))
        wit = {"family": "plain", "tokens": toks, "prior": list(prior)}

        def verdict(name, out, want):
            ctx.evaluated()
            if bad is not None:
                if out[0] != "reject":
                    ctx.violation("incomplete-negation-accepted", dict(wit, func=name, impl=_j(out), expected="ValueError",
                                                                       rule=name + ":not-rejected"))
                else:
                    ctx.count("rejections_observed")
                return False
            if out[0] != "ok":
                ctx.violation("valid-stream-refused", dict(wit, func=name, impl=_j(out), expected=sorted(want),
                                                           rule=name + ":" + out[0]))
                return False
            return True

        # 1. finalized expansion over a prior, and from nothing
        orig = set(prior)
        out = self.call(misc.incremental_expansion, iter(toks), orig=orig)
        if verdict("incremental_expansion", out, exp):
            if set(out[1]) != exp:
                ctx.violation("expansion-differs-from-fold", dict(wit, func="incremental_expansion", impl=sorted(out[1]),
                                                                  expected=sorted(exp), rule="finalize"))
        out = self.call(misc.incremental_expansion, tuple(toks))
        if verdict("incremental_expansion(orig=None)", out, None if bad is not None else ref.fold(toks)):
            if set(out[1]) != ref.fold(toks):
                ctx.violation("expansion-differs-from-fold", dict(wit, func="incremental_expansion(orig=None)",
                                                                  impl=sorted(out[1]), expected=sorted(ref.fold(toks)),
                                                                  rule="finalize-none"))
        # 2. un-finalized expansion = a condensed set
        out = self.call(misc.incremental_expansion, list(toks), orig=set(), finalize=False)
        if "*" in toks and bad is None:
            ctx.skip_unspecified("un-finalized expansion of a stream with a literal '*' token ('*' is not a USE flag; only USE is "
                                 "kept un-finalized)")
        elif verdict("incremental_expansion(finalize=False)", out, exp):
            self.check_condensed("incremental_expansion(finalize=False)", out[1], toks, wit)
        # 3. optimize_incrementals = a condensed set
        dead_dash = bad is not None and any(t == "-*" for t in toks[max(i for i, t in enumerate(toks) if t == "-") + 1:])
        out = self.call(lambda: list(misc.optimize_incrementals(toks)))
        if dead_dash:
            ctx.skip_unspecified("optimize_incrementals: bare '-' left of a -* (never visited by the right-to-left walk)")
        elif verdict("optimize_incrementals", out, exp):
            c = out[1]
            if len(c) != len(set(c)):
                ctx.violation("condensed-has-duplicates", dict(wit, func="optimize_incrementals", impl=list(c), rule="dups"))
            self.check_condensed("optimize_incrementals", c, toks, wit)

    def check_condensed(self, name, cset, toks, wit):
        ctx = self.ctx
        cset = set(cset)
        ctx.count("condensed_checks")
        ctx.evaluated()
        if not ref.condensed_is_consistent(cset):
            ctx.violation("condensed-set-ambiguous", dict(wit, func=name, impl=sorted(cset), rule=name + ":x-and--x"))
            return
        for p in PRIORS + [wit["prior"]]:
            want = ref.fold(toks, p)
            got = ref.apply_condensed(cset, p)
            ctx.evaluated()
            if got != want:
                ctx.violation("condensed-form-differs-from-fold", dict(wit, func=name, condensed=sorted(cset), over=list(p),
                                                                       impl=sorted(got), expected=sorted(want),
                                                                       rule=name + ":condensed"))
                break

    def check_chain(self, t1, t2):
        """un-finalized expansion continued over an un-finalized prior."""
        ctx = self.ctx
        misc = self.misc
        if ref.first_incomplete(t1 + t2) is not None or "*" in t1 or "*" in t2:
            return
        ctx.count("chained_unfinalized")
        wit = {"family": "plain-chain", "tokens": list(t1), "tokens2": list(t2), "prior": []}
        o1 = self.call(misc.incremental_expansion, list(t1), orig=set(), finalize=False)
        if o1[0] != "ok":
            return
        o2 = self.call(misc.incremental_expansion, list(t2), orig=set(o1[1]), finalize=False)
        ctx.evaluated()
        if o2[0] != "ok":
            ctx.violation("valid-stream-refused", dict(wit, func="chain", impl=_j(o2), rule="chain:" + o2[0]))
            return
        self.check_condensed("incremental_expansion(finalize=False) chained", o2[1], list(t1) + list(t2), wit)

    # -- license streams -------------------------------------------------------------------------------------------
    def check_license(self, toks, licenses, real_groups=True):
        ctx = self.ctx
        toks = list(toks)
        ctx.count("license_streams")
        groups = self.license_groups() if real_groups else {k: frozenset(v) for k, v in self.groups_flat.items()}
        bad = ref.first_incomplete(toks, license=True)
        wit = {"family": "license", "tokens": toks, "licenses": sorted(licenses), "groups": "real" if real_groups else "dict"}
        out = self.call(self.misc.incremental_expansion_license, "cat/pkg-1", frozenset(licenses), groups, iter(toks))
        ctx.evaluated()
        if bad is not None:
            ctx.count("rejections_expected")
            ctx.nontrivial("lic|" + " ".join(toks))
            if out[0] != "reject":
                ctx.violation("incomplete-negation-accepted", dict(wit, func="incremental_expansion_license", impl=_j(out),
                                                                   expected="ValueError", rule="license:not-rejected:" + toks[bad]))
            else:
                ctx.count("rejections_observed")
            return
        exp = ref.fold_license(toks, licenses, self.groups_flat)
        naive = set()
        for t in toks:
            if t == "*":
                naive |= set(licenses)
            elif t.startswith("@"):
                naive |= self.groups_flat.get(t[1:], set())
            elif not t.startswith("-"):
                naive.add(t)
        if exp != naive:
            ctx.nontrivial("lic|" + " ".join(toks) + "|" + " ".join(sorted(licenses)))
        if out[0] != "ok":
            ctx.violation("valid-stream-refused", dict(wit, func="incremental_expansion_license", impl=_j(out),
                                                       expected=sorted(exp), rule="license:" + out[0]))
        elif set(out[1]) != exp:
            ctx.violation("expansion-differs-from-fold", dict(wit, func="incremental_expansion_license", impl=sorted(out[1]),
                                                              expected=sorted(exp), rule="license"))

    # -- restrict -> data tables -------------------------------------------------------------------------------------
    def restr(self, spec):
        from pkgcore.ebuild.atom import atom
        from pkgcore.restrictions import packages, values

        if spec == "*":
            return packages.AlwaysTrue
        if spec == "!":
            return packages.AlwaysFalse
        if spec.startswith("cat:"):
            return packages.PackageRestriction("category", values.StrExactMatch(spec[4:]))
        if spec.startswith("pkg:"):
            return packages.PackageRestriction("package", values.StrExactMatch(spec[4:]))
        return atom(spec)

    def check_table(self, rows, pkgs, finalize_defaults, pre):
        """rows: [(spec, [tokens])] already in specificity order (see ASSUMPTIONS)."""
        from pkgcore.test.misc import FakePkg

        ctx = self.ctx
        ctx.count("tables")
        wit = {"family": "table", "rows": [[s, list(t)] for s, t in rows], "finalize_defaults": finalize_defaults,
               "pre_defaults": list(pre)}
        try:
            kw = {} if finalize_defaults is None else {"finalize_defaults": finalize_defaults}
            half = len(rows) // 2
            obj = self.misc.collapsed_restrict_to_data([(self.restr(s), tuple(t)) for s, t in rows[:half]],
                                                       iter([(self.restr(s), tuple(t)) for s, t in rows[half:]]), **kw)
        except Exception as e:  # noqa: BLE001
            ctx.evaluated()
            ctx.violation("table-construction-failed", dict(wit, impl="%s: %s" % (type(e).__name__, e), rule="table:ctor"))
            return
        always_toks = [t for sp, ts in rows if sp == "*" for t in ts]
        if pre and finalize_defaults is not False and any(t.startswith("-") for t in always_toks):
            # finalized defaults have already dropped their negations: how they interact with pre_defaults is not stated
            ctx.skip_unspecified("pre_defaults with finalized defaults that contained negations")
            return
        for cpv, slot in pkgs:
            stream = list(pre)
            for sp, t in rows:
                if _row_applies(sp, cpv, slot):
                    stream.extend(t)
            exp = ref.fold(stream)
            if exp != {t for t in stream if not t.startswith("-")}:
                ctx.nontrivial("table|" + repr(wit["rows"]) + cpv + repr(pre))
            p = FakePkg(cpv, slot=slot)
            w2 = dict(wit, pkg=[cpv, slot])
            out = self.call(obj.pull_data, p, pre_defaults=tuple(pre)) if pre else self.call(obj.pull_data, p)
            ctx.evaluated()
            ctx.count("table_reads")
            if out[0] != "ok":
                ctx.violation("valid-stream-refused", dict(w2, func="pull_data", impl=_j(out), expected=sorted(exp),
                                                           rule="table:" + out[0]))
            elif set(out[1]) != exp:
                ctx.violation("expansion-differs-from-fold", dict(w2, func="collapsed_restrict_to_data.pull_data",
                                                                  impl=sorted(out[1]), expected=sorted(exp), rule="table"))
            # the token stream the class hands out for the same package must fold to the same set
            out = self.call(lambda: list(obj.iter_pull_data(p, pre_defaults=tuple(pre)) if pre else obj.iter_pull_data(p)))
            ctx.evaluated()
            ctx.count("table_iter_reads")
            if out[0] != "ok":
                ctx.violation("valid-stream-refused", dict(w2, func="iter_pull_data", impl=_j(out), expected=sorted(exp),
                                                           rule="table-iter:" + out[0]))
            else:
                try:
                    got = ref.fold(out[1])
                except ref.Reject:
                    got = None
                if got != exp:
                    ctx.violation("expansion-differs-from-fold", dict(w2, func="collapsed_restrict_to_data.iter_pull_data",
                                                                      stream=list(out[1]), impl=sorted(got or ()),
                                                                      expected=sorted(exp), rule="table-iter"))


def _row_applies(spec, cpv, slot):
    cat, rest = cpv.split("/", 1)
    name, ver = rest.rsplit("-", 1)
    if spec == "*":
        return True
    if spec == "!":
        return False
    if spec.startswith("cat:"):
        return spec[4:] == cat
    if spec.startswith("pkg:"):
        return spec[4:] == name
    key = cat + "/" + name
    if spec.startswith("="):
        k, v = spec[1:].rsplit("-", 1)
        return k == key and v == ver
    if ":" in spec:
        k, s = spec.split(":", 1)
        return k == key and s == slot
    return spec == key


def _j(out):
    kind, val = out
    if kind == "ok":
        try:
            return {"ok": sorted(val)}
        except TypeError:
            return {"ok": repr(val)}
    return {kind: val}


TABLE_PKGS = [("c/p-1", "1"), ("c/p-2", "2"), ("c/q-1", "1"), ("d/p-1", "1"), ("d/z-1", "0")]
TOK = ["a", "b", "c", "-a", "-b", "-c", "-*"]


def gen_tokens(rng, lo=1, hi=3, neg_only=False):
    pool = [t for t in TOK if t.startswith("-")] if neg_only else TOK
    return [rng.choice(pool) for _ in range(rng.randint(lo, hi))]


def gen_table(rng):
    rows = []
    for _ in range(rng.randint(0, 3)):
        rows.append((rng.choice(["*", "*", "*", "!"]), gen_tokens(rng)))
    family = rng.random()
    if family < 0.5:
        # F1: strict specificity order
        for _ in range(rng.randint(0, 2)):
            rows.append((rng.choice(["cat:c", "cat:d"]), gen_tokens(rng)))
        for _ in range(rng.randint(0, 2)):
            rows.append((rng.choice(["pkg:p", "pkg:q"]), gen_tokens(rng)))
        for _ in range(rng.randint(0, 3)):
            rows.append((rng.choice(["c/p", "=c/p-1", "c/p:2", "c/q", "d/p", "=c/q-1"]), gen_tokens(rng)))
    else:
        # F2: always + atom rows interleaved; always-rows after the first atom row carry negations only
        seen_atom = False
        for _ in range(rng.randint(1, 5)):
            if rng.random() < 0.6:
                rows.append((rng.choice(["c/p", "=c/p-1", "c/p:2", "c/q", "d/p", "=c/q-1"]), gen_tokens(rng)))
                seen_atom = True
            else:
                rows.append(("*", gen_tokens(rng, neg_only=seen_atom)))
    return rows


def weighted(rng, alphabet, weights, n):
    return rng.choices(alphabet, weights=weights, k=n)


def run(ctx):
    mon = Mon(ctx)
    rng = ctx.rng
    # (a) exhaustive short streams, split over the shards
    maxlen = ctx.budget(4, 5)
    idx = 0
    for n in range(0, maxlen + 1):
        for toks in itertools.product(PLAIN, repeat=n):
            idx += 1
            if idx % ctx.nshards != ctx.shard:
                continue
            mon.check_plain(toks, PRIORS[idx // ctx.nshards % len(PRIORS)])
            ctx.count("exhaustive_plain")
        if ctx.out_of_time(60):
            ctx.note("exhaustive plain enumeration stopped at length %d" % n)
            break
    else:
        ctx.count("exhaustive_plain_complete")
    lic_len = ctx.budget(3, 4)
    idx = 0
    for n in range(0, lic_len + 1):
        for toks in itertools.product(LIC, repeat=n):
            idx += 1
            if idx % ctx.nshards != ctx.shard:
                continue
            mon.check_license(toks, ALL_LICENSES[: 1 + idx % 4], real_groups=(idx % 3 != 0))
            ctx.count("exhaustive_license")
        if ctx.out_of_time(60):
            break
    else:
        ctx.count("exhaustive_license_complete")
    # (a') random license_groups files with deep / unordered nesting
    for k in range(ctx.budget(120, 1500)):
        mon.check_group_file(rng, k)
    # (b) random longer streams
    for k in range(ctx.budget(25000, 200000)):
        n = rng.randint(0, 12)
        toks = weighted(rng, PLAIN, PLAIN_W, n)
        prior = sorted(rng.sample(["a", "b", "c", "*", "z"], rng.randint(0, 3)))
        mon.check_plain(toks, prior)
        if k < 2:
            ctx.sample({"plain_stream": toks, "prior": prior,
                        "fold": sorted(ref.fold(toks, prior)) if ref.first_incomplete(toks) is None else "reject"})
        if k % 3 == 0:
            cut = rng.randint(0, n)
            mon.check_chain(toks[:cut], toks[cut:])
        if k % 2 == 0:
            lt = weighted(rng, LIC, LIC_W, rng.randint(0, 12))
            lic = rng.sample(ALL_LICENSES, rng.randint(0, 4))
            mon.check_license(lt, lic, real_groups=rng.random() < 0.7)
            if k < 2:
                ctx.sample({"license_stream": lt, "licenses": lic})
        if k % 256 == 0 and ctx.out_of_time(40):
            break
    # (c) restrict -> data tables
    for k in range(ctx.budget(10000, 60000)):
        rows = gen_table(rng)
        fin = rng.choice([None, True, False, False])
        pre = [] if rng.random() < 0.5 else sorted(rng.sample(["a", "b", "c", "z"], rng.randint(1, 3)))
        mon.check_table(rows, TABLE_PKGS, fin, pre)
        if k < 1:
            ctx.sample({"table_rows": rows})
        if k % 256 == 0 and ctx.out_of_time(10):
            break


SET_ORDER = "unfinalized-defaults-consumed-in-set-order"


def classify(w):
    """One recorded mechanism: collapsed_restrict_to_data(finalize_defaults=False) keeps its defaults as an un-finalized token
    SET ({'-*', 'a', ...}) and pull_data/iter_pull_data feed that set, in hash order, to the order-sensitive
    incremental_expansion: every positive token iterated before '-*' is lost.  Recognised only when the wrong answer is
    exactly `pre + (some of the set's tokens) + '-*' + (the others) + specific rows`."""
    if w.get("family") != "table" or w.get("finalize_defaults") is not False or "pkg" not in w:
        return None
    if w.get("rule") not in ("table", "table-iter"):
        return None
    rows, (cpv, slot), pre = w["rows"], w["pkg"], list(w.get("pre_defaults") or [])
    always = [t for sp, ts in rows if sp == "*" for t in ts]
    if ref.first_incomplete(always) is not None:
        return None
    u = sorted(ref.condense(always))
    if "-*" not in u or len(u) < 2 or len(u) > 10:
        return None
    others = [t for t in u if t != "-*"]
    # what follows the defaults for this package: matching non-always rows in order, plus the negations of always-rows that
    # were added after the package's key got its first atom row (the class appends those to the key's list)
    key = cpv.rsplit("-", 1)[0]
    spec, key_seen = [], False
    for sp, ts in rows:
        if sp == "*":
            if key_seen:
                spec.extend(sorted({t for t in ts if t.startswith("-")}))
            continue
        if sp not in ("!",) and not sp.startswith(("cat:", "pkg:")):
            k = sp.lstrip("=").split(":", 1)[0]
            if sp.startswith("="):
                k = k.rsplit("-", 1)[0]
            if k == key:
                key_seen = True
        if _row_applies(sp, cpv, slot):
            spec.extend(ts)
    full = list(pre)
    for sp, ts in rows:
        if _row_applies(sp, cpv, slot):
            full.extend(ts)
    exp = ref.fold(full)
    impl = set(w.get("impl") or ())
    if impl == exp:
        return None
    for mask in range(1, 2 ** len(others)):
        before = [t for i, t in enumerate(others) if mask >> i & 1]
        after = [t for i, t in enumerate(others) if not mask >> i & 1]
        if w["rule"] == "table-iter":
            st = list(w.get("stream") or ())
            cand = pre + before + ["-*"] + after + spec
            if sorted(st[: len(pre) + len(u)]) == sorted(cand[: len(pre) + len(u)]) and sorted(st[len(pre) + len(u):]) == sorted(spec) \
                    and ref.fold(cand) == impl and _same_sides(st[len(pre):len(pre) + len(u)], before, after):
                return SET_ORDER
        elif ref.fold(pre + before + ["-*"] + after + spec) == impl:
            return SET_ORDER
    return None


def _same_sides(seg, before, after):
    if "-*" not in seg:
        return False
    i = seg.index("-*")
    return sorted(seg[:i]) == sorted(before) and sorted(seg[i + 1:]) == sorted(after)


def replay(ctx, w):
    mon = Mon(ctx)
    fam = w.get("family")
    if fam == "plain":
        mon.check_plain(w["tokens"], w["prior"])
    elif fam == "plain-chain":
        mon.check_chain(w["tokens"], w["tokens2"])
    elif fam == "license":
        mon.check_license(w["tokens"], w["licenses"], real_groups=(w.get("groups") == "real"))
    elif fam == "table":
        mon.check_table([(s, t) for s, t in w["rows"]], [tuple(w["pkg"])] if "pkg" in w else TABLE_PKGS,
                        w["finalize_defaults"], w.get("pre_defaults", []))
    elif "raw" in w:
        mon.license_groups()
