"""C18 Merging (pkgcore.fs.ops.merge_contents) places exactly the package contents on the live filesystem."""

import copy
import os
import shutil

from .. import fssnap
from ..gen import c18_trees as gen
from ..ref import c18_merge_model as ref

ID = "C18"
LEVEL = "exploration"
TECHNIQUE = "filesystem snapshot before/after the real merge_contents, judged by a path-resolution model"
RULE = ("random package images (files 0-200 KB, hard-link groups, symlinks to file/dir/dangling/absolute, fifos, char "
        "devices, nested dirs, odd names, random mode/uid/gid/mtime) are scanned with livefs.scan and merged by the real "
        "merge_contents into random pre-existing roots (same-type, different-type, symlinked directories relative/absolute, "
        "dangling symlinks, hard-linked neighbours, unrelated files, leftover '#new' siblings; with offset, offset with "
        "trailing slash, no offset, missing offset, directory entries left out of the set). One evaluation = one judged "
        "set entry, one hard-link group or one frame check (every path of the scenario directory outside the resolved "
        "set). A scenario is non-trivial when at least one entry lands on a pre-existing path, goes through a symlinked "
        "directory, or belongs to a hard-link group; distinct = distinct (entry types x pre-existing types x mode) shape.")
ASSUMPTIONS = [
    "expected type/data/target/mode/owner/mtime are read from the source image with vt.fssnap (lstat), not from pkgcore's scan",
    "mtime is compared with 1 us tolerance (the recorded mtime is a float)",
    "directory mtime is judged only for directories into which nothing was placed afterwards",
    "ownership/mtime of PRE-EXISTING directories and of a symlink standing in for a directory are not judged (statement: only their permissions)",
    "a symlink entry that meets an existing directory and is silently kept as directory (upstream-tested) is skipped as unspecified",
    "two set entries that resolve to the same physical path (aliasing through a symlinked directory) are not judged per entry",
    "merge failures (CannotOverwrite/FailedCopy/OSError) are outcomes when the reference predicts a clash; then only the frame is judged, '#new' siblings exempt",
    "same filesystem throughout (EXDEV split of hard-link groups not reachable)",
]
SHARDS = {"quick": 4, "thorough": 16}
TIMEOUT = {"quick": 240, "thorough": 1800}
MIN_EVALS = 4000
REQUIRED_COUNTERS = ("merges", "merge_ok", "entries_replaced", "entries_created", "hardlink_groups", "frame_checks",
                     "through_symlinked_dir")


FRAME_RULES = ("created-outside-set", "removed-outside-set", "changed-outside-set", "new-residue")
OUTCOME_RULES = ("unexpected-failure", "unexpected-exception-type", "return-value")


def _set_paths(scen):
    drop = set(scen.get("drop") or ())
    return [e["p"] for e in scen["src"] if e["p"] not in drop]


class BuildError(Exception):
    """The generator produced a scenario the materialiser cannot create (harness problem, never a verdict)."""


def execute(scen, W):
    """Materialise, merge with the real code, snapshot.  -> dict(before, after, outcome, exc, callbacks)"""
    from pkgcore.fs import contents, livefs, ops

    if os.path.lexists(W):
        shutil.rmtree(W)
    try:
        gen.build(scen, W)
    except OSError as e:
        raise BuildError(repr(e))
    before = fssnap.snap(W)
    src = os.path.join(W, "src")
    root = os.path.join(W, "root")
    drop = {"/" + p for p in (scen.get("drop") or ())}
    cset = livefs.scan(src, offset=src)
    if drop:
        cset = contents.contentsSet(x for x in cset if x.location not in drop)
    seen = []
    mode = scen.get("mode", "offset")
    old_umask = os.umask(0o022)
    exc = None
    ret = None
    try:
        if mode == "no-offset":
            cset2 = contents.contentsSet(contents.offset_rewriter(root, cset))
            ret = ops.merge_contents(cset2, callback=lambda o: seen.append(o.location))
        else:
            off = root + ("/" if mode == "offset-slash" else "")
            ret = ops.merge_contents(cset, offset=off, callback=lambda o: seen.append(o.location))
    except Exception as e:  # every failure is an outcome; judged below
        exc = e
    finally:
        os.umask(old_umask)
    after = fssnap.snap(W)
    return {"before": before, "after": after, "ret": ret, "exc": exc, "callbacks": seen, "nset": len(cset)}


def judge(scen, W, ex):
    """-> (violations [(rule, path, detail)], stats, plan)"""
    before, after = ex["before"], ex["after"]
    plan = ref.Plan(W, before, _set_paths(scen))
    out = []
    stats = {}
    if ex["exc"] is None:
        if ex["ret"] is not True:
            out.append(("return-value", "", {"ret": repr(ex["ret"])}))
        v, stats = ref.judge_success(plan, before, after)
        for (rule, p, det) in v:
            ent = [e for e in plan.entries if e[0] == p]
            if ent and ent[0][4] == "over-dir" and ent[0][1] == "link":
                stats["unspecified_link_over_dir"] = stats.get("unspecified_link_over_dir", 0) + 1
                continue
            out.append((rule, p, det))
        out.extend(ref.frame_violations(plan, before, after, new_siblings="no-residue"))
        # device numbers (fssnap has no rdev)
        for (p, t, L, P, st) in plan.entries:
            if t == "dev" and P in after and after[P]["type"] == "dev" and P not in plan.aliased:
                a = os.lstat(os.path.join(W, P)).st_rdev
                b = os.lstat(os.path.join(W, "src", p)).st_rdev
                if a != b:
                    out.append(("dev-rdev", p, {"src": b, "after": a}))
    else:
        e = ex["exc"]
        name = type(e).__name__
        stats["failed"] = 1
        if not plan.problems:
            out.append(("unexpected-failure", "", {"exc": repr(e)[:300], "exc_type": name}))
        elif not isinstance(e, (OSError, TypeError)):  # FailedCopy/CannotOverwrite derive from TypeError
            out.append(("unexpected-exception-type", "", {"exc": repr(e)[:300], "exc_type": name}))
        out.extend(ref.frame_violations(plan, before, after, new_siblings="ignore"))
    return out, stats, plan


def shape(scen, plan, before):
    s = []
    for (p, t, L, P, st) in plan.entries:
        b = before.get(P) if P else None
        s.append((t, b["type"] if b else "-", st, P != ("root/" + p)))
    return (scen.get("mode"), bool(scen.get("drop")), tuple(sorted(s)))


def run_one(ctx, scen, W, record=True, minimise=True):
    ex = execute(scen, W)
    viol, stats, plan = judge(scen, W, ex)
    before = ex["before"]
    ctx.count("merges")
    ctx.count("merge_ok" if ex["exc"] is None else "merge_failed:" + type(ex["exc"]).__name__)
    if ex["exc"] is not None and plan.problems:
        ctx.count("failure_predicted_by_reference")
    if ex["exc"] is None and plan.problems:
        ctx.count("success_although_reference_saw_a_possible_clash")
    ctx.count("callbacks", len(ex["callbacks"]))
    ctx.count("mode:" + scen.get("mode", "offset"))
    for t in scen.get("tags", ()):
        ctx.count("tag:" + t)
    ctx.count("entries_replaced", stats.get("replaced", 0))
    ctx.count("entries_created", stats.get("created", 0))
    ctx.count("preexisting_dirs_kept", stats.get("preexisting_dirs", 0))
    ctx.count("leaf_dir_mtime_checks", stats.get("leaf_dir_mtime", 0))
    ctx.count("hardlink_groups", stats.get("hardlink_groups", 0))
    ctx.count("entries_skipped_aliased", stats.get("skipped_aliased", 0))
    for _ in range(stats.get("unspecified_link_over_dir", 0)):
        ctx.skip_unspecified("symlink entry over an existing directory kept as a directory (upstream-tested behaviour)")
    for _ in range(stats.get("skipped_aliased", 0)):
        ctx.skip_unspecified("two set entries resolve to one physical path: winner unspecified")
    ctx.count("frame_checks")
    ctx.evaluated(stats.get("entries", 0) + stats.get("hardlink_groups", 0) + 1)
    through = sum(1 for (p, t, L, P, st) in plan.entries if P is not None and P != "root/" + p)
    ctx.count("through_symlinked_dir", through)
    if plan.residue:
        ctx.count("entries_with_leftover_new_sibling", len(plan.residue))
    if stats.get("replaced", 0) or through or stats.get("hardlink_groups", 0):
        ctx.nontrivial(repr(shape(scen, plan, before)))
    if not record:
        return viol, ex, plan
    groups = {}
    for (rule, p, det) in viol:
        groups.setdefault(rule, []).append((p, det))
    def mk(rule, p, det, scen_, ex_, plan_, n):
        return {"rule": rule, "path": p, "detail": det, "scen": scen_,
                "outcome": "ok" if ex_["exc"] is None else repr(ex_["exc"])[:200],
                "reference_problems": plan_.problems[:5], "n_paths_same_rule": n,
                "aliased": aliased_facts(plan_), "stale": stale_siblings(plan_, ex_["before"])}

    for rule, items in groups.items():
        p, det = items[0]
        w = mk(rule, p, det, scen, ex, plan, len(items))
        if minimise and ctx.counters.get("minimised", 0) < 6:
            ctx.count("minimised")
            m_scen = minimise_scenario(ctx, scen, W + ".min", rule)
            v2, ex2, plan2 = run_one(_Null(ctx), m_scen, W + ".min", record=False)
            hit = [(r, pp, d) for (r, pp, d) in v2 if r == rule]
            if hit:
                w_min = mk(rule, hit[0][1], hit[0][2], m_scen, ex2, plan2, len(hit))
                # a shrunk scenario must not turn a recognised mechanism into an unrecognised one (or vice versa)
                if classify(w_min) == classify(w):
                    w = w_min
            shutil.rmtree(W + ".min", ignore_errors=True)
        kind = "frame" if rule in FRAME_RULES else "outcome" if rule in OUTCOME_RULES else "entry"
        ctx.violation(kind, w)
    return viol, ex, plan


class _Null:
    """ctx stand-in for re-runs whose counts must not pollute the evidence."""

    def __init__(self, ctx):
        self.counters = {}
        self.rng = ctx.rng

    def __getattr__(self, name):
        return lambda *a, **k: None


def minimise_scenario(ctx, scen, W, rule, budget=80):
    """Greedy entry deletion keeping `rule` among the violations."""
    cur = copy.deepcopy(scen)
    null = _Null(ctx)

    def fires(s):
        try:
            v, _, _ = run_one(null, s, W, record=False)
        except Exception:
            return False
        return any(r == rule for (r, _, _) in v)

    tried = 0
    changed = True
    while changed and tried < budget:
        changed = False
        for key in ("pre", "src"):
            i = len(cur[key]) - 1
            while i >= 0 and tried < budget:
                e = cur[key][i]
                pref = e["p"] + "/"
                if key == "pre" and e["p"] in ("root", "outside", "outside/odir", "outside/ofile"):
                    i -= 1
                    continue
                cand = copy.deepcopy(cur)
                cand[key] = [x for x in cand[key] if x is not None and x["p"] != e["p"] and not x["p"].startswith(pref)]
                if key == "src":
                    if not cand["src"]:
                        i -= 1
                        continue
                    cand["drop"] = [d for d in cand.get("drop", ()) if any(x["p"] == d for x in cand["src"])]
                    # pre-existing counterparts of a removed entry stay (they become unrelated files)
                tried += 1
                if fires(cand):
                    cur = cand
                    changed = True
                    i = min(i, len(cur[key])) - 1
                else:
                    i -= 1
        if cur.get("mode") != "offset" and tried < budget:
            cand = dict(copy.deepcopy(cur), mode="offset")
            tried += 1
            if fires(cand):
                cur = cand
    cur["tags"] = ["minimised"] + list(scen.get("tags", ()))
    return cur


def aliased_facts(plan):
    """Physical locations claimed by more than one set entry: [{"phys", "set_paths", "types"}]."""
    out = []
    for P in sorted(plan.aliased):
        ents = [(p, t) for (p, t, L, P2, st) in plan.entries if P2 == P]
        out.append({"phys": P, "set_paths": [e[0] for e in ents], "types": [e[1] for e in ents]})
    return out


def stale_siblings(plan, before):
    """'<P>#new' paths that existed before the merge next to a pre-existing physical entry location."""
    out = []
    for (p, t, L, P, st) in plan.entries:
        if t == "dir" or P is None:
            continue
        b = before.get(P + "#new")
        if b is None or P not in before:
            continue
        d = {"sibling": P + "#new", "for_set_path": p, "for_type": t, "type": b["type"], "size": b.get("size"),
             "sha": b.get("sha"), "target": b.get("target"), "resolves_to": None}
        if b["type"] == "link":
            r, st2 = plan.resolve(P + "#new", follow_last=True, lenient=True)
            d["resolves_to"] = r if st2 == "ok" else None
            d["target_existed"] = bool(r is not None and r in before)
        out.append(d)
    return out


def run(ctx):
    base = os.environ.get("VT_SCRATCH") or "/var/tmp/c18-manual"
    os.makedirs(base, exist_ok=True)
    n = ctx.budget(300, 1500)
    # the scenario directory name is part of absolute symlink targets: keep it stable per shard
    W = os.path.join(base, "c18w")
    for i in range(n):
        scen = gen.gen_scenario(ctx.rng, big_ok=(i % 3 == 0) or not ctx.quick)
        try:
            viol, ex, plan = run_one(ctx, scen, W)
        except BuildError as e:
            ctx.count("scenario_build_failed")
            ctx.note("scenario could not be materialised: %s" % e)
            if ctx.counters["scenario_build_failed"] > max(3, n // 50):
                ctx.set_inconclusive("too many scenarios could not be materialised")
                break
            continue
        if ctx.want_sample() and i < 3:
            ctx.sample({"src": [(e["p"], e["t"]) for e in scen["src"]],
                        "pre": [(e["p"], e["t"]) for e in scen["pre"] if e["p"].startswith("root/")],
                        "mode": scen["mode"], "outcome": "ok" if ex["exc"] is None else repr(ex["exc"])[:80],
                        "violations": [v[0] for v in viol]})
        if i % 8 == 0 and ctx.out_of_time(20):
            ctx.note("stopped early by the soft deadline after %d scenarios" % i)
            break
    shutil.rmtree(W, ignore_errors=True)


def _sha16(b):
    import hashlib
    return hashlib.sha256(b).hexdigest()[:16]


def classify(w):
    """Known mechanisms (both: copyfile() creates '<path>#new' over whatever already has that name).

    stale-new-sibling-not-truncated      a regular file '<P>#new' left by an earlier interrupted merge is opened
                                         'rb+' (no truncation): the merged file = new data + tail of the stale file
    stale-new-sibling-symlink-followed   a symlink '<P>#new' is written through (its target receives data, mode and
                                         mtime) and is then renamed over P
    The predicate demands that the observed answer equals the answer of exactly that wrong model."""
    rule = w.get("rule")
    d = w.get("detail") or {}
    stale = w.get("stale") or []
    if w.get("outcome") != "ok" and rule not in FRAME_RULES:
        return None
    if isinstance(rule, str) and rule.startswith("file-"):
        scen = w.get("scen") or {}
        me = [e for e in scen.get("src", ()) if e["p"] == d.get("set_path") and e["t"] == "file"]
        after, src = d.get("after"), d.get("src")
        if len(me) != 1 or not after or not src:
            return None
        # the entry itself, or (hard-link group) any member of its group: the group shares one inode
        group = {e["p"] for e in scen["src"] if e["t"] == "file" and e.get("hl") is not None and e.get("hl") == me[0].get("hl")}
        group.add(me[0]["p"])
        cands = [x for x in stale if x["for_type"] == "file" and x["for_set_path"] in group]
        for s in cands:
            if s["type"] == "file" and after["type"] == "file" and set(d.get("bad") or ["x"]) <= {"size", "sha"} \
                    and after["size"] == s["size"] and s["size"] > src["size"]:
                # recompute the wrong model from the materialised scenario: new || stale[len(new):]
                old = [e for e in scen.get("pre", ()) if e["t"] == "file" and e["p"].endswith("#new") and e["size"] == s["size"]
                       and _sha16(gen.data_bytes(e["seed"], e["size"])) == (s.get("sha") or "")[:16]]
                if old:
                    nd = gen.data_bytes(me[0]["seed"], me[0]["size"])
                    od = gen.data_bytes(old[0]["seed"], old[0]["size"])
                    if _sha16(nd + od[len(nd):]) == after.get("sha", "")[:16]:
                        return "stale-new-sibling-not-truncated"
            if s["type"] == "link" and after["type"] == "link" and after.get("target") == s.get("target"):
                return "stale-new-sibling-symlink-followed"
        return None
    if rule == "new-residue" and w.get("outcome") == "ok":
        # do_link(): the target already IS a link to the new inode (two hard-linked set entries resolve to one
        # physical path through a symlinked directory); rename('<P>#new', P) of two links to one inode is a no-op
        q = str(w.get("path"))
        scen = w.get("scen") or {}
        after = d.get("after") or {}
        for a in w.get("aliased") or ():
            if a["phys"] + "#new" != q or set(a["types"]) != {"file"} or len(a["set_paths"]) < 2:
                continue
            ents = [e for e in scen.get("src", ()) if e["p"] in a["set_paths"] and e["t"] == "file"]
            hls = {e.get("hl") for e in ents}
            if len(ents) == len(a["set_paths"]) and len(hls) == 1 and None not in hls and after.get("type") == "file" \
                    and after.get("nlink", 0) >= 2 and after.get("size") == ents[0]["size"] \
                    and _sha16(gen.data_bytes(ents[0]["seed"], ents[0]["size"])) == after.get("sha", "")[:16]:
                return "aliased-hardlink-leaves-new-sibling"
        return None
    if rule == "changed-outside-set":
        q = w.get("path")
        for s in stale:
            if s["type"] == "link" and s["for_type"] == "file" and s.get("resolves_to") == q and s.get("target_existed") \
                    and set(d.get("fields") or ["x"]) <= {"size", "sha", "mode", "mtime_ns"} \
                    and (d.get("before") or {}).get("type") == "file" and (d.get("after") or {}).get("type") == "file":
                return "stale-new-sibling-symlink-followed"
    return None


def replay(ctx, w):
    base = os.environ.get("VT_SCRATCH") or "/var/tmp/c18-manual"
    os.makedirs(base, exist_ok=True)
    W = os.path.join(base, "c18replay")
    run_one(ctx, w["scen"], W, minimise=False)
    shutil.rmtree(W, ignore_errors=True)
