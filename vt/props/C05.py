"""C05 Atom intersection is symmetric, complete and witnessed (pkgcore.ebuild.atom.atom.intersects vs atom.match)."""

import random

from .. import core
from ..gen import c05_atoms as gen
from ..ref import pms_version as ref

ID = "C05"
LEVEL = "exploration"
TECHNIQUE = "runtime monitoring of atom.intersects against atom.match over a perturbation-closed witness universe"
RULE = ("ordered pairs of same-key atoms: every operator (<,<=,=,=*,>=,>,~, none) x every version of a pool (16 boundary "
        "versions + per-shard random neighbours), enumerated exhaustively (core pairs split over the shards), then random "
        "pairs decorated with slot/sub-slot/slot-operator/repository/USE-dep(with defaults)/blocker parts. Oracle per ordered "
        "pair: a.intersects(b) == b.intersects(a); a package of the witness universe matched by both (real atom.match) => "
        "intersects is True; intersects True => such a package exists (universe = all pool versions closed under 2 small "
        "edits x 72 slot/sub-slot/repo/IUSE/USE combinations, widened by random edit chains before an alarm). "
        "NON-TRIVIAL = both atoms carry an operator and are not ranges in the same direction, or both carry USE deps / "
        "slots / repositories; distinct = distinct ordered pair of atom strings.")
ASSUMPTIONS = [
    "matching is the implementation's own atom.match (the property relates intersects to match; match itself is C04)",
    "witness packages are attribute holders built by the real CPV parser; their USE set is a subset of their IUSE",
    "the witness universe is finite: every version within two small edits (append _alpha/_p/.0/.1/digits/letter, revision "
    "+-1 or digits appended, shorter prefix, next/previous number) of any pool version, plus random longer edit chains "
    "around the two endpoints before 'unwitnessed' is declared",
    "the search for a common package looks at version candidates and attribute candidates separately and verifies the "
    "combination with the real match of both full atoms (sound for 'incomplete'; for 'unwitnessed' it assumes match is a "
    "conjunction of a version part and an attribute part, and the first alarms of every shard are re-checked by brute force)",
    "conditional USE deps (x?, x=) and negate_vers atoms are outside the statement's quantifier and not generated",
]
SHARDS = {"quick": 4, "thorough": 16}
TIMEOUT = {"quick": 240, "thorough": 1800}
MIN_EVALS = 20000
REQUIRED_COUNTERS = ("intersects_calls", "match_calls", "pairs_core", "pairs_decorated", "answer:True", "answer:False",
                     "witness_found_for_true", "no_common_for_false")

DEFAULT_ATTR = {"slot": "0", "subslot": "0", "repo": "a", "iuse": [], "use": []}
BRUTE_LIMIT = 12


class _Repo:
    __slots__ = ("repo_id",)

    def __init__(self, repo_id):
        self.repo_id = repo_id


class _Pkg:
    """Attribute holder standing in for a package."""

    __slots__ = ("category", "package", "key", "version", "revision", "fullver", "cpvstr", "slot", "subslot", "use",
                 "iuse", "iuse_stripped", "repo", "_t")

    def __init__(self, c, key, fv, t):
        self.category, self.package, self.key = c.category, c.package, c.key
        self.version, self.revision, self.fullver, self.cpvstr = c.version, c.revision, c.fullver, c.cpvstr
        self.slot, self.subslot = t["slot"], t["subslot"]
        self.use = frozenset(t["use"])
        self.iuse = frozenset(t["iuse"])
        self.iuse_stripped = self.iuse
        self.repo = _Repo(t["repo"])
        self._t = t

    @property
    def desc(self):
        return dict(self._t, fullver=self.fullver, key=self.key)


class Session:
    """One pool of versions with its witness universe and match bitmasks (real atom.match on every entry)."""

    def __init__(self, ctx, pool, key="cat/pkg"):
        from pkgcore.ebuild import atom as atom_mod
        from pkgcore.ebuild import cpv as cpv_mod

        self.ctx = ctx
        self.atom_cls = atom_mod.atom
        self.cpv_mod = cpv_mod
        self.key = key
        self.pool = list(pool)
        u = set()
        for fv in self.pool:
            u |= gen.closure(fv, 2)
        self.U = sorted(u, key=lambda s: (len(s), s))
        self.T = gen.attr_universe()
        self._atoms = {}
        self._pkgs = {}
        self._cpvs = {}
        self._vmask = {}
        self._amask = {}
        self.brute_used = 0
        self._widened = {}
        self.full_v = (1 << len(self.U)) - 1
        self.full_t = (1 << len(self.T)) - 1

    # -- real objects ------------------------------------------------------------------
    def atom(self, spec):
        text = gen.render(spec)
        a = self._atoms.get(text)
        if a is None:
            a = self._atoms[text] = self.atom_cls(text)
        return a

    def pkg(self, fv, t, tkey=None):
        k = (fv, tkey if tkey is not None else repr(sorted(t.items())))
        p = self._pkgs.get(k)
        if p is None:
            c = self._cpvs.get(fv)
            if c is None:
                c = self._cpvs[fv] = self.cpv_mod.VersionedCPV("%s-%s" % (self.key, fv))
            p = _Pkg(c, self.key, fv, t)
            if len(self._pkgs) < 300000:
                self._pkgs[k] = p
        return p

    def match(self, a, p):
        self.ctx.count("match_calls")
        return bool(a.match(p))

    def vmask(self, spec):
        """Bitmask over U of the versions the version part of spec matches (default attributes)."""
        if not spec["op"]:
            return self.full_v
        k = (spec["op"], spec["ver"])
        m = self._vmask.get(k)
        if m is None:
            a = self.atom(gen.version_only(dict(spec, key=self.key)))
            m = 0
            for i, fv in enumerate(self.U):
                if self.match(a, self.pkg(fv, DEFAULT_ATTR, "d")):
                    m |= 1 << i
            self._vmask[k] = m
        return m

    def amask(self, spec, keep_use=True):
        """Bitmask over T of the attribute combinations the slot/repo/use part of spec matches (version 1)."""
        e = gen.extras_only(dict(spec, key=self.key), keep_use)
        k = gen.render(e)
        m = self._amask.get(k)
        if m is None:
            a = self.atom(e)
            m = 0
            for i, t in enumerate(self.T):
                if self.match(a, self.pkg("1", t, i)):
                    m |= 1 << i
            self._amask[k] = m
        return m

    # -- search ------------------------------------------------------------------------
    @staticmethod
    def _bits(m, rng, n):
        if not m:
            return []
        out = [(m & -m).bit_length() - 1, m.bit_length() - 1]
        k = 0
        while len(out) < n and k < 6:
            k += 1
            i = rng.randrange(m.bit_length())
            if m >> i & 1:
                out.append(i)
        seen = []
        for i in out:
            if i not in seen:
                seen.append(i)
        return seen

    def common(self, sa, sb, A, B, rng, thorough):
        """(package matched by both full atoms or None, common version or None, common attr index or None)."""
        vm = self.vmask(sa) & self.vmask(sb)
        tm = self.amask(sa) & self.amask(sb)
        vi = self._bits(vm, rng, 4)
        ti = self._bits(tm, rng, 3)
        cv = self.U[vi[0]] if vi else None
        ct = ti[0] if ti else None
        for i in vi:
            for j in ti:
                p = self.pkg(self.U[i], self.T[j], j)
                if self.match(A, p) and self.match(B, p):
                    return p, cv, ct
        if vi and ti:
            self.ctx.count("factorised_candidates_rejected_by_full_match")
        if not thorough:
            return None, cv, ct
        # widened search: longer random edit chains around the two endpoints (deterministic per version pair),
        # and -- for the first alarms of a shard / in replay -- every attribute combination
        vers = self.widened(sa["ver"], sb["ver"])
        brute = self.brute_used < BRUTE_LIMIT
        if brute:
            self.brute_used += 1
            self.ctx.count("brute_force_attr_searches")
            tidx = list(range(len(self.T)))
            if vi:
                vers = [self.U[i] for i in vi] + vers[:20]
            else:
                near = sorted(gen.closure(sa["ver"] or "1", 1) | gen.closure(sb["ver"] or "1", 1))
                vers = near + vers[:40]
        else:
            tidx = ti or [0]
            if vi:
                vers = [self.U[i] for i in vi] + vers[:60]
        self.ctx.count("widened_searches")
        for fv in vers:
            for j in tidx:
                p = self.pkg(fv, self.T[j], j)
                if self.match(A, p) and self.match(B, p):
                    self.ctx.count("witness_found_only_by_widening")
                    return p, cv, ct
        return None, cv, ct

    def widened(self, va, vb):
        k = tuple(sorted(v for v in (va, vb) if v))
        res = self._widened.get(k)
        if res is None:
            lrng = random.Random(core.h64(" ".join(k)))
            res = self._widened[k] = gen.widen(lrng, list(k), 200)
        return res


def nontrivial(sa, sb):
    if sa["op"] and sb["op"]:
        if not (("<" in sa["op"] and "<" in sb["op"]) or (">" in sa["op"] and ">" in sb["op"])):
            return True
    for k in ("use", "slot", "repo", "subslot"):
        if sa.get(k) and sb.get(k):
            return True
    return False


def judge(ctx, ses, sa, sb, rng):
    """All three clauses for the ordered pair (sa, sb)."""
    ta, tb = gen.render(sa), gen.render(sb)
    A, B = ses.atom(sa), ses.atom(sb)
    wit = {"a": ta, "b": tb, "a_spec": sa, "b_spec": sb}
    try:
        ctx.count("intersects_calls", 2)
        ab = A.intersects(B)
        ba = B.intersects(A)
    except Exception as e:
        ctx.evaluated()
        ctx.violation("intersects-raises", dict(wit, impl="%s: %s" % (type(e).__name__, e), rule="raises"))
        return
    if nontrivial(sa, sb):
        ctx.nontrivial(ta + " " + tb)
    ctx.count("answer:%s" % bool(ab))
    ctx.evaluated()
    if bool(ab) != bool(ba):
        ctx.violation("asymmetric", dict(wit, ab=bool(ab), ba=bool(ba), rule="asymmetric"))
    claimed = bool(ab) or bool(ba)
    p, cv, ct = ses.common(sa, sb, A, B, rng, thorough=False)
    if p is None and claimed:
        p, cv, ct = ses.common(sa, sb, A, B, rng, thorough=True)
    ctx.evaluated()
    if p is not None:
        if ab and ba:
            ctx.count("witness_found_for_true")
            return
        extra = _diagnose(ses, sa, sb, cv, ct)
        ctx.violation("incomplete", dict(wit, ab=bool(ab), ba=bool(ba), impl=False, expected=True, common=p.desc,
                                         rule="version" if not extra["ver_only_impl"] else "attributes", **extra))
        return
    if not claimed:
        ctx.count("no_common_for_false")
        return
    extra = _diagnose(ses, sa, sb, cv, ct)
    cause = ("version" if cv is None else "") + ("+" if cv is None and ct is None else "") + ("attributes" if ct is None else "")
    ctx.violation("unwitnessed", dict(wit, ab=bool(ab), ba=bool(ba), impl=True, expected=False, common=None,
                                      rule=cause or "combination", **extra))


def _diagnose(ses, sa, sb, cv, ct):
    """Facts about the two halves of the pair, recorded for classification."""
    va, vb = ses.atom(gen.version_only(sa)), ses.atom(gen.version_only(sb))
    ea, eb = ses.atom(gen.extras_only(sa)), ses.atom(gen.extras_only(sb))
    tm_nouse = ses.amask(sa, False) & ses.amask(sb, False)
    return {
        "ver_common": cv,
        "attr_common": ses.T[ct] if ct is not None else None,
        "attr_common_without_use": ses.T[(tm_nouse & -tm_nouse).bit_length() - 1] if tm_nouse else None,
        "ver_only_impl": bool(va.intersects(vb)) and bool(vb.intersects(va)),
        "attr_only_impl": bool(ea.intersects(eb)) and bool(eb.intersects(ea)),
    }


def run(ctx):
    rng = ctx.rng
    pool = gen.shard_pool(rng, ctx.budget(4, 10))
    ses = Session(ctx, pool)
    ctx.count("universe_versions", len(ses.U))
    specs = []
    for op in [""] + gen.OPS:
        for fv in (pool if op else [None]):
            s = gen.base_spec(op, fv)
            if gen.valid_spec(s):
                specs.append(s)
    core_set = set(gen.CORE)
    idx = 0
    # (a) every ordered pair of undecorated atoms; pairs inside the shared core are split over the shards,
    #     pairs touching this shard's own random versions are all done here
    for sa in specs:
        for sb in specs:
            idx += 1
            both_core = (sa["ver"] is None or sa["ver"] in core_set) and (sb["ver"] is None or sb["ver"] in core_set)
            if both_core and idx % ctx.nshards != ctx.shard:
                continue
            judge(ctx, ses, sa, sb, rng)
            ctx.count("pairs_core" if both_core else "pairs_random_neighbours")
            if ctx.want_sample() and idx % 1013 == 7:
                ctx.sample({"a": gen.render(sa), "b": gen.render(sb),
                            "intersects": bool(ses.atom(sa).intersects(ses.atom(sb)))})
        if ctx.out_of_time(40):
            ctx.note("pair enumeration stopped early by the soft deadline")
            break
    else:
        ctx.count("exhaustive_pool_pairs_complete")
    # (b) decorated pairs
    n = ctx.budget(6000, 60000)
    for k in range(n):
        sa = gen.decorate(rng, rng.choice(specs))
        sb = gen.decorate(rng, rng.choice(specs))
        if rng.random() < 0.5:
            # bias towards pairs whose version parts interact
            sb = gen.decorate(rng, gen.base_spec(rng.choice([""] + gen.OPS), sa["ver"] or rng.choice(pool)))
            if not gen.valid_spec(sb):
                continue
        if rng.random() < 0.02:
            sb = dict(sb, key="cat/other")
        judge(ctx, ses, sa, sb, rng)
        ctx.count("pairs_decorated")
        if k < 2:
            ctx.sample({"a": gen.render(sa), "b": gen.render(sb),
                        "intersects": bool(ses.atom(sa).intersects(ses.atom(sb)))})
        if k % 256 == 0 and ctx.out_of_time(15):
            ctx.note("decorated pairs stopped early by the soft deadline")
            break


# ---------------------------------------------------------------------------------------------------------
# classification of recorded mechanisms


def _pms_equal(fa, fb, drop_rev=False):
    va, ra = ref.split_fullver(fa)
    vb, rb = ref.split_fullver(fb)
    if drop_rev:
        ra = rb = ""
    return ref.ver_cmp(va, ra, vb, rb) == 0


def _version_mechanism_incomplete(sa, sb, common_fv):
    ops = (sa["op"], sb["op"])
    # (1) equal versions compared by spelling: '=' / '~' against '=*' or '~' (three code paths, one key each)
    if set(ops) in ({"=", "=*"}, {"~", "=*"}, {"~"}):
        name = {("=", "=*"): "eq-glob", ("=*", "~"): "tilde-glob", ("~", "~"): "tilde-tilde"}[tuple(sorted(ops))]
        for e in (sa, sb):
            if e["op"] in ("=", "~"):
                drop = e["op"] == "~"
                cv = ref.split_fullver(common_fv)[0] if drop else common_fv
                if _pms_equal(common_fv, e["ver"], drop_rev=drop) and cv != e["ver"]:
                    return name + "-compared-by-spelling"
        return None
    # (2) glob against a range: the shortcut `ranged.fullver.startswith(glob.version)` is False although the
    #     string-prefix glob reaches past the endpoint (=1* matches 10)
    if "=*" in ops:
        g, r = (sa, sb) if sa["op"] == "=*" else (sb, sa)
        if r["op"] in ("<", "<=", ">", ">=") and common_fv.startswith(g["ver"]) \
                and not r["ver"].startswith(ref.split_fullver(g["ver"])[0]):
            return "glob-range-incomplete"
    return None


def _version_mechanism_unwitnessed(sa, sb):
    ops = (sa["op"], sb["op"])
    # (3) <V-r(N+1) against >V-rN: each matches the other's endpoint but nothing lies strictly between
    if set(ops) == {"<", ">"}:
        lt, gt = (sa, sb) if sa["op"] == "<" else (sb, sa)
        vl, rl = ref.split_fullver(lt["ver"])
        vg, rg = ref.split_fullver(gt["ver"])
        if ref.ver_cmp(vl, "", vg, "") == 0 and int(rl or "0") == int(rg or "0") + 1:
            return "unwitnessed-adjacent-revisions"
        return None
    # (4) glob with a revision against >, >= or ~: the revision of the glob is ignored by the shortcut
    if "=*" in ops:
        g, o = (sa, sb) if sa["op"] == "=*" else (sb, sa)
        gv_, gr = ref.split_fullver(g["ver"])
        if "-r" in g["ver"] and o["op"] in (">", ">=", "~") and o["ver"].startswith(gv_):
            return "unwitnessed-revision-glob"
    return None


def _use_mechanism(sa, sb):
    """(5) one side enables a flag, the other disables it, but the tokens carry different (+)/(-) defaults, so the
    textual comparison of the tokens does not see the conflict."""
    ua, ub = gen.parse_use(sa.get("use")), gen.parse_use(sb.get("use"))
    for f in set(ua) & set(ub):
        (ea, da), (eb, db) = ua[f], ub[f]
        if ea != eb and da != db:
            on_default = da if ea else db
            off_default = db if ea else da
            if not (on_default == "+" and off_default != "+"):  # that pair is satisfied by a package without the flag
                return "use-default-hides-conflict"
    return None


def classify(w):
    sa, sb = w.get("a_spec"), w.get("b_spec")
    if not sa or not sb or sa.get("key") != sb.get("key"):
        return None
    kind = w.get("kind")
    if w.get("ab") != w.get("ba"):
        return None
    if kind == "incomplete":
        if w.get("ver_only_impl") is not False or not w.get("common"):
            return None  # the version logic is not what said "disjoint"
        return _version_mechanism_incomplete(sa, sb, w["common"]["fullver"])
    if kind == "unwitnessed":
        keys = []
        if w.get("ver_common") is None:
            if not w.get("ver_only_impl"):
                return None
            k = _version_mechanism_unwitnessed(sa, sb)
            if k is None:
                return None
            keys.append(k)
        if w.get("attr_common") is None:
            if not w.get("attr_only_impl") or w.get("attr_common_without_use") is None:
                return None
            k = _use_mechanism(sa, sb)
            if k is None:
                return None
            keys.append(k)
        return keys[0] if keys else None
    return None


def replay(ctx, w):
    sa, sb = w["a_spec"], w["b_spec"]
    pool = sorted({s["ver"] for s in (sa, sb) if s.get("ver")}) or ["1"]
    ses = Session(ctx, pool, key=sa["key"])
    judge(ctx, ses, sa, sb, random.Random(1))
    judge(ctx, ses, sb, sa, random.Random(1))
