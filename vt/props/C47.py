"""C47 Tarball sync replaces a repository atomically and recovers from interruption (fault enumeration).

The real `pkgcore.sync.tar.tar_syncer` syncs from a loopback HTTP server (own process, stateless: the URL selects
blob, ETag and misbehaviour) inside a forked child under vt.fault.  Every numbered mutating operation of the sync
(temp download file, staging directories, the `tar` subprocess as one opaque operation, the renames, the
`.etag`/`.modified` writes and the syncer's own at-exit cleanup) is a crash / I/O-error point.  After every run the
parent inspects the repository directory with fresh eyes (fssnap) and then runs the *next* sync in another fresh
process.  Expected trees come from the tree specs the tarballs were built from (vt/ref/c47_model.py).
"""

import os
import re
import shutil
import signal
import socket
import sys
import time

from ..gen import c47_scen as gen
from ..ref import c47_model as ref

ID = "C47"
LEVEL = "fault_enumeration"
TECHNIQUE = "crash/EIO injection at every mutating operation of a real sync + old-or-new tree oracle + follow-up sync"
RULE = ("scenarios = (previous tree | none) x tarball generation (gz/bz2/xz; served good, truncated, corrupt, as an HTML page, "
        "empty, short body, 404/500, 304/same ETag); for crash scenarios every numbered mutating operation k of the sync "
        "(download temp file, staging dirs, tar subprocess, the two renames, .etag/.modified, at-exit cleanup) x "
        "{crash-before, crash-after, torn (writes only), eio}; after each run: repository directory == complete previous tree "
        "or complete new tree (spec the tarball was built from), failed download/unpack => lstat snapshot unchanged; then the next "
        "sync in a fresh process must return success and leave the complete new tree (and when it had nothing to do, a later sync "
        "to a newer tarball must); wherever the fault left staging dirs behind or neither tree at the repository path (thorough: "
        "after every fault) a next sync that FAILS without crashing (404 / truncated / corrupt, rotated) comes first: afterwards "
        "the repository must be the complete previous or new tree (a complete tree the fault left must be untouched), then the "
        "good sync must complete; crash-before points and neither-old-nor-new states also keep the good sync straight after the fault.  A case is non-trivial when the injected fault actually fired (or, for failure scenarios, the "
        "sync really failed / was really short-circuited); distinct = (scenario, kind, operation name+path, occurrence).")
ASSUMPTIONS = [
    "crash = death of the syncing process (os._exit at a Python-level mutation point); no power-loss reordering; the tar "
    "subprocess is one opaque operation (a crash right after spawning it lets tar finish before the directory is inspected)",
    "the syncer's atexit handlers are part of the sync: they run (and are crash points) when the process ends normally or "
    "with an error, they do not run after a crash",
    "tarballs have exactly one top-level directory (what --strip-components=1 assumes); damaged tarballs are damaged in "
    "the compressed stream so that tar can notice",
    "'the tree' for old-or-new = names, types, modes, file contents, link targets below the repository path, without the "
    "syncer's own .etag/.modified; leftover .name.update/.name.old siblings and temp files are only counted",
    "with no previous tree, a missing or empty repository directory counts as 'the previous tree'",
    "after a fault that left neither tree at the repository path (recorded finding rename-window) a following FAILED sync is "
    "still required to end with the complete previous or new tree there: 'a failed download or unpack leaves the previous tree "
    "untouched' is read as 'does not destroy the only remaining copies'",
    "tempfile.NamedTemporaryFile's opener raises two audit 'open' events for one numbered operation: an audit surplus equal to "
    "the clean run's is accepted",
]
SHARDS = {"quick": 4, "thorough": 16}
TIMEOUT = {"quick": 240, "thorough": 1800}
MIN_EVALS = 40
REQUIRED_COUNTERS = ("clean_syncs_judged", "fault_runs_fired", "next_syncs_run", "failing_next_syncs_run", "histories")

REPO = "name"
RUN_TIMEOUT = 90


# ------------------------------------------------------------------------------------------------------------------
# loopback server (own process; stateless)

def _serve(sock, srvdir, parent):
    import http.server
    import threading

    def watchdog():
        while True:
            time.sleep(1.0)
            if os.getppid() != parent:
                os._exit(0)

    threading.Thread(target=watchdog, daemon=True).start()

    class H(http.server.BaseHTTPRequestHandler):
        def log_message(self, *a):
            pass

        def do_GET(self):
            # /<behaviour>/<etag>/<lmN>/<blob>
            #   or /ctl/<control file>/lm0/<any name>: the control file (JSON, rewritten by the client between the syncs
            #   of one syncer object, whose URI is fixed) names behaviour, etag, lm and blob
            try:
                _, behaviour, etag, lm, blob = self.path.split("/", 4)
                if behaviour == "ctl":
                    import json
                    with open(os.path.join(srvdir, os.path.basename(etag))) as f:
                        c = json.load(f)
                    behaviour, etag, lm, blob = c["behaviour"], c["etag"], "lm%d" % c.get("lm", 0), c["blob"]
                with open(os.path.join(srvdir, os.path.basename(blob)), "rb") as f:
                    data = f.read()
            except (ValueError, OSError, KeyError):
                self.send_error(404)
                return
            if behaviour in ("404", "500"):
                self.send_error(int(behaviour))
                return
            etag_h = '"%s"' % etag
            lm_h = None if lm == "lm0" else "Mon, 0%s Jan 2024 00:00:00 GMT" % lm[2:]
            if behaviour == "ok":
                inm = self.headers.get("If-None-Match")
                ims = self.headers.get("If-Modified-Since")
                if (inm is not None and inm.strip() == etag_h) or (lm_h is not None and ims is not None and ims.strip() == lm_h):
                    self.send_response(304)
                    self.send_header("ETag", etag_h)
                    self.end_headers()
                    return
            self.send_response(200)
            self.send_header("Content-Type", "application/octet-stream")
            if behaviour not in ("nolen", "short-nolen"):
                self.send_header("Content-Length", str(len(data)))
            self.send_header("ETag", etag_h)
            if lm_h:
                self.send_header("Last-Modified", lm_h)
            self.end_headers()
            if behaviour in ("short", "short-nolen"):
                data = data[: len(data) // 2]
            self.wfile.write(data)

    class S(http.server.HTTPServer):
        def handle_error(self, request, client_address):
            pass

    srv = S(("127.0.0.1", 0), H, bind_and_activate=False)
    srv.socket.close()
    srv.socket = sock
    srv.serve_forever(poll_interval=0.2)


class Server:
    def __init__(self, srvdir):
        os.makedirs(srvdir, exist_ok=True)
        self.srvdir = srvdir
        sock = socket.socket(socket.AF_INET, socket.SOCK_STREAM)
        sock.setsockopt(socket.SOL_SOCKET, socket.SO_REUSEADDR, 1)
        sock.bind(("127.0.0.1", 0))
        sock.listen(32)
        self.port = sock.getsockname()[1]
        parent = os.getpid()
        sys.stdout.flush()
        sys.stderr.flush()
        self.pid = os.fork()
        if self.pid == 0:
            try:
                signal.signal(signal.SIGTERM, signal.SIG_DFL)
                _serve(sock, srvdir, parent)
            finally:
                os._exit(0)
        sock.close()

    def put(self, name, data):
        with open(os.path.join(self.srvdir, name), "wb") as f:
            f.write(data)

    def uri(self, behaviour, etag, lm, blob):
        return "tar+http://127.0.0.1:%d/%s/%s/lm%d/%s" % (self.port, behaviour, etag, lm, blob)

    def stop(self):
        if self.pid:
            try:
                os.kill(self.pid, signal.SIGKILL)
                os.waitpid(self.pid, 0)
            except OSError:
                pass
            self.pid = 0


# ------------------------------------------------------------------------------------------------------------------
# the code under test, as run inside the forked child

def sync_fn(basedir, uri, tmpdir):
    def fn():
        import atexit
        import io
        import tempfile

        atexit._clear()  # handlers inherited from the worker never run in this child; the syncer's own will
        tempfile.tempdir = tmpdir
        try:  # the temp file's unlink-on-close is bound to the un-interposed os.unlink at import time
            c = tempfile._TemporaryFileCloser.cleanup
            c.__defaults__ = tuple(os.unlink if getattr(d, "__name__", "") == "unlink" else d for d in c.__defaults__)
        except Exception:
            pass
        sys.stdout = io.StringIO()  # progress bar
        sys.stderr = io.StringIO()  # "Exception ignored in atexit callback" when a cleanup step gets the injected error
        sys.unraisablehook = lambda *a: None
        out = {"ret": None, "exc_type": None, "exc": None}
        try:
            try:
                from pkgcore.sync.tar import tar_syncer
                s = tar_syncer(basedir, uri)
                r = s.sync()
                out["ret"] = r if isinstance(r, (bool, int, type(None))) else repr(r)
            except Exception as e:
                out["exc_type"] = type(e).__name__
                out["exc"] = str(e)[:400]
                import pkgcore.sync.base as b
                out["is_sync_error"] = isinstance(e, b.SyncError)
        finally:
            atexit._run_exitfuncs()  # process end: the syncer's cleanup of its temp file and staging dirs
        return out

    return fn


def _wait_tar(work, limit=30.0):
    """A crash right after spawning tar leaves tar running: let it finish before looking."""
    key = work.encode()
    t0 = time.monotonic()
    while time.monotonic() - t0 < limit:
        busy = False
        for p in os.listdir("/proc"):
            if not p.isdigit():
                continue
            try:
                with open("/proc/%s/cmdline" % p, "rb") as f:
                    cl = f.read()
            except OSError:
                continue
            if key in cl and b"--extract" in cl and b"--strip-components" in cl:
                busy = True
                break
        if not busy:
            return True
        time.sleep(0.05)
    return False


_TMPNAME = re.compile(r"tmp[a-z0-9_]{8}")


def norm_op(op, work=""):
    name, detail = op[1], str(op[2])
    if work:
        detail = detail.replace(work + "/", "").replace(work, "")
    detail = _TMPNAME.sub("tmp*", detail)
    detail = re.sub(r"/(?= |$)", "", detail)  # repos/name/ == repos/name
    detail = re.sub(r" \d+B?$", " n", detail)
    return [name, detail]


def locate(ops, op, occ, work=""):
    """Index (1-based) of the occ-th operation equal to `op` after normalisation, or None."""
    seen = 0
    for o in ops:
        if norm_op(o, work) == list(op):
            if seen == occ:
                return o[0]
            seen += 1
    return None


def occurrence(ops, k, work=""):
    me = norm_op(ops[k - 1], work)
    return sum(1 for o in ops[: k - 1] if norm_op(o, work) == me)


# ------------------------------------------------------------------------------------------------------------------

class Env:
    """Scratch layout of one scenario: srv/ blobs, tpl/ (repos/ + tmp/) template, work/ the directory a run uses."""

    def __init__(self, ctx, server, sc, tag):
        from .. import fault, fssnap

        self.ctx, self.server, self.sc, self.fault, self.fssnap = ctx, server, sc, fault, fssnap
        scratch = os.environ.get("VT_SCRATCH") or "/var/tmp"
        self.root = os.path.join(scratch, "c47_%s" % tag)
        shutil.rmtree(self.root, ignore_errors=True)
        self.tpl = os.path.join(self.root, "tpl")
        self.work = os.path.join(self.root, "work")
        self.save = os.path.join(self.root, "save")
        os.makedirs(os.path.join(self.tpl, "repos"))
        os.makedirs(os.path.join(self.tpl, "tmp"))
        self.basedir = os.path.join(self.work, "repos", REPO)
        self.tmpdir = os.path.join(self.work, "tmp")
        comp = sc["comp"]
        n = re.sub(r"[^A-Za-z0-9_.-]", "_", sc["name"])
        self.blob = {g: "%s-%s.tar.%s" % (n, g, comp) for g in ("old", "new", "good", "later", "truncated", "corrupt")}
        serve = sc["serve"]
        if sc.get("old") is not None:
            server.put(self.blob["old"], gen.blob_for(sc["old"], comp))
        server.put(self.blob["new"], gen.blob_for(sc["new"], comp, serve.get("damage")))
        server.put(self.blob["good"], gen.blob_for(sc["new"], comp))
        server.put(self.blob["later"], gen.blob_for(sc["later"], comp))
        for how in ("truncated", "corrupt"):
            server.put(self.blob[how], gen.blob_for(sc["new"], comp, how))
        lm = 1 if serve.get("lastmod") else 0
        beh = serve["behaviour"]
        same = beh in ("304", "same-etag")
        self.uri_old = server.uri("ok", "e1-" + n, lm and 1, self.blob["old"])
        self.uri_new = server.uri({"304": "ok", "same-etag": "ignore-cond"}.get(beh, beh), ("e1-" if same else "e2-") + n,
                                  lm and (1 if same else 2), self.blob["new"])
        # the next sync: the server delivers the good new tarball (same ETag as the interrupted attempt's)
        self.uri_next = server.uri("ok", "e2-" + n, lm and 2, self.blob["good"])
        self.uri_later = server.uri("ok", "e3-" + n, lm and 3, self.blob["later"])
        # a next sync that FAILS (no crash): its ETag matches nothing cached, so the download is always attempted
        self.uri_fail = {"404": server.uri("404", "e9-" + n, lm and 9, self.blob["good"]),
                         "truncated": server.uri("ok", "e9-" + n, lm and 9, self.blob["truncated"]),
                         "corrupt": server.uri("ok", "e9-" + n, lm and 9, self.blob["corrupt"])}
        self.exp_old = None if sc.get("old") is None else ref.expected_tree(sc["old"], gen.content)
        self.exp_new = ref.expected_tree(sc["new"], gen.content)
        self.exp_later = ref.expected_tree(sc["later"], gen.content)
        # does the sync under test deliver an installable tarball at all?
        self.delivers = serve.get("damage") is None and beh in ("ok", "ignore-cond", "nolen")
        self.ok = True

    # -- filesystem views ------------------------------------------------------------------------------------
    def restore(self):
        shutil.rmtree(self.work, ignore_errors=True)
        shutil.copytree(self.tpl, self.work, symlinks=True)

    def stash(self, slot=""):
        shutil.rmtree(self.save + slot, ignore_errors=True)
        shutil.copytree(self.work, self.save + slot, symlinks=True)

    def unstash(self, slot=""):
        shutil.rmtree(self.work, ignore_errors=True)
        shutil.copytree(self.save + slot, self.work, symlinks=True)

    def repo_snap(self, name=REPO):
        p = os.path.join(self.work, "repos", name)
        if os.path.islink(p):
            p = os.path.realpath(p)
        if not os.path.isdir(p):
            return None
        return self.fssnap.snap(p)

    def repo_tree(self, name=REPO):
        s = self.repo_snap(name)
        return None if s is None else ref.observed_tree(s)

    def siblings(self, old, new):
        """Everything next to the repository directory, classified (only counted / used to name mechanisms).
        `old` is one tree, a list of acceptable previous trees, or None."""
        olds = old if isinstance(old, list) else ([old] if old is not None else [])
        out = {}
        d = os.path.join(self.work, "repos")
        for n in sorted(os.listdir(d)):
            if n == REPO:
                continue
            p = os.path.join(d, n)
            if os.path.isdir(p) and not os.path.islink(p):
                t = ref.observed_tree(self.fssnap.snap(p))
                # "new" first: in a fault sequence the tree before the sync may already be the one being installed
                out[n] = "new" if new is not None and ref.same(t, new) else ref.state_of_any(t, olds, new)
            else:
                out[n] = "non-directory"
        return out

    def tmp_leftovers(self):
        try:
            return len(os.listdir(self.tmpdir))
        except OSError:
            return 0

    # -- runs ------------------------------------------------------------------------------------------------
    def run(self, uri, mode="count", k=0):
        os.makedirs(self.tmpdir, exist_ok=True)
        res = self.fault.run_injected(sync_fn(self.basedir, uri, self.tmpdir), mode, k, roots=[self.work], timeout=RUN_TIMEOUT)
        self.ctx.count("forks")
        if res.get("status") != "done" and not _wait_tar(self.work):
            self.ctx.count("tar_still_running_after_wait")
            res["status"] = "harness-error"
        return res

    def usable(self, res, slack=None):
        """False when the run tells nothing (harness trouble): never a verdict."""
        st = res.get("status")
        if st in ("child-died", "harness-error"):
            self.ctx.count("runs_unusable:" + str(st))
            return False
        if slack is not None and res.get("audit_unnumbered", 0) > slack:
            self.ctx.count("runs_unusable:audit-unnumbered")
            self.ctx.set_inconclusive("C47: audit hook saw %s un-numbered mutations (accepted %s) in %s; ops=%s" % (
                res.get("audit_unnumbered"), slack, self.sc["name"], [o[1:] for o in res.get("ops", [])][-6:]))
            return False
        return True

    def build_template(self):
        """Install the previous tree.  Returns False when the scenario cannot be used."""
        ctx, sc = self.ctx, self.sc
        if sc.get("old") is None:
            return True
        tb = os.path.join(self.tpl, "repos", REPO)
        if sc["old_via"] == "plain":
            gen.materialise(sc["old"], tb)
            return True
        # by a real, un-injected sync of the old tarball (judged: a clean sync installs the complete tree)
        shutil.rmtree(self.work, ignore_errors=True)
        shutil.copytree(self.tpl, self.work, symlinks=True)
        res = self.run(self.uri_old)
        if not self.usable(res):
            return False
        self.judge_clean(res, self.exp_old, "template", {"uri": self.uri_old})
        if res.get("status") != "done" or (res.get("result") or {}).get("exc") or not ref.same(self.repo_tree(), self.exp_old):
            return False
        shutil.rmtree(self.tpl)
        shutil.copytree(self.work, self.tpl, symlinks=True)
        shutil.rmtree(os.path.join(self.tpl, "tmp"), ignore_errors=True)
        os.makedirs(os.path.join(self.tpl, "tmp"))
        return True

    def judge_clean(self, res, exp, what, extra):
        """An un-injected sync of a good tarball: success and the complete tree."""
        ctx = self.ctx
        r = res.get("result") or {}
        obs = self.repo_tree()
        ctx.evaluated()
        ctx.count("clean_syncs_judged")
        ok = res.get("status") == "done" and r.get("ret") is True and not r.get("exc_type") and ref.same(obs, exp)
        if not ok:
            ctx.violation("clean-sync-not-complete", dict(extra, scenario=self.sc, rule=what, status=res.get("status"), run=r,
                                                          exc=res.get("exc"), diff_vs_expected=None if obs is None else ref.tree_diff(obs, exp)))
        sib = self.siblings(None, None)
        if sib:
            ctx.count("clean_sync_left_siblings")
        return ok

    def close(self):
        shutil.rmtree(self.root, ignore_errors=True)


def _unpacked(res):
    """Did this run reach the unpack step (i.e. it was not short-circuited by 304 / equal ETag)?"""
    return any(o[1] == "subprocess" for o in res.get("ops", []))


def next_sync(ctx, env, base, moved_on=False):
    """The next sync, in a fresh process, against a server that now delivers the good new tarball -- or, with
    `moved_on`, already the generation after it.  Must return success and leave the complete tree it was served; when it had
    nothing to do (equal ETag), a later sync to the newer tarball must."""
    sib_before = env.siblings(env.exp_old if env.exp_old is not None else None, env.exp_new)
    steps = [("later", env.uri_later, env.exp_later)] if moved_on else [("next", env.uri_next, env.exp_new)]
    done = []
    while steps:
        which, uri, exp = steps.pop(0)
        res = env.run(uri)
        ctx.count("next_syncs_run")
        if not env.usable(res):
            return None
        r = res.get("result") or {}
        obs = env.repo_tree()
        ctx.evaluated()
        info = {"which": which, "status": res.get("status"), "run": r, "unpacked": _unpacked(res)}
        done.append(info)
        failed = res.get("status") != "done" or r.get("exc_type") or r.get("ret") is not True
        if failed:
            ctx.count("next_sync_failed")
            ctx.violation("next-sync-failed", dict(base, next=done, siblings_before_next=sib_before, exc_type=r.get("exc_type") or res.get("exc_type"),
                                                   exc=r.get("exc") or res.get("exc"), rule=str(r.get("exc_type") or res.get("status"))))
            return False
        if not ref.same(obs, exp):
            ctx.count("next_sync_incomplete")
            ctx.violation("next-sync-tree-incomplete", dict(base, next=done, siblings_before_next=sib_before,
                                                            diff_vs_expected=None if obs is None else ref.tree_diff(obs, exp),
                                                            rule="absent" if obs is None else "differs"))
            return False
        ctx.count("next_sync_ok:" + which + (":unpacked" if info["unpacked"] else ":nothing-to-do"))
        if which == "next" and not info["unpacked"]:
            steps.append(("later", env.uri_later, env.exp_later))
    return True


FAIL_KINDS = ("404", "truncated", "corrupt")
KIND_INDEX = {"crash-before": 0, "crash-after": 1, "torn": 2, "eio": 0}


def failing_next_sync(ctx, env, base, kind, olds, new, crash_state, crash_snap):
    """The next sync after the fault FAILS without crashing (404 / truncated / corrupt tarball).  It must not make things
    worse: afterwards the repository is the complete previous tree or the complete new tree -- also when the fault had left
    neither at the repository path (the known rename window: the trees then only exist in the staging dirs and a failing
    sync must not destroy them) -- and when the fault had left a complete tree, that tree is untouched.
    Returns the witness base for the good sync that follows (None: unusable run)."""
    res = env.run(env.uri_fail[kind])
    ctx.count("failing_next_syncs_run")
    if not env.usable(res):
        return None
    r = res.get("result") or {}
    snap = env.repo_snap()
    obs = None if snap is None else ref.observed_tree(snap)
    had_old = bool(olds)
    st = ref.state_of_any(obs, olds, new)
    failed = bool(r.get("exc_type")) or res.get("status") != "done"
    ctx.count("failing_next:%s:%s" % (kind, r.get("exc_type") or ("ret=%r" % (r.get("ret"),))))
    ctx.count("state_after_failing_next:%s->%s" % (crash_state, st))
    w = dict(base, fail_kind=kind, failing={"kind": kind, "status": res.get("status"), "run": r, "state_after": st,
                                            "siblings_after": env.siblings(olds, new)})
    ctx.evaluated()
    if failed:
        ctx.nontrivial((env.sc["name"], base.get("mode"), tuple(base.get("op") or ()), base.get("occ"), "failing-next", kind,
                        str(base.get("first", ""))))
    if not ref.old_or_new(st, had_old):
        d = {}
        if obs is not None and had_old:
            d["diff_vs_old"] = ref.tree_diff(obs, olds[0])
        if obs is not None and new is not None:
            d["diff_vs_new"] = ref.tree_diff(obs, new)
        ctx.violation("failed-next-sync-lost-tree", dict(w, rule="%s-after-%s/%s" % (st, crash_state, kind), **d))
    elif failed and crash_state in ("old", "new"):
        ctx.evaluated()
        ok, d = ref.untouched(crash_snap, snap, env.fssnap.diff)
        if not ok:
            ctx.violation("failed-sync-touched-tree", dict(w, rule="after-fault/" + kind, snapshot_diff=d))
    return w


def judge_point(ctx, env, mode, k, ops, slack, follow=True, extra=None, expect_op=None, second=False, fail_kind=None,
                orig_old=None):
    """One injected run of the sync under test + inspection + next sync.  Returns the state after the run
    (None: unusable run; "other-op": operation k is not `expect_op`, nothing judged).
    With `second` the run is the *next* sync (good tarball) started from the stashed state an earlier fault left; `orig_old`
    is then the tree from before the first interrupted sync (a recovery may legitimately bring it back)."""
    sc = env.sc
    if second:
        env.unstash()
    else:
        env.restore()
    before_snap = env.repo_snap()
    before = None if before_snap is None else ref.observed_tree(before_snap)
    before_complete = before is not None and bool(before)
    olds = ([before] if before_complete else []) + ([orig_old] if orig_old else [])
    had_old = bool(olds)
    uri = env.uri_next if second else env.uri_new
    delivers = True if second else env.delivers
    res = env.run(uri, mode, k)
    ctx.count("fault_runs")
    ctx.count("fault_runs:" + mode)
    if not env.usable(res, slack):
        return None
    rops = res.get("ops") or ops or []
    if not (0 < k <= len(rops)):
        ctx.count("fault_point_not_reached")
        return None if expect_op is None else "other-op"
    op = norm_op(rops[k - 1], env.work)
    occ = occurrence(rops, k, env.work)
    if expect_op is not None and (op != list(expect_op[0]) or occ != expect_op[1]):
        return "other-op"
    fired = bool(res.get("injected"))
    ctx.count("run_status:" + str(res.get("status")))
    if fired:
        ctx.count("fault_runs_fired")
        ctx.nontrivial((sc["name"], mode, op[0], op[1], occ, str(extra.get("first")) if extra else ""))
    r = res.get("result") or {}
    after_snap = env.repo_snap()
    obs = None if after_snap is None else ref.observed_tree(after_snap)
    new = env.exp_new if delivers else None
    state = ref.state_of_any(obs, olds, new)
    sib = env.siblings(olds, new)
    ctx.count("state_after:%s:%s" % ("eio" if mode == "eio" else "crash", state))
    if sib:
        ctx.count("siblings_left_after_fault_run")
    if env.tmp_leftovers():
        ctx.count("tmpfiles_left_after_fault_run")
    base = {"scenario": sc, "mode": mode, "k": k, "op": op, "occ": occ, "nops": len(ops or rops), "status": res.get("status"), "run": r,
            "fired": fired, "had_old": had_old, "state": state, "siblings": sib}
    if extra:
        base.update(extra)
    ctx.evaluated()
    if not ref.old_or_new(state, had_old):
        d = {}
        if obs is not None:
            if had_old:
                d["diff_vs_old"] = ref.tree_diff(obs, olds[0])
            if new is not None:
                d["diff_vs_new"] = ref.tree_diff(obs, new)
        ctx.violation("not-old-or-new", dict(base, rule="%s/%s" % (state, "eio" if mode == "eio" else "crash"), **d))
    # a sync that reports success must have installed the new tree (or had nothing to do)
    if res.get("status") == "done" and r.get("ret") is True and not r.get("exc_type") and _unpacked(res) and delivers:
        ctx.evaluated()
        if not ref.same(obs, new):  # (the label may read "old" when the tree before this sync already was the new one)
            ctx.violation("reported-success-without-new-tree", dict(base, rule=state))
    # failed download / unpack (error, not death): previous tree untouched
    unpack_k = next((o[0] for o in rops if o[1] == "subprocess"), None)
    # (when an earlier fault left no tree at the path, putting the original one back is recovery, not "touching")
    if mode == "eio" and fired and r.get("exc_type") and (not delivers or unpack_k is None or k <= unpack_k) \
            and (before_complete or not olds):
        ctx.evaluated()
        ctx.count("failed_download_or_unpack_judged")
        ok, d = ref.untouched(before_snap, after_snap, env.fssnap.diff)
        if not ok:
            ctx.violation("failed-sync-touched-tree", dict(base, rule="eio-at-" + op[0], snapshot_diff=d))
    if follow:
        # the state after operation k is reached by crash-after k and by crash-before k+1: one of them is followed by a
        # sync of the same tarball, the other by a sync of a newer one (the server moved on in the meantime)
        moved_on = mode in ("crash-after", "torn")
        bad = not ref.old_or_new(state, had_old)
        # a FAILING next sync first, wherever the fault left something behind next to the repository (staging dirs) or left
        # neither tree at the repository path; on the thorough tier after every fault that fired
        with_failing = fail_kind is not None or (fired and (bool(sib) or bad or not ctx.quick))
        if not with_failing:
            next_sync(ctx, env, base, moved_on=moved_on)
        else:
            # the good sync straight after the fault keeps being exercised too (a failing sync in between may clean up
            # what would have tripped it): for crash-before points and for every neither-old-nor-new state, from a stash
            both = fail_kind is None and (mode == "crash-before" or bad)
            if both:
                env.stash("2")
            kind = fail_kind or FAIL_KINDS[(k + KIND_INDEX.get(mode, 0)) % len(FAIL_KINDS)]
            w = failing_next_sync(ctx, env, base, kind, olds, new, state, after_snap)
            if w is not None:
                next_sync(ctx, env, w, moved_on=moved_on)
            if both:
                env.unstash("2")
                next_sync(ctx, env, base, moved_on=moved_on)
    return state


def crash_points(ops, fault):
    """Every (kind, k).  Operations that name a path below repos/ (staging dirs, the renames, .etag/.modified) and the tar
    subprocess come first, the download temp file and the fd-relative cleanup operations after them: only the order in
    which a deadline-limited run gets to them, never which ones exist."""
    def late(o):
        return 0 if (o[1] == "subprocess" or "repos/" in str(o[2])) else 1

    return [(mode, o[0]) for o in sorted(ops, key=late) for mode in fault.KINDS if mode != "torn" or fault.is_write_op(o)]


def enumerate_scenario(ctx, server, sc, tag, split=True, only=None, reserve=25):
    from .. import fault

    env = Env(ctx, server, sc, tag)
    try:
        if not env.build_template():
            ctx.count("scenario_template_unusable")
            return
        env.restore()
        dry = env.run(env.uri_new)
        if not env.usable(dry):
            return
        slack = dry.get("audit_unnumbered", 0)
        if slack > 2:
            ctx.set_inconclusive("C47 dry run of %s: %d un-numbered mutations; ops=%s" % (sc["name"], slack, dry.get("ops")))
            return
        ops, n = dry["ops"], dry["nops"]
        if only is None and (not split or ctx.shard == 0):
            ctx.count("crash_scenarios")
            ctx.count("crash_points_enumerable", len(crash_points(ops, fault)))
            ctx.count("crash_scenario:%s:%s" % ("update" if sc.get("old") else "initial", "good" if env.delivers else "fails"))
            if env.delivers:
                env.judge_clean(dry, env.exp_new, "dry-run", {"uri": env.uri_new})
            if ctx.want_sample():
                ctx.sample({"scenario": sc["name"], "comp": sc["comp"], "serve": sc["serve"], "nops": n,
                            "ops": [norm_op(o, env.work) for o in ops]})
        runs = only if only is not None else crash_points(ops, fault)
        for idx, (mode, k) in enumerate(runs):
            if only is None and split and idx % ctx.nshards != ctx.shard:
                continue
            if ctx.out_of_time(reserve):
                ctx.count("crash_enumeration_cut_short")
                break
            judge_point(ctx, env, mode, k, ops, slack)
        else:
            if only is None:
                ctx.count("crash_scenario_slices_completed")
    finally:
        env.close()


def run_failure(ctx, server, sc, tag):
    """A sync that must not change the previous tree, no crash involved: failed download, failed unpack, nothing new."""
    env = Env(ctx, server, sc, tag)
    try:
        if not env.build_template():
            ctx.count("scenario_template_unusable")
            return
        env.restore()
        before_snap = env.repo_snap()
        res = env.run(env.uri_new)
        if not env.usable(res):
            return
        r = res.get("result") or {}
        after_snap = env.repo_snap()
        beh = sc["serve"]["behaviour"]
        nothing_new = beh in ("304", "same-etag")
        ctx.count("failure_syncs_judged")
        ctx.count("failure:%s:%s" % (sc["serve"].get("damage") or beh, r.get("exc_type") or ("ret=%r" % (r.get("ret"),))))
        base = {"scenario": sc, "mode": "none", "k": 0, "status": res.get("status"), "run": r, "had_old": bool(before_snap),
                "unpacked": _unpacked(res)}
        ctx.evaluated()
        ok, d = ref.untouched(before_snap, after_snap, env.fssnap.diff)
        really = bool(r.get("exc_type")) or (nothing_new and not _unpacked(res))
        if really:
            ctx.nontrivial((sc["name"], "failure"))
        if not ok:
            ctx.violation("failed-sync-touched-tree", dict(base, rule="nothing-new" if nothing_new else str(sc["serve"].get("damage") or beh),
                                                           snapshot_diff=d))
        if nothing_new:
            ctx.evaluated()
            if r.get("ret") is not True or r.get("exc_type"):
                ctx.violation("unchanged-upstream-sync-failed", dict(base, rule=beh))
        if ctx.want_sample():
            ctx.sample({"scenario": sc["name"], "serve": sc["serve"], "run": r, "tree_untouched": ok})
        next_sync(ctx, env, base)
    finally:
        env.close()


def sequence_once(ctx, env, first, second, dry_ops, slack, rng=None, fail_kind=None):
    """The sync dies at `first` = (mode, k); the next sync (good tarball) suffers `second` = (mode, k) or, for replay,
    (mode, [op, occ]) or None (drawn); the sync after that must complete."""
    from .. import fault

    mode1, k1 = first
    tpl_repo = os.path.join(env.tpl, "repos", REPO)
    orig_old = ref.observed_tree(env.fssnap.snap(tpl_repo)) if os.path.isdir(tpl_repo) else None
    st1 = judge_point(ctx, env, mode1, k1, dry_ops, slack, follow=False)
    if st1 is None:
        return
    env.stash()
    cnt = env.run(env.uri_next)  # what the next sync does from here (its own verdict belongs to the plain enumeration)
    if not env.usable(cnt) or not cnt.get("nops"):
        return
    if second is None:
        second = rng.choice(crash_points(cnt["ops"], fault))
    mode2, k2 = second
    if not isinstance(k2, int):
        k2 = locate(cnt["ops"], k2[0], k2[1], env.work)
        if k2 is None:
            ctx.count("replay_operation_gone")
            return
    ctx.count("sequence_second_faults")
    info = {"mode": mode1, "k": k1, "op": norm_op(dry_ops[k1 - 1], env.work), "occ": occurrence(dry_ops, k1, env.work),
            "state_after": st1}
    judge_point(ctx, env, mode2, k2, cnt["ops"], slack, extra={"first": info, "sequence": True}, second=True, fail_kind=fail_kind,
                orig_old=orig_old or None)


def run_sequence(ctx, server, sc, tag, rng, n):
    """Fault sequences: the sync dies at k1, the next sync dies (or gets an I/O error) at k2, the one after that must complete."""
    from .. import fault

    env = Env(ctx, server, sc, tag)
    try:
        if not env.build_template():
            return
        env.restore()
        dry = env.run(env.uri_new)
        if not env.usable(dry) or dry.get("audit_unnumbered", 0) > 2:
            return
        slack = dry.get("audit_unnumbered", 0)
        pts = [p for p in crash_points(dry["ops"], fault) if p[0] != "eio"]
        for _ in range(n):
            if ctx.out_of_time(50):
                ctx.count("sequences_cut_short")
                break
            ctx.count("sequences")
            sequence_once(ctx, env, rng.choice(pts), None, dry["ops"], slack, rng)
    finally:
        env.close()


# ------------------------------------------------------------------------------------------------------------------
# histories: several syncs through ONE syncer object in ONE process (a long-running caller)

INTERRUPTS = [("rename", 2, "before"), ("rename", 1, "before"), ("rename", 2, "after"), ("mkdir", 2, "after"),
              ("mkdir", 3, "after"), ("run", 1, "before"), ("run", 1, "after")]


def history_fn(basedir, reposdir, uri, tmpdir, ctl_path, steps):
    """Child side: one tar_syncer object, one sync per step; before each step the server's control file is rewritten; an
    'interrupt' step raises KeyboardInterrupt (not an OSError: nothing in the syncer handles it) before/after the n-th call
    of os.rename / os.mkdir on a path below repos/ or of subprocess.run.  After each step the whole repos/ directory is
    snapshotted with fssnap; at the end the process' exit handlers run and a last snapshot is taken."""
    def fn():
        import atexit
        import io
        import json
        import subprocess
        import tempfile

        from .. import fssnap

        atexit._clear()
        tempfile.tempdir = tmpdir
        try:
            c = tempfile._TemporaryFileCloser.cleanup
            c.__defaults__ = tuple(os.unlink if getattr(d, "__name__", "") == "unlink" else d for d in c.__defaults__)
        except Exception:
            pass
        sys.stdout = io.StringIO()
        sys.stderr = io.StringIO()
        sys.unraisablehook = lambda *a: None
        armed = {"func": None, "nth": 0, "when": "", "count": 0, "fired": False}
        root = os.path.realpath(reposdir)

        def hit(func):
            if armed["func"] != func:
                return False
            armed["count"] += 1
            return armed["count"] == armed["nth"] and not armed["fired"]

        def wrap_path(func, orig):
            def w(*a, **kw):
                under = any(isinstance(x, (str, bytes)) and os.path.realpath(os.fsdecode(x).rstrip("/") or "/").startswith(root + "/")
                            for x in a[:2])
                h = under and hit(func)
                if h and armed["when"] == "before":
                    armed["fired"] = True
                    raise KeyboardInterrupt()
                r = orig(*a, **kw)
                if h:
                    armed["fired"] = True
                    raise KeyboardInterrupt()
                return r
            return w

        os.rename = wrap_path("rename", os.rename)
        os.mkdir = wrap_path("mkdir", os.mkdir)
        orig_run = subprocess.run

        def run(*a, **kw):
            h = hit("run")
            if h and armed["when"] == "before":
                armed["fired"] = True
                raise KeyboardInterrupt()
            r = orig_run(*a, **kw)
            if h:
                armed["fired"] = True
                raise KeyboardInterrupt()
            return r

        subprocess.run = run
        from pkgcore.sync.tar import tar_syncer
        out = {"steps": [], "final": None, "ctor_exc": None}
        try:
            try:
                s = tar_syncer(basedir, uri)
            except Exception as e:
                out["ctor_exc"] = "%s: %s" % (type(e).__name__, e)
                return out
            for st in steps:
                with open(ctl_path + ".new", "w") as f:
                    json.dump(st["ctl"], f)
                os.replace(ctl_path + ".new", ctl_path)
                it = st.get("interrupt")
                armed.update(func=it[0] if it else None, nth=it[1] if it else 0, when=it[2] if it else "", count=0, fired=False)
                rec = {"ret": None, "exc_type": None, "exc": None, "interrupted": False}
                try:
                    r = s.sync()
                    rec["ret"] = r if isinstance(r, (bool, int, type(None))) else repr(r)
                except KeyboardInterrupt:
                    rec["interrupted"] = True
                except Exception as e:
                    rec["exc_type"], rec["exc"] = type(e).__name__, str(e)[:300]
                rec["fired"] = armed["fired"]
                armed["func"] = None
                rec["snap"] = fssnap.snap(reposdir)
                out["steps"].append(rec)
        finally:
            armed["func"] = None
            atexit._run_exitfuncs()
        out["final"] = fssnap.snap(reposdir)
        return out

    return fn


def _sub(snap, name):
    """The snapshot of repos/<name> out of a snapshot of repos/ (None when it is not a directory there)."""
    if snap is None or snap.get(name, {}).get("type") != "dir":
        return None
    return {k[len(name) + 1:]: v for k, v in snap.items() if k.startswith(name + "/")}


def make_history(sc, kinds):
    """kinds: list of "good" | "404" | "truncated" | "corrupt" | ("interrupt", func, nth, when).  Good and interrupted
    syncs target the new and the later generation alternately, each with an ETag of its own (so it has to install)."""
    steps = []
    target = "new"
    for i, kd in enumerate(kinds):
        if kd == "good" or isinstance(kd, (list, tuple)):
            st = {"kind": "good" if kd == "good" else "interrupt", "target": target}
            if kd != "good":
                st["interrupt"] = list(kd[1:])
            target = "later" if target == "new" else "new"
        else:
            st = {"kind": kd, "target": None}
        steps.append(st)
    return {"scenario": sc, "steps": steps}


def run_history(ctx, server, hist, tag):
    from .. import fssnap

    sc = hist["scenario"]
    env = Env(ctx, server, sc, tag)
    try:
        if not env.build_template():
            ctx.count("scenario_template_unusable")
            return
        env.restore()
        n = re.sub(r"[^A-Za-z0-9_.-]", "_", sc["name"])
        ctl = "ctl-%s-%s.json" % (n, tag)
        exp = {"new": env.exp_new, "later": env.exp_later}
        blob = {"new": env.blob["good"], "later": env.blob["later"]}
        steps = []
        for i, st in enumerate(hist["steps"]):
            k = st["kind"]
            if k in ("good", "interrupt"):
                c = {"behaviour": "ok", "etag": "h%d-%s" % (i, n), "lm": 0, "blob": blob[st["target"]]}
            elif k == "404":
                c = {"behaviour": "404", "etag": "h%d-%s" % (i, n), "lm": 0, "blob": env.blob["good"]}
            else:
                c = {"behaviour": "ok", "etag": "h%d-%s" % (i, n), "lm": 0, "blob": env.blob[k]}
            steps.append(dict(st, ctl=c))
        uri = server.uri("ctl", ctl, 0, "repo.tar.%s" % sc["comp"])
        reposdir = os.path.join(env.work, "repos")
        before_snap = env.repo_snap()
        os.makedirs(env.tmpdir, exist_ok=True)
        res = env.fault.run_injected(history_fn(env.basedir, reposdir, uri, env.tmpdir, os.path.join(server.srvdir, ctl), steps),
                                     "count", 0, roots=[env.work], timeout=RUN_TIMEOUT * 2)
        ctx.count("forks")
        ctx.count("histories")
        _wait_tar(env.work)
        if not env.usable(res):
            return
        out = res.get("result") or {}
        if res.get("status") != "done" or out.get("ctor_exc") or len(out.get("steps", [])) != len(steps):
            ctx.evaluated()
            ctx.violation("history-run-broke", {"history": hist, "mode": "history", "status": res.get("status"), "exc": res.get("exc"),
                                                "ctor_exc": out.get("ctor_exc"), "rule": str(res.get("exc_type") or res.get("status"))})
            return
        # ---- judge, step by step
        last_complete = None if before_snap is None else ref.observed_tree(before_snap)   # the last complete tree seen at the path
        if last_complete is not None and not last_complete:
            last_complete = None
        pending = []          # trees that interrupted syncs were installing
        prev_snap = before_snap
        for i, (st, ob) in enumerate(zip(steps, out["steps"])):
            snap = ob.pop("snap")
            rsnap = _sub(snap, REPO)
            tree = None if rsnap is None else ref.observed_tree(rsnap)
            prev_tree = None if prev_snap is None else ref.observed_tree(prev_snap)
            olds = [t for t in [last_complete] if t]
            had_old = bool(olds)
            kind = st["kind"]
            sib = {}
            for nme in sorted(snap):
                if "/" not in nme and nme != REPO:
                    sub = _sub(snap, nme)
                    sib[nme] = "non-directory" if sub is None else ref.state_of_any(ref.observed_tree(sub), olds + pending[:-1],
                                                                                    pending[-1] if pending else None)
            base = {"history": hist, "mode": "history", "step": i, "step_kind": kind, "interrupt": st.get("interrupt"), "obs": ob,
                    "had_old": had_old, "siblings": sib, "steps_so_far": [dict(o, snap=None) for o in out["steps"][:i]]}
            ctx.count("history_step:%s:%s" % (kind, "interrupted" if ob.get("interrupted") else ob.get("exc_type") or "ret=%r" % (ob.get("ret"),)))
            ctx.evaluated()
            if kind == "good" or (kind == "interrupt" and not ob.get("fired")):
                want = exp[st["target"]]
                if ob.get("ret") is not True or ob.get("exc_type") or not ref.same(tree, want):
                    ctx.violation("history-good-sync-not-completed",
                                  dict(base, rule=str(ob.get("exc_type") or ("tree" if ob.get("ret") is True else "ret=%r" % (ob.get("ret"),))),
                                       diff_vs_expected=None if tree is None else ref.tree_diff(tree, want)))
                else:
                    ctx.nontrivial((sc["name"], "history", i, str(hist["steps"][: i + 1])))
                if ref.same(tree, want):
                    last_complete, pending = want, []
            elif kind == "interrupt":
                want = exp[st["target"]]
                state = ref.state_of_any(tree, olds, want)
                ctx.count("history_state_after_interrupt:" + state)
                ctx.nontrivial((sc["name"], "history", i, str(hist["steps"][: i + 1])))
                sib = {}
                for nme in sorted(snap):
                    if "/" not in nme and nme != REPO:
                        sub = _sub(snap, nme)
                        # (the interrupted sync may have been installing the very generation that is installed: "new" first)
                        t_ = None if sub is None else ref.observed_tree(sub)
                        sib[nme] = "non-directory" if sub is None else "new" if ref.same(t_, want) else ref.state_of_any(t_, olds, None)
                was_complete = prev_tree is not None and bool(prev_tree) and any(ref.same(prev_tree, t) for t in olds + pending)
                unchanged = (tree is None and prev_tree is None) or (tree is not None and prev_tree is not None and ref.same(tree, prev_tree))
                if not ref.old_or_new(state, had_old) and not was_complete and unchanged:
                    # the path already held no complete tree before this sync (reported at the step that caused it) and the
                    # interrupted sync left it as it was: not a new violation -- unless the remaining copies are gone
                    ctx.count("history_interrupt_left_incomplete_path_unchanged")
                    trees = [ref.observed_tree(x) for x in (_sub(snap, nme) for nme in snap if "/" not in nme) if x is not None]
                    if not any(ref.same(t, a) for t in trees for a in olds + pending + [want]):
                        ctx.violation("interrupted-sync-lost-remaining-copies", dict(base, state=state, siblings=sib, rule=state))
                elif not ref.old_or_new(state, had_old):
                    ctx.violation("not-old-or-new", dict(base, mode="interrupt", op=[st["interrupt"][0], "%s call %d" % (st["interrupt"][2], st["interrupt"][1])],
                                                         state=state, siblings=sib, rule="%s/interrupt" % state))
                if state == "new":
                    last_complete, pending = want, []
                else:
                    pending.append(want)
            else:  # a sync that fails: 404 / truncated / corrupt
                state = "absent" if tree is None else None
                complete_before = prev_tree is not None and bool(prev_tree) and any(ref.same(prev_tree, t) for t in olds + pending)
                if ob.get("exc_type"):
                    ctx.nontrivial((sc["name"], "history", i, str(hist["steps"][: i + 1])))
                if complete_before:
                    ok, d = ref.untouched(prev_snap, rsnap, fssnap.diff)
                    if not ok:
                        ctx.violation("failed-sync-touched-tree", dict(base, rule="history/" + kind, snapshot_diff=d))
                else:
                    acceptable = olds + pending
                    stt = "old" if any(ref.same(tree, t) for t in acceptable) else ("absent" if tree is None else "empty" if not tree else "mixed")
                    ctx.count("history_state_after_failing:" + stt)
                    if not ref.old_or_new(stt, bool(olds)):  # with no previous tree at all, a missing/empty directory still is "old"
                        ctx.violation("failed-next-sync-lost-tree", dict(base, state=stt, rule="history/%s/%s" % (stt, kind)))
                if tree is not None and any(ref.same(tree, t) for t in pending):
                    last_complete, pending = tree, []
            prev_snap = rsnap
        # ---- the process has ended (exit handlers ran): a good sync in a fresh process must complete
        base = {"history": hist, "mode": "history", "step": len(steps), "step_kind": "fresh-process", "had_old": True,
                "steps_so_far": out["steps"]}
        next_sync(ctx, env, base)
    finally:
        env.close()


def history_plans(rng, n):
    """The first four are fixed shapes (every quick run has them), the rest are drawn."""
    plans = [
        ("update", ["truncated", "good"]),
        ("update", [("interrupt", "rename", 2, "before"), "good"]),
        ("update", ["corrupt", "404", "good", ("interrupt", "mkdir", 3, "after"), "good"]),
        ("initial", [("interrupt", "rename", 2, "before"), "truncated", "good"]),
    ]
    while len(plans) < n:
        kinds = []
        for _ in range(rng.randrange(2, 6)):
            x = rng.random()
            if x < 0.3:
                kinds.append("good")
            elif x < 0.65:
                kinds.append(rng.choice(["404", "truncated", "corrupt"]))
            else:
                kinds.append(("interrupt",) + rng.choice(INTERRUPTS + INTERRUPTS[:1]))
        kinds.append("good")
        plans.append((rng.choice(["update", "update", "initial"]), kinds))
    return plans[:n]


def history_scenario(shape, idx):
    comp = gen.COMPRESSIONS[idx % 3]
    return {"name": "hist%d-%s-%s" % (idx, shape, comp), "comp": comp, "old": gen.tiny_tree("1") if shape == "update" else None,
            "old_via": ("sync" if idx % 2 else "plain") if shape == "update" else None, "new": gen.tiny_tree("2"),
            "later": gen.tiny_tree("3"), "serve": {"behaviour": "ok", "damage": None, "lastmod": False}}



def _preimport():
    import pkgcore.sync.base  # noqa
    import pkgcore.sync.tar  # noqa
    import urllib.request  # noqa
    import tempfile  # noqa
    import subprocess  # noqa


def run(ctx):
    _preimport()
    scratch = os.environ.get("VT_SCRATCH") or "/var/tmp"
    server = Server(os.path.join(scratch, "c47_srv_%d" % os.getpid()))
    try:
        rng = ctx.rng
        # histories of syncs through one syncer object (cheap: two forks each), before anything a deadline could cut
        plans = history_plans(__import__("random").Random(ctx.seed * 31 + 5), ctx.budget(8, 64))
        for i, (shape, kinds) in enumerate(plans):
            if i % ctx.nshards != ctx.shard:
                continue
            if ctx.out_of_time(60):
                ctx.count("histories_cut_short")
                break
            run_history(ctx, server, make_history(history_scenario(shape, i), kinds), "h%d" % i)
        fails = gen.failure_scenarios(__import__("random").Random(ctx.seed), ctx.budget(len(gen.FAILURES), 3 * len(gen.FAILURES)), seed=ctx.seed)
        for i, sc in enumerate(fails):
            if i % ctx.nshards != ctx.shard:
                continue
            if ctx.out_of_time(60):
                ctx.count("failure_scenarios_cut_short")
                break
            run_failure(ctx, server, sc, "f%d" % i)
        crashes = gen.crash_scenarios(__import__("random").Random(ctx.seed + 7), ctx.budget(3, 12), seed=ctx.seed)
        for i, sc in enumerate(crashes):
            if ctx.out_of_time(40):
                ctx.count("crash_scenarios_not_started")
                continue
            enumerate_scenario(ctx, server, sc, "c%d" % i)
        # fault sequences (each shard its own draws)
        for i in range(ctx.budget(1, 3)):
            if ctx.out_of_time(60):
                ctx.count("sequences_not_started")
                break
            sc = crashes[(ctx.shard + i) % len(crashes)]
            run_sequence(ctx, server, sc, "s%d" % i, rng, ctx.budget(2, 6))
    finally:
        server.stop()


# ------------------------------------------------------------------------------------------------------------------
# known mechanisms

def classify(w):
    kind = w.get("kind")
    sib = w.get("siblings") or {}
    op = w.get("op") or ["", ""]
    if kind == "not-old-or-new":
        # the process dies between rename(repo -> .repo.old) and rename(.repo.update -> repo): both complete trees exist,
        # neither at the repository path
        if w.get("mode") in ("crash-before", "crash-after", "torn", "interrupt") and w.get("had_old") and w.get("state") == "absent" \
                and op[0] == "rename" and sib.get("." + REPO + ".old") in ("old", "new") and sib.get("." + REPO + ".update") == "new" \
                and len(sib) == 2:
            return "rename-window"
        # the second rename fails: SyncError, then the at-exit cleanup deletes both the staged new tree and the moved-away old one
        r = w.get("run") or {}
        if w.get("mode") == "eio" and w.get("had_old") and w.get("state") == "absent" and op[0] == "rename" \
                and op[1].startswith("repos/." + REPO + ".update ") and not sib \
                and r.get("exc_type") == "SyncError" and "failed to update repo" in str(r.get("exc")):
            return "failed-swap-deletes-old"
    if kind == "next-sync-failed":
        before = w.get("siblings_before_next") or {}
        exc = str(w.get("exc"))
        if w.get("exc_type") == "SyncError" and "failed creating repo update dirs" in exc and "File exists" in exc \
                and any(("." + REPO + s) in before and ("." + REPO + s) in exc for s in (".update", ".old")):
            return "stale-update-dir"
    return None


def replay(ctx, w):
    from .. import fault

    _preimport()
    scratch = os.environ.get("VT_SCRATCH") or "/var/tmp"
    server = Server(os.path.join(scratch, "c47_srv_replay_%d" % os.getpid()))
    try:
        if w.get("history"):
            run_history(ctx, server, w["history"], "replay")
            ctx.count("replayed_points")
            return
        sc = w["scenario"]
        mode, k = w.get("mode", "none"), w.get("k", 0)
        if mode == "none":
            run_failure(ctx, server, sc, "replay")
            return
        env = Env(ctx, server, sc, "replay")
        try:
            if not env.build_template():
                ctx.note("replay: template unusable")
                return
            if w.get("sequence"):
                env.restore()
                dry = env.run(env.uri_new)
                if not env.usable(dry):
                    return
                f = w["first"]
                k1 = locate(dry["ops"], f["op"], f.get("occ", 0), env.work)
                if k1 is None:
                    ctx.count("replay_operation_gone")
                    return
                sequence_once(ctx, env, (f["mode"], k1), (mode, [w["op"], w.get("occ", 0)]), dry["ops"], min(2, dry.get("audit_unnumbered", 0)),
                              fail_kind=w.get("fail_kind"))
                ctx.count("replayed_points")
                return
            st = "other-op"
            if w.get("op") and k:
                # the recorded index first; the operation found there must be the recorded one
                st = judge_point(ctx, env, mode, k, None, 1, expect_op=(w["op"], w.get("occ", 0)), fail_kind=w.get("fail_kind"))
            if st == "other-op":
                env.restore()
                dry = env.run(env.uri_new)
                if not env.usable(dry):
                    return
                slack = min(2, dry.get("audit_unnumbered", 0))
                ops = dry["ops"]
                if w.get("op"):
                    k2 = locate(ops, w["op"], w.get("occ", 0), env.work)
                    if k2 is None:
                        ctx.note("replay: the sync no longer performs operation %r" % (w["op"],))
                        ctx.count("replay_operation_gone")
                        return
                    k = k2
                judge_point(ctx, env, mode, k, ops, slack, fail_kind=w.get("fail_kind"))
            ctx.count("replayed_points")
        finally:
            env.close()
    finally:
        server.stop()
