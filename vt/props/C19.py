"""C19 An interrupted merge never leaves a replaced file half-written (crash / EIO at every mutating operation)."""

import os
import shutil

from .. import fault, fssnap
from ..gen import c18_trees as gen
from ..ref import c18_merge_model as ref

ID = "C19"
LEVEL = "fault_enumeration"
TECHNIQUE = "fork + interposed filesystem entry points: crash-before / crash-after / torn write / EIO at EVERY operation"
RULE = ("small random package images (3-10 entries: files, hard-link groups, symlinks, fifos, devices, nested dirs) merged by "
        "the real merge_contents over pre-existing roots in which at least one non-directory path is replaced (file over "
        "file of other size/mode/owner, file over symlink, symlink over file, file/symlink/fifo over a dangling symlink, hard-link member over existing file, through "
        "symlinked directories). A dry run numbers the N mutating operations; then for every k in 1..N and every kind "
        "(crash-before, crash-after, EIO; torn for writes) the scenario directory is rebuilt from the scenario (identical data/owner/mode/mtime), the merge is run in a "
        "forked child with the injection, and the parent judges a fresh snapshot: every pre-existing non-directory path "
        "the set replaces (incl. replacements with byte-identical data but other owner/mode/mtime) is entirely old or entirely new by (type, data hash, size, mode, uid, gid, mtime | target); "
        "every path outside the resolved set is untouched except '<path>#new' siblings. One evaluation = one injected "
        "run. Non-trivial = the injection point lies between the first operation on a '#new' sibling and its rename; "
        "distinct = (scenario shape, k, kind).")
ASSUMPTIONS = [
    "a crash is process death (os._exit) at a Python-level operation boundary or in the middle of a write; the kernel's view stays coherent (no power-loss reordering)",
    "paths that did not exist before the merge may be in any partial state (statement: 'each path that existed before')",
    "pre-existing directories are judged only for type and permission bits: their chown/utime are separate system calls by nature",
    "a dangling symlink replaced by a directory (unlink + mkdir) is not a 'replaced file' and is not judged",
    "scenarios contain no directory-versus-file clash and no leftover '#new' sibling (those are C18 outcomes / C18 known findings)",
    "EIO runs are judged by the same old-or-new oracle whether or not the error surfaces; swallowed errors are counted",
    "vt.fault numbers every mutating entry point (cross-checked by the interpreter audit hook: audit_unnumbered must be 0)",
]
SHARDS = {"quick": 4, "thorough": 16}
TIMEOUT = {"quick": 240, "thorough": 1100}
MIN_EVALS = 120
REQUIRED_COUNTERS = ("scenarios_enumerated_completely", "runs:crash-before", "runs:crash-after", "runs:torn", "runs:eio",
                     "replaced_paths_judged", "points_inside_new_window", "state:old", "state:new")

OLD_FIELDS = ("type", "mode", "uid", "gid", "size", "sha", "target")


def _set_paths(scen):
    drop = set(scen.get("drop") or ())
    return [e["p"] for e in scen["src"] if e["p"] not in drop]


def make_fn(scen, work):
    """The workload executed in the forked child: scan + merge with the real code."""
    def fn():
        from pkgcore.fs import contents, livefs, ops
        src = os.path.join(work, "src")
        root = os.path.join(work, "root")
        drop = {"/" + p for p in (scen.get("drop") or ())}
        cset = livefs.scan(src, offset=src)
        if drop:
            cset = contents.contentsSet(x for x in cset if x.location not in drop)
        os.umask(0o022)
        mode = scen.get("mode", "offset")
        if mode == "no-offset":
            cset = contents.contentsSet(contents.offset_rewriter(root, cset))
            ret = ops.merge_contents(cset)
        else:
            ret = ops.merge_contents(cset, offset=root + ("/" if mode == "offset-slash" else ""))
        return {"ret": ret is True}
    return fn


def restore(scen, work):
    """Fresh, identical pre-state: rebuilt from the scenario (deterministic data, explicit owner/mode/mtime)."""
    if os.path.lexists(work):
        shutil.rmtree(work)
    gen.build(scen, work)


def new_windows(ops):
    """Set of operation numbers lying between the first operation on a '#new' sibling and its rename."""
    inside = set()
    open_ = False
    for k, name, detail in ops:
        d = detail if isinstance(detail, str) else repr(detail)
        if "#new" in d:
            open_ = True
            inside.add(k)
            if name in ("rename", "replace"):
                open_ = False
        elif open_:
            inside.add(k)
    return inside


def is_old(a, b):
    if a is None:
        return False
    if any(a.get(f) != b.get(f) for f in OLD_FIELDS):
        return False
    return a["type"] == "link" or a["mtime_ns"] == b["mtime_ns"]


def judge_state(plan, before, after):
    """Old-or-new for every replaced pre-existing path + frame.  -> (violations, stats)"""
    out = []
    stats = {"old": 0, "new": 0, "both": 0, "judged": 0, "dirs": 0}
    for (p, t, L, P, st) in plan.entries:
        if P is None or P not in before or P in plan.aliased:
            continue
        b = before[P]
        a = after.get(P)
        if t == "dir":
            if b["type"] == "dir":
                stats["dirs"] += 1
                if a is None or a["type"] != "dir" or a["mode"] != b["mode"]:
                    out.append(("preexisting-dir-damaged", p, {"set_path": p, "phys": P, "before": ref._b(b), "after": ref._b(a)}))
            continue
        if b["type"] == "dir" or st != "ok":
            continue
        src = before["src/" + p]
        exp = ref.expected_new(src)
        exp.pop("rdev", None)
        diff_new = ref.matches(a, exp)
        old = is_old(a, b)
        stats["judged"] += 1
        if old and not diff_new:
            stats["both"] += 1
        elif old:
            stats["old"] += 1
        elif not diff_new:
            stats["new"] += 1
        else:
            diff_old = ["missing"] if a is None else \
                [f for f in OLD_FIELDS + ("mtime_ns",) if a.get(f) != b.get(f) and not (f == "mtime_ns" and a["type"] == "link")]
            out.append(("replaced-path-neither-old-nor-new", p,
                        {"set_path": p, "phys": P, "before": ref._b(b), "after": ref._b(a), "new": ref._b(dict(src)),
                         "differs_from_old": diff_old, "differs_from_new": diff_new}))
    for (rule, q, det) in ref.frame_violations(plan, before, after, new_siblings="ignore"):
        out.append((rule, q, det))
    return out, stats


def shape(scen, plan, before):
    s = []
    for (p, t, L, P, st) in plan.entries:
        b = before.get(P) if P else None
        s.append((t, b["type"] if b else "-", P != ("root/" + p)))
    return repr((scen.get("mode"), tuple(sorted(s))))


def usable(scen, tmpl_snap, W):
    """Scenario admission (reference side): no predicted clash, no aliasing, >= 1 replaced non-directory path."""
    plan = ref.Plan(W, tmpl_snap, _set_paths(scen))
    if plan.problems or plan.aliased:
        return None
    n = sum(1 for (p, t, L, P, st) in plan.entries if t != "dir" and P in tmpl_snap and tmpl_snap[P]["type"] != "dir")
    return plan if n else None


def enumerate_scenario(ctx, scen, base, only=None, record=True, max_ops=0):
    """Run the full crash-point enumeration of one scenario.  only = [(k, kind)] restricts it (replay)."""
    work = os.path.join(base, "work")
    restore(scen, work)
    snap0 = fssnap.snap(work)
    plan0 = usable(scen, snap0, work)
    if plan0 is None:
        ctx.count("scenarios_rejected_by_admission")
        return None
    fn = make_fn(scen, work)
    res = fault.run_injected(fn, "count", 0, roots=[work])
    if res.get("status") != "done" or not (res.get("result") or {}).get("ret"):
        ctx.count("scenarios_dry_run_failed")
        ctx.note("dry run did not complete: %s %s" % (res.get("status"), str(res.get("exc"))[:200]))
        if record:
            ctx.violation("dry-run", {"rule": "merge-fails-without-injection", "scen": scen, "status": res.get("status"),
                                      "exc": res.get("exc")})
        return None
    if res.get("audit_unnumbered"):
        ctx.count("scenarios_with_unnumbered_mutations")
        ctx.set_inconclusive("vt.fault did not number %d mutation(s) seen by the audit hook; ops=%r" % (
            res["audit_unnumbered"], res["ops"][:60]))
        return None
    ops = res["ops"]
    n = res["nops"]
    if max_ops and n > max_ops:
        ctx.count("scenarios_skipped_too_many_ops_for_tier")
        return None
    inside = new_windows(ops)
    shp = shape(scen, plan0, snap0)
    ctx.count("scenarios")
    ctx.count("operations_numbered", n)
    for k_, name, _d in ops:
        ctx.count("op:" + name)
    if ctx.want_sample():
        ctx.sample({"src": [(e["p"], e["t"]) for e in scen["src"]],
                    "pre": [(e["p"], e["t"]) for e in scen["pre"] if e["p"].startswith("root/")],
                    "mode": scen["mode"], "nops": n, "ops": [[k, nm, str(d)[:60]] for k, nm, d in ops[:40]]})
    complete = True
    todo = only
    if todo is None:
        todo = []
        for k in range(1, n + 1):
            for kind in fault.KINDS:
                if kind == "torn" and not fault.is_write_op(ops[k - 1]):
                    continue
                todo.append((k, kind))
    for (k, kind) in todo:
        if ctx.out_of_time(15):
            complete = False
            ctx.note("enumeration of a scenario cut short by the soft deadline")
            break
        if k > n:
            continue
        restore(scen, work)
        before = fssnap.snap(work)
        r = fault.run_injected(fn, kind, k, roots=[work])
        after = fssnap.snap(work)
        st = r.get("status")
        ctx.count("runs:" + kind)
        ctx.count("status:%s:%s" % (kind, st))
        if st in ("harness-error", "child-died"):
            ctx.set_inconclusive("injected run ended with %s: %r" % (st, r))
            complete = False
            continue
        if kind == "crash-after" and st in ("done", "raised") and not r.get("injected") and \
                [x[1:] for x in r.get("ops") or []] == [x[1:] for x in ops]:
            # vt.fault performs operation k and only then dies; when operation k itself raises (e.g. the probing
            # open(..., 'rb+') -> ENOENT, unlink_if_exists -> ENOENT) the exception leaves the interposer first and no
            # crash happens.  "Crash after a failed operation" is the same state as crash-before k+1, which is enumerated.
            ctx.count("crash-after_on_self-failing_op(=crash-before k+1)")
            continue
        if kind != "eio" and st != "crashed":
            # the operation stream changed between the dry run and this run
            ctx.set_inconclusive("operation %d was not reached in %s mode (status %s): non-deterministic operation stream" % (k, kind, st))
            complete = False
            continue
        if r.get("audit_unnumbered"):
            ctx.set_inconclusive("un-numbered mutation in an injected run: %r" % (r.get("ops") or [])[-5:])
        if kind == "eio":
            if st == "done":
                ctx.count("eio_swallowed_merge_reported_success")
                ctx.count("eio_swallowed_at:" + ops[k - 1][1])
            elif st == "raised":
                ctx.count("eio_surfaced_as:" + str(r.get("exc_type")))
        plan = ref.Plan(work, before, _set_paths(scen))
        viol, stats = judge_state(plan, before, after)
        ctx.evaluated()
        ctx.count("replaced_paths_judged", stats["judged"])
        ctx.count("state:old", stats["old"])
        ctx.count("state:new", stats["new"])
        ctx.count("state:old==new", stats["both"])
        ctx.count("preexisting_dirs_judged", stats["dirs"])
        if k in inside:
            ctx.count("points_inside_new_window")
            ctx.nontrivial(shp + "|%d|%s" % (k, kind))
        if record:
            seen_rules = set()
            for (rule, p, det) in viol:
                if rule in seen_rules:
                    continue
                seen_rules.add(rule)
                ctx.violation("crash-state", {"rule": rule, "path": p, "detail": det, "k": k, "fault": kind,
                                              "op": ops[k - 1], "ops_before": ops[max(0, k - 6):k - 1], "nops": n,
                                              "status": st, "exc": r.get("exc"), "scen": scen})
    if complete and only is None:
        ctx.count("scenarios_enumerated_completely")
    return {"nops": n, "ops": ops}


# ------------------------------------------------------------------------------------------ strace cross-check
SYS_PATH = ("rename", "renameat", "renameat2", "link", "linkat", "symlink", "symlinkat", "mkdir", "mkdirat", "mknod",
            "mknodat", "chmod", "fchmodat", "chown", "lchown", "fchownat", "utimensat", "utimes", "utime", "futimesat",
            "unlink", "unlinkat", "rmdir", "truncate")
SYS_FD = ("write", "pwrite64", "ftruncate", "fchmod", "fchown")
FAULT_PATH_OPS = ("rename", "replace", "link", "symlink", "mkdir", "mkfifo", "mknod", "chmod", "chown", "lchown", "utime",
                  "unlink", "remove", "rmdir", "truncate")
DRIVER = """import json, sys
from vt.props import C19
C19.make_fn(json.load(open(sys.argv[1])), sys.argv[2])()
"""


def _strace(args, log, script, scenfile, work):
    import subprocess
    cmd = ["strace", "-f", "-qq", "-s", "0", "-o", log] + args + ["/venv/bin/python", script, scenfile, work]
    env = dict(os.environ, PYTHONDONTWRITEBYTECODE="1")
    env["PYTHONPATH"] = os.pathsep.join(x for x in (env.get("PYTHONPATH"), os.path.dirname(os.path.dirname(
        os.path.dirname(os.path.abspath(__file__))))) if x)
    return subprocess.run(cmd, env=env, stdin=subprocess.DEVNULL, stdout=subprocess.DEVNULL, stderr=subprocess.DEVNULL,
                          timeout=300).returncode


def strace_crosscheck(ctx, scen, base, fault_ops):
    """Syscall-level cross-check (thorough tier): (1) every path-mutating syscall under the scenario directory must
    correspond to a numbered vt.fault operation (count comparison); (2) SIGKILL on entry of every mutating syscall
    (strace fault injection; per-syscall ordinal) and the same old-or-new judgement from the parent."""
    import json
    import re
    import shutil as sh

    if not sh.which("strace"):
        ctx.note("strace not available: syscall cross-check skipped")
        return
    work = os.path.join(base, "work")
    script = os.path.join(base, "strace_driver.py")
    scenfile = os.path.join(base, "strace_scen.json")
    log = os.path.join(base, "strace.log")
    with open(script, "w") as f:
        f.write(DRIVER)
    with open(scenfile, "w") as f:
        json.dump(scen, f)
    restore(scen, work)
    allsys = ",".join(SYS_PATH + SYS_FD + ("openat", "open", "creat"))
    rc = _strace(["-e", "trace=" + allsys], log, script, scenfile, work)
    if rc != 0:
        ctx.note("strace dry run exit status %r: syscall cross-check skipped" % rc)
        ctx.count("strace_dry_run_failed")
        return
    # strace -s 0 still prints path arguments in full; only string *buffers* are elided
    rx = re.compile(r"^(\d+)\s+(\w+)\((.*)$")
    ordinal = {}
    points = []          # (syscall, ordinal among that syscall, line)
    n_path = 0
    with open(log, errors="replace") as f:
        for line in f:
            m = rx.match(line)
            if not m:
                continue
            name, rest = m.group(2), m.group(3)
            ordinal[name] = ordinal.get(name, 0) + 1
            mutating = False
            if name in SYS_PATH:
                mutating = (work + "/") in rest
                n_path += mutating
            elif name in SYS_FD:
                mutating = name != "write" or not re.match(r"[12],", rest)
            elif name in ("openat", "open", "creat"):
                mutating = (work + "/") in rest and any(x in rest for x in ("O_WRONLY", "O_RDWR", "O_CREAT", "O_TRUNC"))
            if mutating:
                points.append((name, ordinal[name], line.strip()[:160]))
    n_fault = sum(1 for op in fault_ops if op[1] in FAULT_PATH_OPS)
    ctx.count("strace_path_syscalls", n_path)
    ctx.count("strace_fault_path_ops", n_fault)
    ctx.count("strace_mutating_syscalls", len(points))
    if n_path > n_fault:
        ctx.set_inconclusive("strace saw %d path-mutating syscalls under the scenario directory, vt.fault numbered only %d "
                             "operations of those kinds: %r" % (n_path, n_fault, [p[2] for p in points][:40]))
        return
    if n_path < n_fault:
        ctx.note("strace saw fewer path syscalls (%d) than vt.fault operations (%d)" % (n_path, n_fault))
    for (name, j, line) in points:
        if ctx.out_of_time(30):
            ctx.note("strace cross-check cut short by the soft deadline")
            break
        restore(scen, work)
        before = fssnap.snap(work)
        rc = _strace(["-e", "trace=" + name, "-e", "inject=%s:signal=SIGKILL:when=%d" % (name, j)], log, script, scenfile, work)
        after = fssnap.snap(work)
        ctx.count("strace_kill_runs")
        ctx.count("strace_kill_at:" + name)
        if rc == 0:
            ctx.count("strace_kill_not_delivered")
            continue
        plan = ref.Plan(work, before, _set_paths(scen))
        viol, stats = judge_state(plan, before, after)
        ctx.evaluated()
        ctx.count("replaced_paths_judged", stats["judged"])
        ctx.count("state:old", stats["old"])
        ctx.count("state:new", stats["new"])
        seen = set()
        for (rule, p, det) in viol:
            if rule not in seen:
                seen.add(rule)
                ctx.violation("crash-state-strace", {"rule": rule, "path": p, "detail": det, "syscall": name, "ordinal": j,
                                                     "line": line, "fault": "strace-sigkill", "scen": scen})


def _e(p, t, **kw):
    d = {"p": p, "t": t, "mode": 0o644, "uid": 0, "gid": 0, "mt": (gen.T0 + 1000) * 10**9}
    d.update(kw)
    return d


def core_scenario(i):
    """Four small hand-written scenarios (one per shard, round robin) so that every run enumerates the central
    replace patterns completely even on a slow machine; the random scenarios follow."""
    pre = [_e("outside", "dir", mode=0o755), _e("outside/ofile", "file", seed=900, size=64, mode=0o640, uid=2, gid=2),
           _e("root", "dir", mode=0o755)]
    i %= 4
    if i == 0:      # file over file: other size, mode, owner, mtime; and byte-identical data with other mode/owner/mtime
        src = [_e("f", "file", seed=1, size=5000, mode=0o4755, uid=1, gid=2),
               _e("same", "file", seed=20, size=1200, mode=0o600, uid=1, gid=2, mt=(gen.T0 + 2000) * 10**9)]
        pre += [_e("root/f", "file", seed=2, size=100, mode=0o600, uid=250, gid=250, mt=(gen.T0 + 5) * 10**9),
                _e("root/same", "file", seed=20, size=1200, mode=0o644, uid=250, gid=250, mt=(gen.T0 + 5) * 10**9)]
    elif i == 1:    # file over symlink, symlink over file
        #               + file over a DANGLING symlink whose (absolute) target lies outside the root
        src = [_e("a", "file", seed=3, size=300, mode=0o755, uid=1000, gid=1000), _e("b", "link", target="a", uid=1, gid=1),
               _e("c", "file", seed=21, size=900, mode=0o640, uid=2, gid=1)]
        pre += [_e("root/a", "link", target="@W@/outside/ofile"), _e("root/b", "file", seed=4, size=4096, mode=0o444),
                _e("root/c", "link", target="@W@/outside/missing", uid=250, gid=250)]
    elif i == 2:    # hard-link group over existing files, one of them hard-linked with an unrelated neighbour
        #               + symlink over a DANGLING symlink (relative target inside the root)
        src = [_e("h1", "file", seed=5, size=700, mode=0o711, uid=2, gid=1, hl=1), _e("h2", "file", seed=5, size=700, mode=0o711, uid=2, gid=1, hl=1),
               _e("s", "link", target="h1", uid=1, gid=2)]
        pre += [_e("outside/peer", "file", seed=6, size=50, hl="p"), _e("root/h1", "file", seed=7, size=10),
                _e("root/h2", "file", seed=6, size=50, hl="p"), _e("root/s", "link", target="gone/away", uid=250, gid=250)]
    else:           # through a symlinked directory; fifo over file
        #               + fifo over a DANGLING symlink (relative target inside the root)
        src = [_e("d", "dir", mode=0o750, uid=1, gid=1), _e("d/f", "file", seed=8, size=33000, mode=0o640, uid=1, gid=0),
               _e("d/p", "fifo", mode=0o600, uid=2, gid=2), _e("d/q", "fifo", mode=0o640, uid=1, gid=1)]
        pre += [_e("root/d.real", "dir", mode=0o711, uid=250, gid=250), _e("root/d", "link", target="d.real"),
                _e("root/d/f", "file", seed=9, size=40000, mode=0o600), _e("root/d/p", "file", seed=10, size=1),
                _e("root/d/q", "link", target="../nothing-here", uid=250, gid=250)]
    return {"src": src, "pre": pre, "mode": ["offset", "no-offset", "offset-slash", "offset"][i], "drop": [],
            "root_missing": False, "tags": ["core-%d" % i]}


def run(ctx):
    base = os.path.join(os.environ.get("VT_SCRATCH") or "/var/tmp/c19-manual", "c19")
    os.makedirs(base, exist_ok=True)
    # import the code under test before forking so that children are cheap and the interposer can rebind names
    from pkgcore.fs import contents, livefs, ops  # noqa: F401

    core = core_scenario(ctx.shard + ctx.seed)
    res = enumerate_scenario(ctx, core, base)
    if res is None:
        ctx.set_inconclusive("the hand-written core scenario was not admitted / did not run")
    elif not ctx.quick and ctx.shard < 4:
        strace_crosscheck(ctx, core, base, res["ops"])
    want = ctx.budget(1, 40)
    done = 0
    tries = 0
    while done < want and tries < want * 30:
        tries += 1
        total = (ctx.deadline - ctx.t0) if ctx.deadline is not None else 1e9
        if ctx.out_of_time(60) or (ctx.quick and ctx.time_left() < 0.7 * total):
            # quick tier on a slow/loaded machine: the hand-written scenario already used the time a whole quick run
            # is meant to take; random scenarios are extra coverage, never needed for the verdict
            ctx.note("stopped before starting a new scenario (time budget); %d random scenarios done" % done)
            break
        scen = gen.gen_scenario(ctx.rng, small=True, residue_p=0.0, alias_p=0.0, clash_ok=False, force_replace=True,
                                big_ok=(tries % 4 == 0))
        if scen.get("root_missing"):
            continue
        if enumerate_scenario(ctx, scen, base, max_ops=ctx.budget(40, 0)) is not None:
            done += 1
    ctx.count("random_scenarios", done)
    shutil.rmtree(base, ignore_errors=True)


def classify(w):
    return None


def replay(ctx, w):
    base = os.path.join(os.environ.get("VT_SCRATCH") or "/var/tmp/c19-manual", "c19replay")
    os.makedirs(base, exist_ok=True)
    from pkgcore.fs import contents, livefs, ops  # noqa: F401
    only = [(w["k"], w["fault"])] if "k" in w else None
    enumerate_scenario(ctx, w["scen"], base, only=only)
    shutil.rmtree(base, ignore_errors=True)
