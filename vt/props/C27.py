"""C27 Metadata cache entries (flat_hash.database / md5_cache) round-trip and are replaced atomically."""

import os
import random
import re
import shutil

from ..gen import c27_entries as gen
from ..ref import c27_cache_model as model

ID = "C27"
LEVEL = "exploration"
TECHNIQUE = "runtime monitoring of real cache objects against a reference entry model + crash/EIO enumeration of stores"
RULE = ("(a) random histories of store / overwrite / delete on real flat_hash.database and md5_cache objects in scratch "
        "directories (cpv keys with 0-2 category levels, metadata values with '=', tabs, unicode, empty strings, unknown "
        "keys, 0-6 eclasses with path+mtime or md5, custom auxdbkeys); after every operation a FRESH cache object must "
        "return the reference model's entry (known keys/values, eclass data, chf), `in`, and keys() must equal the "
        "model's key set; a reader that opened the old file before an overwrite must still read the complete old bytes. "
        "(b) crash part: for generated stores (first store creating the directory, overwrite of an existing entry; both "
        "layouts; first stores into a not yet existing category directory, into an existing one and into a cache whose "
        "location is missing) EVERY numbered filesystem operation of the store x {crash-before, crash-after, torn, eio} is run in a "
        "forked child (vt/fault.py); afterwards fresh objects must read the old or the new complete entry, all other "
        "entries unchanged, and keys() must list only real cpvs. Non-trivial = an entry with >=2 eclasses or a value "
        "containing '=' / non-ASCII / tab, an overwrite, or a crash run that died inside the store; distinct by "
        "(layout, cpv, spec) resp. (scenario, kind, k).")
ASSUMPTIONS = [
    "judged values are single-line strings without leading/trailing white space (the line-oriented file format strips "
    "line ends; the statement only speaks of single-line values); others are counted as unspecified",
    "eclass names/paths contain no tab or line break; mtimes are integers in [0, 2**40], md5 values fit 128 bits",
    "order of the eclass data is not judged; a key stored with an empty value may come back absent (dropping empty "
    "keys is a documented storage option, base.cleanse_keys, and what the md5-cache format does)",
    "crash = process death at a Python-level filesystem operation (no power-loss reordering); the EIO kind applies "
    "the same old-or-new / listing oracle after pkgcore's own error handling ran",
    "reference model vt/ref/c27_cache_model.py is written from the statement; LazilyHashedPath (snakeoil) only carries data",
]
SHARDS = {"quick": 4, "thorough": 16}
TIMEOUT = {"quick": 200, "thorough": 1100}
MIN_EVALS = 1000
REQUIRED_COUNTERS = ("roundtrip_reads", "listing_checks", "overwrites", "crash_points_enumerated", "crash_runs",
                     "crash_runs_died_in_store", "old_reader_checks")

KEY_LISTING_TEMP = "listing-shows-temp"


# ------------------------------------------------------------------------------------------------------------------
# driving the real cache
# ------------------------------------------------------------------------------------------------------------------
def make_cache(layout, root, auxdbkeys=None):
    from pkgcore.cache import flat_hash

    kw = {}
    if auxdbkeys is not None:
        kw["auxdbkeys"] = tuple(auxdbkeys)
    if layout == "flat":
        return flat_hash.database(root, **kw)
    return flat_hash.md5_cache(root, **kw)


def known_keys_of(cache, layout):
    return set(cache._known_keys) - {model.CHF_KEY[layout]}


def real_values(layout, spec):
    """Materialise a spec into the dict pkgcore's repository code hands to cache[cpv] = ..."""
    from snakeoil.chksum import LazilyHashedPath

    attr = "mtime" if layout == "flat" else "md5"
    d = dict(spec["values"])
    if spec.get("eclasses") is not None:
        d["_eclasses_"] = {n: LazilyHashedPath(p, **{attr: c}) for n, (p, c) in spec["eclasses"].items()}
    d["_chf_"] = LazilyHashedPath("/nonexistent/ebuild", **{attr: spec["chf"]})
    return d


def store(cache, layout, cpv, spec):
    cache[cpv] = real_values(layout, spec)


def unjudged_keys(spec):
    return sorted(k for k, v in spec["values"].items() if not model.is_plain_value(v))


def read_entry(layout, root, auxdbkeys, cpv):
    """Read through a fresh object. -> ("entry", canon) | ("absent", None) | ("error", repr)"""
    cache = make_cache(layout, root, auxdbkeys)
    try:
        d = cache[cpv]
    except KeyError as e:
        if cpv in make_cache(layout, root, auxdbkeys):
            # the entry exists but reading it fails (e.g. a partial file without its chf line)
            return "error", "KeyError: %s" % (str(e)[:200],)
        return "absent", None
    except Exception as e:  # CacheCorruption etc.: a reader that cannot get a complete entry
        return "error", "%s: %s" % (type(e).__name__, str(e)[:200])
    return "entry", model.canon_read(layout, d)


def list_keys(layout, root, auxdbkeys):
    return list(make_cache(layout, root, auxdbkeys).keys())


def matches(layout, spec, known, got):
    """Does the canonical read `got` equal the stored spec (restricted to judged keys)?"""
    exp = model.expected_entry(layout, spec, known)
    skip = set(unjudged_keys(spec))
    if skip:
        exp = dict(exp, values={k: v for k, v in exp["values"].items() if k not in skip})
        got = dict(got, values={k: v for k, v in got["values"].items() if k not in skip})
    return model.entries_equal(exp, got), exp, got


# ------------------------------------------------------------------------------------------------------------------
# (a) round trip histories
# ------------------------------------------------------------------------------------------------------------------
class _StubEclassDb:
    def rebuild_cache_entry(self, data):
        return data


def check_roundtrip(ctx, layout, root, auxdbkeys, cpv, spec, hist):
    cache = make_cache(layout, root, auxdbkeys)
    known = known_keys_of(cache, layout)
    kind, got = read_entry(layout, root, auxdbkeys, cpv)
    ctx.count("roundtrip_reads")
    ctx.evaluated()
    base = {"layout": layout, "auxdbkeys": auxdbkeys, "history": hist, "cpv": cpv, "spec": spec}
    if kind != "entry":
        ctx.violation("stored-entry-unreadable", dict(base, rule=kind, observed=got))
        return
    ok, exp, g = matches(layout, spec, known, got)
    for k in unjudged_keys(spec):
        ctx.skip_unspecified("value with leading/trailing white space or a line break (line-oriented format)")
    if not ok:
        diff = model.describe_diff(exp, g)
        rule = "eclasses" if any(x.startswith("eclass") for x in diff) else "chf" if any(x.startswith("chf") for x in diff) else "values"
        ctx.violation("roundtrip-mismatch", dict(base, rule=rule, expected=exp, observed=g, diff=diff))
    # the validation datum must be usable by validate_entry (same chf accepted, different chf rejected)
    if "INHERIT" in got["values"] or got["eclasses"] is None:
        from snakeoil.chksum import LazilyHashedPath

        attr = "mtime" if layout == "flat" else "md5"
        raw = dict(make_cache(layout, root, auxdbkeys)[cpv].items())
        same = cache.validate_entry(dict(raw), LazilyHashedPath("/nonexistent/ebuild", **{attr: spec["chf"]}), _StubEclassDb())
        other = cache.validate_entry(dict(raw), LazilyHashedPath("/nonexistent/ebuild", **{attr: spec["chf"] + 1}), _StubEclassDb())
        ctx.count("validate_entry_checks")
        ctx.evaluated()
        if same is not True or other is not False:
            ctx.violation("validation-datum-not-usable", dict(base, rule="validate_entry", same_chf=same, other_chf=other))
    nt = []
    if spec.get("eclasses") and len(spec["eclasses"]) >= 2:
        nt.append("multi-eclass")
    if any(("=" in v or "\t" in v or not v.isascii()) for v in spec["values"].values()):
        nt.append("hostile-value")
    if nt:
        ctx.nontrivial(("rt", layout, cpv, spec))
        for t in nt:
            ctx.count("nontrivial:" + t)


def check_listing(ctx, layout, root, auxdbkeys, model_keys, hist):
    ks = list_keys(layout, root, auxdbkeys)
    ctx.count("listing_checks")
    ctx.evaluated()
    extra = sorted(set(ks) - set(model_keys))
    missing = sorted(set(model_keys) - set(ks))
    dups = sorted(k for k in set(ks) if ks.count(k) > 1)
    if extra or missing or dups:
        ctx.violation("listing-differs-from-stored-keys", {
            "layout": layout, "auxdbkeys": auxdbkeys, "history": hist, "rule": "extra" if extra else "missing" if missing else "dup",
            "extra": extra, "missing": missing, "duplicates": dups})
    cache = make_cache(layout, root, auxdbkeys)
    for k in model_keys:
        if k not in cache:
            ctx.violation("stored-key-not-contained", {"layout": layout, "auxdbkeys": auxdbkeys, "history": hist, "cpv": k})
            break


def run_history(ctx, rng, layout, root, nops, replay_ops=None):
    """Random (or replayed) history on one cache directory. History items: ["store", cpv, spec] | ["del", cpv]."""
    auxdbkeys = None
    if replay_ops is None and rng.random() < 0.25:
        auxdbkeys = sorted(rng.sample(list(model.DEFAULT_KEYS), rng.randrange(3, 12)) + (["_eclasses_"] if rng.random() < 0.7 else []))
        auxdbkeys = sorted(set(auxdbkeys))
    if replay_ops is not None:
        auxdbkeys = replay_ops.get("auxdbkeys")
        ops_iter = replay_ops["history"]
        nops = len(ops_iter)
    os.makedirs(root, exist_ok=True)
    state = {}
    ever = set()  # every key ever used: directories of deleted entries stay behind and must not collide with new keys
    hist = []
    keys_for_gen = tuple(auxdbkeys) if auxdbkeys is not None else model.DEFAULT_KEYS
    for i in range(nops):
        if replay_ops is not None:
            op = ops_iter[i]
        else:
            r = rng.random()
            if state and r < 0.30:
                cpv = rng.choice(sorted(state))
                op = ["store", cpv, gen.entry_spec(rng, layout, keys_for_gen)]
            elif state and r < 0.42:
                op = ["del", rng.choice(sorted(state))]
            else:
                op = ["store", gen.fresh_key(rng, ever), gen.entry_spec(rng, layout, keys_for_gen)]
        hist.append(op)
        ever.add(op[1])
        cache = make_cache(layout, root, auxdbkeys)
        if op[0] == "store":
            _, cpv, spec = op
            overwrite = cpv in state
            old_fd = old_bytes = None
            if overwrite:
                ctx.count("overwrites")
                path = os.path.join(cache.location, cpv)
                try:
                    old_fd = os.open(path, os.O_RDONLY)
                    old_bytes = os.pread(old_fd, 1 << 22, 0)
                except OSError:
                    old_fd = None
            try:
                store(cache, layout, cpv, spec)
            except Exception as e:
                ctx.violation("store-raised", {"layout": layout, "auxdbkeys": auxdbkeys, "history": hist,
                                               "rule": type(e).__name__, "exc": repr(e)[:300]})
                if old_fd is not None:
                    os.close(old_fd)
                continue
            ctx.count("stores:" + layout)
            state[cpv] = spec
            if old_fd is not None:
                # a reader that opened the entry before the overwrite keeps seeing the complete old entry
                now = os.pread(old_fd, 1 << 22, 0)
                os.close(old_fd)
                ctx.count("old_reader_checks")
                ctx.evaluated()
                if now != old_bytes:
                    ctx.violation("old-reader-sees-modified-file", {
                        "layout": layout, "auxdbkeys": auxdbkeys, "history": hist, "rule": "entry rewritten in place",
                        "old_bytes": old_bytes.decode("utf-8", "replace")[:400], "seen_after": now.decode("utf-8", "replace")[:400]})
                ctx.nontrivial(("ow", layout, cpv, spec))
            check_roundtrip(ctx, layout, root, auxdbkeys, cpv, spec, list(hist))
            if ctx.want_sample():
                try:
                    with open(os.path.join(cache.location, cpv), encoding="utf-8", errors="replace") as f:
                        ctx.sample({"layout": layout, "cpv": cpv, "spec": spec, "file": f.read()[:400]})
                except OSError:
                    pass
        else:
            cpv = op[1]
            try:
                del cache[cpv]
            except Exception as e:
                ctx.violation("delete-raised", {"layout": layout, "auxdbkeys": auxdbkeys, "history": hist, "exc": repr(e)[:300]})
                continue
            ctx.count("deletes")
            state.pop(cpv, None)
            kind, got = read_entry(layout, root, auxdbkeys, cpv)
            ctx.evaluated()
            if kind != "absent" or cpv in make_cache(layout, root, auxdbkeys):
                ctx.violation("deleted-entry-still-readable", {"layout": layout, "auxdbkeys": auxdbkeys, "history": hist,
                                                               "cpv": cpv, "observed": [kind, got]})
        if i % 4 == 3 or i == nops - 1 or replay_ops is not None:
            check_listing(ctx, layout, root, auxdbkeys, sorted(state), list(hist))
        # every few steps re-read an older entry (no store may disturb its neighbours)
        if state and i % 5 == 4:
            cpv = rng.choice(sorted(state))
            kind, got = read_entry(layout, root, auxdbkeys, cpv)
            ctx.evaluated()
            ctx.count("neighbour_rereads")
            known = known_keys_of(cache, layout)
            if kind != "entry" or not matches(layout, state[cpv], known, got)[0]:
                ctx.violation("older-entry-changed", {"layout": layout, "auxdbkeys": auxdbkeys, "history": hist, "cpv": cpv,
                                                      "observed": [kind, got]})
    return state


# ------------------------------------------------------------------------------------------------------------------
# (b) crash / EIO enumeration of a store
# ------------------------------------------------------------------------------------------------------------------
FIRST_VARIANTS = ("new-category", "existing-category", "missing-location", "any")


def gen_scenario(rng, layout, first, tiny=False, variant="any"):
    """-> {"layout","pre": {cpv: spec}, "cpv", "spec", "first": bool, "variant"}; small entries keep the operation count
    moderate.  First-store variants: "new-category" (the category directory does not exist yet: pkgcore's
    mkdir-and-retry branch), "existing-category", "missing-location" (empty cache whose location directory itself is
    missing; md5-cache layout), "any" (random key)."""
    pre = {}
    if not (first and variant == "missing-location"):
        for _ in range(rng.randrange(1, 4)):
            pre[gen.fresh_key(rng, pre)] = gen.entry_spec(rng, layout, small=True)
    if first:
        cpv = None
        if variant in ("new-category", "missing-location"):
            for _ in range(100):
                cat = rng.choice(["newcat", "zz-new", "app-new"]) + gen.name_token(rng, 1, 3)
                cand = (cat + "/" if (variant == "new-category" or rng.random() < 0.5) else "") + gen.name_token(rng).rstrip("-") + "-7"
                if not any(model.keys_conflict(cand, e) or e.startswith(cat + "/") for e in pre):
                    cpv = cand
                    break
        elif variant == "existing-category":
            deep = sorted(k for k in pre if "/" in k)
            if deep:
                cand = deep[0].rsplit("/", 1)[0] + "/" + gen.name_token(rng).rstrip("-") + "-7"
                if not any(model.keys_conflict(cand, e) for e in pre):
                    cpv = cand
        if cpv is None:
            cpv = gen.fresh_key(rng, pre)
    else:
        cpv = rng.choice(sorted(pre))
    spec = gen.entry_spec(rng, layout, small=True, tiny=tiny)
    if not first and spec == pre[cpv]:
        spec = dict(spec, chf=spec["chf"] + 1)
    return {"layout": layout, "pre": pre, "cpv": cpv, "spec": spec, "first": first, "variant": variant if first else "overwrite"}


# scenario plan, cycled: (layout, first, variant)
SCENARIO_PLAN = (
    ("flat", True, "new-category"), ("md5", False, None), ("md5", True, "missing-location"), ("flat", False, None),
    ("md5", True, "new-category"), ("flat", True, "existing-category"), ("md5", True, "existing-category"), ("flat", True, "any"),
)


def build_template(sc, tdir):
    shutil.rmtree(tdir, ignore_errors=True)
    os.makedirs(tdir)
    cache = make_cache(sc["layout"], tdir)
    for cpv, spec in sorted(sc["pre"].items()):
        store(cache, sc["layout"], cpv, spec)


def restore(tdir, wdir):
    shutil.rmtree(wdir, ignore_errors=True)
    shutil.copytree(tdir, wdir, symlinks=True)


def injected_store(sc, wdir, mode, k):
    from .. import fault

    layout, cpv, spec = sc["layout"], sc["cpv"], sc["spec"]

    def fn():
        cache = make_cache(layout, wdir)
        store(cache, layout, cpv, spec)
        return True

    return fault.run_injected(fn, mode, k, roots=[wdir], timeout=60)


def mask_pid(s):
    return re.sub(r"\.update\.\d+\.", ".update.<pid>.", s)


def judge_after(ctx, sc, wdir, mode, k, res, ops):
    """Judge the directory left behind by one injected run, from the parent, with fresh objects."""
    layout, cpv, spec, pre = sc["layout"], sc["cpv"], sc["spec"], sc["pre"]
    known = set(model.DEFAULT_KEYS)
    op = ops[k - 1] if 0 < k <= len(ops) else None
    base = {"scenario": sc, "mode": mode, "k": k, "nops": len(ops), "status": res.get("status"),
            "op": [op[1], mask_pid(str(op[2]))] if op else None,
            "ops": [[o[1], mask_pid(str(o[2]))] for o in ops if o[1] != "write"][:20]}
    completed = res.get("status") == "done"
    kind, got = read_entry(layout, wdir, None, cpv)
    ctx.evaluated()
    is_new = kind == "entry" and matches(layout, spec, known, got)[0]
    is_old = (kind == "absent" and cpv not in pre) or (kind == "entry" and cpv in pre and matches(layout, pre[cpv], known, got)[0])
    ctx.count("after_run:" + ("new" if is_new else "old" if is_old else "neither"))
    if completed and not is_new:
        ctx.violation("completed-store-not-visible", dict(base, rule=kind, observed=got))
    elif not (is_old or is_new):
        ctx.violation("entry-neither-old-nor-new", dict(base, rule=kind, observed=got,
                                                        old=model.expected_entry(layout, pre[cpv], known) if cpv in pre else None,
                                                        new=model.expected_entry(layout, spec, known)))
    # listing: only real cpvs, nothing lost
    try:
        ks = list_keys(layout, wdir, None)
    except Exception as e:
        ctx.violation("listing-raised-after-crash", dict(base, rule=type(e).__name__, exc=repr(e)[:300]))
        ks = None
    ctx.evaluated()
    if ks is not None:
        real = set(pre) | {cpv}
        extra = sorted(set(ks) - real)
        must = set(pre) | ({cpv} if completed else set())
        missing = sorted(must - set(ks))
        if extra:
            ctx.violation("listing-reports-non-package", dict(base, rule="extra", extra=[mask_pid(x) for x in extra],
                                                              extra_raw=extra, stored_cpv=cpv))
        if missing:
            ctx.violation("listing-lost-entry", dict(base, rule="missing", missing=missing))
    # neighbours untouched
    for other, ospec in sorted(pre.items()):
        if other == cpv:
            continue
        okind, ogot = read_entry(layout, wdir, None, other)
        ctx.evaluated()
        if okind != "entry" or not matches(layout, ospec, known, ogot)[0]:
            ctx.violation("neighbour-entry-damaged", dict(base, rule=okind, other=other, observed=ogot))


def enumerate_scenario(ctx, sc, sc_id, tag, only=None, split=True, reserve=20, phase=None):
    """Dry-run for N, then every k x kind (split over the shards by run index).  `only` = [(mode, k)] for replay.

    phase: None = all runs; "structural" = the operations other than the per-character writes (open, mkdir, close, chown,
    chmod, rename ...), "writes" = the write operations.  The workload runs the structural phase of every scenario before
    any write phase, so that a starved run still covers every structurally different crash point."""
    from .. import fault

    scratch = os.environ.get("VT_SCRATCH") or "/var/tmp"
    tdir = os.path.join(scratch, "c27_tpl_%s" % tag)
    wdir = os.path.join(scratch, "c27_work_%s" % tag)
    try:
        build_template(sc, tdir)
    except Exception as e:
        ctx.violation("store-raised", {"scenario": sc, "rule": type(e).__name__, "exc": repr(e)[:300]})
        return None
    restore(tdir, wdir)
    dry = injected_store(sc, wdir, "count", 0)
    if dry.get("status") == "raised":
        ctx.violation("store-raised", {"scenario": sc, "rule": str(dry.get("exc_type")), "exc": dry.get("exc")})
        return None
    if dry.get("status") != "done" or dry.get("audit_unnumbered"):
        ctx.set_inconclusive("C27 dry run of scenario %s: status=%s audit_unnumbered=%s exc=%s" % (
            sc_id, dry.get("status"), dry.get("audit_unnumbered"), dry.get("exc") or dry.get("tb")))
        return None
    ops = dry["ops"]
    n = dry["nops"]
    if only is None and phase != "writes":
        # counted once per scenario (shard 0); the completed dry run itself is a data point too
        if not split or ctx.shard == 0:
            ctx.count("crash_scenarios")
            ctx.count("crash_scenario:%s:%s" % (sc["layout"], "first-store:" + str(sc.get("variant", "any")) if sc["first"] else "overwrite"))
            ctx.count("crash_ops_structural", sum(1 for o in ops if not fault.is_write_op(o)))
            ctx.count("crash_points_enumerated", n)
            judge_after(ctx, sc, wdir, "count", 0, dry, ops)
    runs = only if only is not None else [(mode, k) for k in range(1, n + 1) for mode in fault.KINDS
                                         if mode != "torn" or fault.is_write_op(ops[k - 1])]
    if only is None and phase is not None:
        runs = [(mode, k) for mode, k in runs if fault.is_write_op(ops[k - 1]) == (phase == "writes")]
    for idx, (mode, k) in enumerate(runs):
        if only is None and split and idx % ctx.nshards != ctx.shard:
            continue
        if ctx.out_of_time(reserve):
            ctx.note("crash enumeration stopped early by the soft deadline")
            ctx.count("crash_enumeration_cut_short")
            break
        restore(tdir, wdir)
        res = injected_store(sc, wdir, mode, k)
        ctx.count("crash_runs")
        ctx.count("crash_runs:" + mode)
        ctx.count("crash_runs_at:" + ("write" if fault.is_write_op(ops[k - 1]) else "structural") if 0 < k <= len(ops) else "crash_runs_at:other")
        ctx.count("run_status:" + str(res.get("status")))
        if res.get("status") in ("child-died", "harness-error"):
            ctx.set_inconclusive("C27 injected run %s/%s/%d: %s %s" % (sc_id, mode, k, res.get("status"), res.get("tb") or res.get("raw")))
            continue
        if res.get("audit_unnumbered"):
            ctx.set_inconclusive("C27 un-numbered mutation seen by the audit hook in %s/%s/%d" % (sc_id, mode, k))
            continue
        if res.get("status") in ("crashed", "raised"):
            ctx.count("crash_runs_died_in_store")
            ctx.nontrivial(("crash", sc_id, mode, k))
        judge_after(ctx, sc, wdir, mode, k, res, res.get("ops") or ops)
    shutil.rmtree(tdir, ignore_errors=True)
    shutil.rmtree(wdir, ignore_errors=True)
    return ops


# ------------------------------------------------------------------------------------------------------------------
def run(ctx):
    rng = ctx.rng
    scratch = os.environ.get("VT_SCRATCH") or "/var/tmp"
    try:
        from pkgcore.ebuild.const import metadata_keys

        if set(metadata_keys) != set(model.DEFAULT_KEYS):
            ctx.note("pkgcore metadata_keys differ from the reference list: %r" % (sorted(set(metadata_keys) ^ set(model.DEFAULT_KEYS)),))
    except Exception as e:
        ctx.note("could not import metadata_keys: %r" % (e,))

    _preimport()
    nhist = ctx.budget(10, 60)
    done = 0

    def histories(n):
        nonlocal done
        for _ in range(n):
            if done >= nhist or ctx.out_of_time(30):
                return
            layout = model.LAYOUTS[done % 2]
            root = os.path.join(scratch, "c27_hist_%d" % done)
            run_history(ctx, rng, layout, root, ctx.budget(28, 40))
            shutil.rmtree(root, ignore_errors=True)
            done += 1

    # (a) one history first (every monitor reached even on a starved machine) ...
    histories(1)
    # (b) ... then the crash enumeration.  Scenarios are the same in every shard (seeded from VERIF_SEED only); the
    # (k, kind) runs are split over the shards.  First the structural operations of EVERY scenario (first stores into a
    # new category directory / a missing location come first), then the per-character write operations.
    nsc = ctx.budget(4, 40)
    total = min(ctx.time_left(), 1e6)
    reserve = 0.4 * total if total < 1e6 else 20
    scenarios = []
    for i in range(nsc):
        srng = random.Random(ctx.seed * 7919 + i)
        layout, first, variant = SCENARIO_PLAN[i % len(SCENARIO_PLAN)]
        scenarios.append(gen_scenario(srng, layout, first, tiny=ctx.quick, variant=variant or "any"))
    if ctx.shard == 0:
        ctx.sample({"crash_scenario": scenarios[0]})
    for i, sc in enumerate(scenarios):
        enumerate_scenario(ctx, sc, "s%d" % i, "s%d" % i, reserve=min(reserve, 30), phase="structural")
        if ctx.out_of_time(min(reserve, 30)):
            break
    histories(1)
    for i, sc in enumerate(scenarios):
        if ctx.out_of_time(reserve):
            break
        enumerate_scenario(ctx, sc, "s%d" % i, "s%dw" % i, reserve=reserve, phase="writes")
    # (a) ... then the remaining histories
    histories(nhist)


def _preimport():
    # modules vt/fault.py imports inside every child: import them once here instead
    import subprocess  # noqa: F401

    try:
        import snakeoil.process.spawn  # noqa: F401
    except ImportError:
        pass
    import pkgcore.cache.flat_hash  # noqa: F401
    import snakeoil.chksum  # noqa: F401


def classify(w):
    """listing-shows-temp: after an interrupted store keys() reports the store's own `.update.<pid>.<name>` temp file
    (same directory as the entry being stored) as a package -- and nothing else is wrong with the listing."""
    if w.get("kind") != "listing-reports-non-package":
        return None
    cpv = w.get("stored_cpv") or ""
    d, _, name = cpv.rpartition("/")
    want = (d + "/" if d else "") + ".update.<pid>." + name
    extra = w.get("extra") or []
    if extra and all(x == want for x in extra) and w.get("status") in ("crashed", "raised"):
        return KEY_LISTING_TEMP
    return None


def replay(ctx, w):
    _preimport()
    if "scenario" in w:
        sc = w["scenario"]
        mode = w.get("mode", "crash-before")
        k = w.get("k")
        if k is None:
            # pinned by operation name, robust against renumbering: first operation called w["at_op"]
            from .. import fault  # noqa: F401

            scratch = os.environ.get("VT_SCRATCH") or "/var/tmp"
            tdir = os.path.join(scratch, "c27_tpl_probe")
            wdir = os.path.join(scratch, "c27_work_probe")
            build_template(sc, tdir)
            restore(tdir, wdir)
            dry = injected_store(sc, wdir, "count", 0)
            shutil.rmtree(tdir, ignore_errors=True)
            shutil.rmtree(wdir, ignore_errors=True)
            ks = [o[0] for o in dry.get("ops", []) if o[1] == w.get("at_op", "rename")]
            if not ks:
                ctx.note("replay: no operation named %r in the store any more" % (w.get("at_op"),))
                return
            k = ks[0]
        enumerate_scenario(ctx, sc, "replay", "replay", only=[(mode, int(k))], split=False)
    elif "history" in w:
        scratch = os.environ.get("VT_SCRATCH") or "/var/tmp"
        root = os.path.join(scratch, "c27_replay_hist")
        shutil.rmtree(root, ignore_errors=True)
        run_history(ctx, random.Random(0), w["layout"], root, 0, replay_ops={"auxdbkeys": w.get("auxdbkeys"), "history": w["history"]})
        shutil.rmtree(root, ignore_errors=True)
