"""C10 REQUIRED_USE solving is sound, complete and preference-first."""

from ..gen import c10_requse as G
from ..ref import c09_depmodel as M
from ..ref import c10_requse as R

ID = "C10"
LEVEL = "exploration"
TECHNIQUE = "brute-force SAT enumeration against the parsed constraint"
RULE = ("random REQUIRED_USE trees (||, ^^, ??, flag?, !flag?, ( ), negated leaves, nesting <=3, <=6 leaves) over a universe "
        "of <=5 flags, parsed by the real ebuild_src.required_use code; for EVERY IUSE subset of the universe, random "
        "disjoint forced-on/forced-off sets and a random preferred set; list(find_constraint_satisfaction(...)) is compared "
        "with the brute-force set of satisfying assignments computed by an independent walker over the parsed restriction "
        "objects. A problem is non-trivial when the constraint prunes some but not all of the >=2 candidate assignments; "
        "distinct = distinct (text, IUSE, forced-on, forced-off, preferred).")
ASSUMPTIONS = [
    "the constraint handed to the solver is the parsed restriction structure; its meaning is read by an independent walker "
    "(flag / !flag leaves, all-of, any-of, exactly-one, at-most-one, use-conditional) and cross-checked against the meaning "
    "of the text (except where the parser reduces a single-member ?? group to its member)",
    "a use-conditional with unmet condition that is a member of an any-of/^^/?? group is read as a satisfied member "
    "(implication); where the Portage (vanishing) or PMS-literal reading gives a different solution set the solver may "
    "match any one of the three, consistently for the problem",
    "forced-on and forced-off sets are disjoint; forced-on flags outside IUSE are not judged (the statement asks for both "
    "on and off)",
    "an assignment is identified by its set of enabled flags; every IUSE flag must be present in every produced mapping",
]
SHARDS = {"quick": 4, "thorough": 16}
TIMEOUT = {"quick": 240, "thorough": 1800}
MIN_EVALS = 20000
REQUIRED_COUNTERS = ("problems", "preferred_satisfying_checked", "solutions_checked", "problems_with_non_iuse_flags",
                     "problems_with_forced")


class Impl:
    def __init__(self):
        from pkgcore.ebuild.eapi import get_eapi
        from pkgcore.ebuild.ebuild_src import base as ebuild
        from pkgcore.restrictions import boolean, packages, required_use, values

        self.eapi = get_eapi("8", suppress_unsupported=True)
        self.ebuild = ebuild
        self.required_use = required_use
        self.boolean, self.packages, self.values = boolean, packages, values

    def parse(self, text):
        o = self.ebuild(None, "dev-util/diffball-0.1-r1")
        object.__setattr__(o, "eapi", self.eapi)
        object.__setattr__(o, "data", {"REQUIRED_USE": text})
        return o.required_use

    def to_ast(self, node):
        """Independent reading of the parsed objects (attribute reads only)."""
        b = self.boolean
        if isinstance(node, self.values.ContainmentMatch):
            if len(node.vals) != 1 or node.all:
                raise ValueError("unexpected ContainmentMatch %r" % (node,))
            (f,) = node.vals
            return ["tok", ("!" if node.negate else "") + f]
        if isinstance(node, self.packages.Conditional):
            r = node.restriction
            if not isinstance(r, self.values.ContainmentMatch) or len(r.vals) != 1 or r.all or node.negate:
                raise ValueError("unexpected Conditional %r" % (node,))
            (f,) = r.vals
            return ["cond", f, bool(r.negate), [self.to_ast(c) for c in node.payload]]
        if isinstance(node, b.base):
            ch = [self.to_ast(c) for c in node.restrictions]
            if isinstance(node, b.OrRestriction):
                n = ["any", ch]
            elif isinstance(node, b.AndRestriction):
                n = ["all", ch]
            elif isinstance(node, b.JustOneRestriction):
                n = ["xor", ch]
            elif isinstance(node, b.AtMostOneOfRestriction):
                n = ["amo", ch]
            else:
                raise ValueError("unknown boolean node %r" % (node,))
            return ["not", n] if node.negate else n
        raise ValueError("unknown node %r" % (node,))

    def solve(self, restricts, iuse, ft, ff, pt):
        return self.required_use.find_constraint_satisfaction(restricts, iuse, ft, ff, pt)


def _on(sol):
    return frozenset(k for k, v in sol.items() if v)


def _fmt(sets):
    return [sorted(s) for s in sets]


class Checker:
    def __init__(self, ctx):
        self.ctx = ctx
        self.impl = Impl()
        self._parsed = {}

    def parsed(self, text):
        p = self._parsed.get(text)
        if p is None:
            restricts = self.impl.parse(text)
            oast = [self.impl.to_ast(n) for n in restricts.restrictions]
            p = (restricts, oast)
            if len(self._parsed) > 2000:
                self._parsed.clear()
            self._parsed[text] = p
        return p

    def check_problem(self, text, iuse, ft, ff, pt, tast=None, container=tuple):
        ctx, impl = self.ctx, self.impl
        restricts, oast = self.parsed(text)
        iuse = set(iuse)
        wit = {"required_use": text, "iuse": sorted(iuse), "force_true": sorted(ft), "force_false": sorted(ff),
               "prefer_true": sorted(pt), "parsed_as": M.render(oast) if not _has_not(oast) else repr(oast)}
        ctx.count("problems")
        V = iuse | R.mentioned(oast)
        if V - iuse:
            ctx.count("problems_with_non_iuse_flags")
        if ft or ff:
            ctx.count("problems_with_forced")
        try:
            it = impl.solve(restricts, set(iuse), container(ft), container(ff), container(pt))
            sols = list(it)
        except Exception as e:
            ctx.evaluated()
            ctx.violation("solver-raises", dict(wit, exc=repr(e)[:300]))
            return
        ctx.evaluated(1 + len(sols))
        ctx.count("solutions_checked", len(sols))
        # -- shape of every produced mapping
        for s in sols:
            if not isinstance(s, dict) or not all(isinstance(v, bool) for v in s.values()):
                ctx.violation("assignment-not-a-flag-to-bool-mapping", dict(wit, solution=repr(s)[:200]))
                return
            if not iuse <= set(s):
                ctx.violation("assignment-misses-iuse-flag", dict(wit, solution=sorted(s), missing=sorted(iuse - set(s))))
                return
        ons = [_on(s) for s in sols]
        wit["impl"] = _fmt(ons[:40])
        wit["impl_count"] = len(ons)
        # -- side conditions (independent of how the constraint is read)
        for on in ons:
            bad_off = sorted((set(ft) & iuse) - on)
            if bad_off:
                ctx.violation("forced-on-flag-off", dict(wit, solution=sorted(on), flags=bad_off))
                break
        for on in ons:
            bad_on = sorted(on & set(ff))
            if bad_on:
                ctx.violation("forced-off-flag-on", dict(wit, solution=sorted(on), flags=bad_on))
                break
        for on in ons:
            bad_on = sorted(on - iuse)
            if bad_on:
                ctx.violation("flag-outside-iuse-on", dict(wit, solution=sorted(on), flags=bad_on))
                break
        if len(set(ons)) != len(ons):
            dup = sorted(next(o for o in ons if ons.count(o) > 1))
            ctx.violation("duplicate-solution", dict(wit, duplicate=dup))
        # -- the satisfying set, per reading of the constraint
        exp = {r: R.expected(oast, V, iuse, ft, ff, r) for r in R.READINGS}
        primary = exp["implication"]
        cands = list(R.candidates(V, iuse, ft, ff))
        if len(cands) >= 2 and 0 < len(primary) < len(cands):
            ctx.nontrivial("%s|%s|%s|%s|%s" % (text, sorted(iuse), sorted(ft), sorted(ff), sorted(pt)))
        divergent = any(exp[r] != primary for r in R.READINGS)
        got = set(ons)
        reading = None
        for r in R.READINGS:
            if got == exp[r]:
                reading = r
                break
        if divergent:
            ctx.skip_unspecified("unmet use-conditional inside any-of/^^/??: implication, vanishing and PMS-literal readings "
                                 "give different solution sets (solver may match any one)")
            ctx.count("divergent_matched:%s" % reading)
        if reading is None:
            w = dict(wit, expected=_fmt(sorted(primary, key=sorted)), readings_diverge=divergent)
            unsound = sorted(got - primary, key=sorted)
            missing = sorted(primary - got, key=sorted)
            if unsound:
                ctx.violation("produced-assignment-does-not-satisfy", dict(w, offending=_fmt(unsound[:5]),
                                                                            rule=_shape(oast)))
            if missing:
                ctx.violation("satisfying-assignment-not-produced", dict(w, missing=_fmt(missing[:5]), rule=_shape(oast)))
            return
        # -- preference-first
        pref = R.preferred(iuse, ft, ff, pt)
        if pref in exp[reading]:
            ctx.count("preferred_satisfying_checked")
            ctx.evaluated()
            if len(exp[reading]) >= 2:
                ctx.nontrivial("pref|%s|%s|%s|%s|%s" % (text, sorted(iuse), sorted(ft), sorted(ff), sorted(pt)))
            if not ons or ons[0] != pref:
                ctx.violation("preferred-assignment-not-first", dict(wit, preferred=sorted(pref),
                                                                      first=sorted(ons[0]) if ons else None,
                                                                      position=ons.index(pref) if pref in ons else None))
            else:
                # a consumer that stops after the first solution gets the same one
                try:
                    first = _on(next(iter(impl.solve(restricts, set(iuse), container(ft), container(ff), container(pt)))))
                except Exception as e:
                    ctx.violation("solver-raises", dict(wit, exc=repr(e)[:300], phase="first-only"))
                else:
                    if first != pref:
                        ctx.violation("preferred-assignment-not-first", dict(wit, preferred=sorted(pref),
                                                                              first=sorted(first), phase="first-only"))
        else:
            ctx.count("preferred_not_satisfying")
        # -- the meaning of the parsed structure vs the meaning of the text
        if tast is not None:
            if M.has_single_amo(tast):
                ctx.skip_unspecified("single-member ?? group is reduced to its member by the parser (text meaning not compared)")
            else:
                ctx.evaluated()
                ctx.count("text_vs_parsed_compared")
                texp = R.expected(tast, V | R.mentioned(tast), iuse, ft, ff, "implication")
                if texp != primary or R.mentioned(tast) != R.mentioned(oast):
                    ctx.violation("parsed-constraint-differs-from-text",
                                  dict(wit, text_solutions=_fmt(sorted(texp, key=sorted)),
                                       parsed_solutions=_fmt(sorted(primary, key=sorted))))


def _has_not(nodes):
    for n in nodes:
        if n[0] == "not":
            return True
        if n[0] == "cond" and _has_not(n[3]):
            return True
        if n[0] in ("all", "any", "xor", "amo") and _has_not(n[1]):
            return True
    return False


def _shape(nodes):
    """coarse label of the most specific operator in the tree (for grouping reports)"""
    ks = set()

    def walk(ns):
        for n in ns:
            if n[0] == "tok":
                continue
            ks.add(n[0])
            walk(n[3] if n[0] == "cond" else ([n[1]] if n[0] == "not" else n[1]))

    walk(nodes)
    for k in ("not", "amo", "xor", "cond", "any", "all"):
        if k in ks:
            return k
    return "leaves"


CONTAINERS = [tuple, list, set, frozenset]


def run(ctx):
    ck = Checker(ctx)
    rng = ctx.rng
    ntrees = ctx.budget(1500, 12000)
    for i in range(ntrees):
        k = rng.choice([1, 2, 3, 3, 4, 4, 5, 5])
        universe = rng.sample(G.FLAGS, k)
        if rng.random() < 0.03:
            tast, text = [], ""
        else:
            tast = G.gen_tree(rng, universe, max_depth=rng.choice([1, 2, 3, 3]), max_leaves=6)
            text = M.render(tast)
            if M.parse(text, "requse") != tast:
                ctx.set_inconclusive("reference parser does not invert the renderer on %r" % text)
                return
        try:
            ck.parsed(text)
        except Exception as e:
            ctx.violation("valid-required-use-does-not-parse", {"required_use": text, "exc": repr(e)[:300]})
            continue
        if i < 3:
            ctx.sample({"required_use": text, "universe": sorted(universe)})
        for iuse in M.subsets(sorted(universe)):
            for rep in range(2 if len(universe) <= 3 else 1):
                mode = rng.random()
                if mode < 0.3:
                    ft, ff = [], []
                else:
                    ft = G.subset(rng, sorted(iuse), 0.25)
                    ff = [f for f in G.subset(rng, sorted(universe), 0.25) if f not in ft]
                pt = G.subset(rng, sorted(universe), rng.choice([0.0, 0.3, 0.6]))
                ck.check_problem(text, iuse, ft, ff, pt, tast=tast, container=CONTAINERS[(i + rep) % len(CONTAINERS)])
        if i % 8 == 0 and ctx.out_of_time(20):
            ctx.note("stopped early by the soft deadline after %d trees" % i)
            break
    for text, iuse, ft, ff, pt in FIXED:
        ck.check_problem(text, iuse, ft, ff, pt, tast=M.parse(text, "requse"))


FIXED = [
    ("bar foo", ["bar", "foo"], [], [], []),
    ("!bar foo? ( bar )", ["bar"], [], [], []),
    ("^^ ( a b c )", ["a", "b", "c"], [], [], ["b"]),
    ("?? ( a b c )", ["a", "b", "c"], ["a"], [], ["b"]),
    ("|| ( a b ) c? ( !a )", ["a", "b", "c"], [], ["b"], ["c"]),
    ("|| ( a b )", ["a"], [], [], ["b"]),
    ("a? ( b )", ["a", "b"], ["a"], ["b"], []),
    ("test? ( jpeg jpeg2k tiff truetype )", ["examples", "jpeg", "jpeg2k", "test", "tiff", "truetype"], ["test"], [], []),
    ("", ["a", "b"], [], [], ["a"]),
]


def classify(w):
    return None


def replay(ctx, w):
    ck = Checker(ctx)
    text = w["required_use"]
    try:
        tast = M.parse(text, "requse")
    except M.Reject:
        tast = None
    ck.check_problem(text, w["iuse"], w["force_true"], w["force_false"], w["prefer_true"], tast=tast)
