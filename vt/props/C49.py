"""C49 Generated metadata accumulates eclass values as PMS requires (real daemon, cache-less repos)."""

import os
import shutil

from ..ref import c49_eclass_accumulate as ref

ID = "C49"
LEVEL = "exploration"
NEEDS_EBD = True
RULE = ("random programs in a small ebuild/eclass dialect (assignments, +=, unset, inherit at arbitrary positions, nested and "
        "repeated inherits up to depth 3, phase functions, EXPORT_FUNCTIONS) for EAPI 0-8, written to cache-less repositories "
        "and regenerated through the real bash daemon; pkg.data is compared with an interpreter of PMS 10.2 accumulation "
        "(token sets per key; every assignment site uses unique tokens). Every run first regenerates a directed list of 292 "
        "small programs (implicit RDEPEND=DEPEND for EAPI 0-3 with RDEPEND absent / empty / set / unset again x own DEPEND x "
        "eclass contributions; every accumulated variable contributed by two or three eclasses while the others stay empty; EXPORT_FUNCTIONS before and after the definitions), "
        "split over the shards. Non-trivial: the program inherits at least one "
        "eclass that sets an accumulated key or defines a phase; distinct = distinct program text.")
ASSUMPTIONS = [
    "token sets are compared, not strings (PMS does not fix accumulation order; repeated inherits may duplicate tokens)",
    "unset of accumulated variables is generated only in the ebuild itself (bash dynamic-scope unset inside eclasses is outside PMS)",
    "bash 5.2 of this sandbox (EAPI 9 disabled by pkgcore here)",
]
SHARDS = {"quick": 4, "thorough": 16}
TIMEOUT = {"quick": 300, "thorough": 1800}
MIN_EVALS = 300
REQUIRED_COUNTERS = ("programs_regenerated", "directed_programs")
TECHNIQUE = "runtime monitoring: real daemon metadata regeneration vs PMS accumulation interpreter"

EAPIS = ["0", "1", "2", "3", "4", "5", "6", "7", "8"]
TOKEN_PREFIX = {"IUSE": "u", "REQUIRED_USE": "q", "DEPEND": "dev/d", "RDEPEND": "dev/r", "PDEPEND": "dev/p",
                "BDEPEND": "dev/b", "IDEPEND": "dev/i", "PROPERTIES": "prop", "RESTRICT": "rst", "SLOT": "s",
                "KEYWORDS": "~kw", "LICENSE": "lic", "DESCRIPTION": "desc", "HOMEPAGE": "http://h/", "SRC_URI": "http://s/"}
VARS = list(TOKEN_PREFIX)


def gen_program(rng, idx):
    eapi = rng.choice(EAPIS)
    counter = [0]

    def tok(var):
        counter[0] += 1
        return "%s%d" % (TOKEN_PREFIX[var], counter[0])

    phases = ref.phases_for("8")  # also generate phases invalid for old EAPIs
    neclass = rng.choice([0, 1, 1, 2, 3, 4])
    # names that are prefixes of one another (vcs / vcs-utils, git / git-r3 style) and ordinary ones
    suffixes = ["", "-r1", "x", "-r12"] if rng.random() < 0.5 else ["0", "1", "2", "3"]
    rng.shuffle(suffixes)
    names = ["c%d_e%s" % (idx, suffixes[i]) for i in range(neclass)]
    eclasses = {}

    def body(is_eclass, me_index):
        stmts = []
        n = rng.randrange(1, 9)
        for _ in range(n):
            r = rng.random()
            var = rng.choice(VARS if rng.random() < 0.8 else ["IUSE", "DEPEND", "RDEPEND", "RESTRICT", "PROPERTIES"])
            single = var in ("SLOT", "DESCRIPTION", "HOMEPAGE")
            if r < 0.40:
                stmts.append(["set", var, tok(var) if single or rng.random() < 0.6 else tok(var) + " " + tok(var)])
            elif r < 0.55 and not single:
                stmts.append(["append", var, tok(var)])
            elif r < 0.60 and not is_eclass:
                stmts.append(["unset", var])
            elif r < 0.63:
                stmts.append(["set", var, ""])
            elif r < 0.83:
                cands = names[me_index + 1:] if is_eclass else names
                if cands:
                    k = rng.choice([1, 1, 1, 2])
                    stmts.append(["inherit", [rng.choice(cands) for _ in range(k)]])
            elif r < 0.93:
                stmts.append(["func", rng.choice(phases)])
            elif is_eclass:
                stmts.append([rng.choice(["export", "export", "export_early"]),
                              [rng.choice(phases) for _ in range(rng.choice([1, 2]))]])
        return stmts

    for i, nm in enumerate(names):
        eclasses[nm] = body(True, i)
    ebuild = body(False, -1)
    if not any(s[0] == "set" and s[1] == "SLOT" for s in ebuild):
        ebuild.insert(rng.randrange(len(ebuild) + 1), ["set", "SLOT", tok("SLOT")])
    return {"eapi": eapi, "ebuild": ebuild, "eclasses": eclasses, "cpv": "c%d/p%d-1" % (idx % 7, idx)}


def used_eclasses(prog):
    seen = set()

    def walk(stmts):
        for s in stmts:
            if s[0] == "inherit":
                for n in s[1]:
                    if n not in seen:
                        seen.add(n)
                        walk(prog["eclasses"][n])

    walk(prog["ebuild"])
    return seen


def directed_programs(base_idx):
    """Small hand-shaped programs around the rules random generation reaches rarely: the EAPI 0-3 implicit
    RDEPEND=DEPEND rule (RDEPEND absent / explicitly empty / set / unset again), with and without eclass
    contributions, and every accumulated variable contributed by two and three eclasses in a row while the
    other accumulated variables stay empty."""
    progs = []

    def add(eapi, ebuild, eclasses):
        idx = base_idx + len(progs)
        ren = {n: "d%d_%s" % (idx, n) for n in eclasses}
        fix = lambda sts: [["inherit", [ren[x] for x in st[1]]] if st[0] == "inherit" else st for st in sts]
        progs.append({"eapi": eapi, "ebuild": [["set", "SLOT", "0"]] + fix(ebuild),
                      "eclasses": {ren[n]: fix(b) for n, b in eclasses.items()}, "cpv": "d%d/p%d-1" % (idx % 5, idx)})

    rdep_states = {"absent": [], "empty": [["set", "RDEPEND", ""]], "set": [["set", "RDEPEND", "dev/r1"]],
                   "set-then-unset": [["set", "RDEPEND", "dev/r2"], ["unset", "RDEPEND"]],
                   "empty-after-inherit": None}
    ecl_variants = {"none": {}, "rdep": {"a": [["set", "RDEPEND", "dev/er1"]]}, "dep": {"a": [["set", "DEPEND", "dev/ed1"]]},
                    "both": {"a": [["set", "DEPEND", "dev/ed2"], ["set", "RDEPEND", "dev/er2"]]}}
    for eapi in ("0", "2", "3", "4", "7"):
        for rname, rst in rdep_states.items():
            for dep in ([["set", "DEPEND", "dev/d1 dev/d2"]], []):
                for ename, ecl in ecl_variants.items():
                    inh = [["inherit", ["a"]]] if ecl else []
                    if rst is None:
                        body = dep + inh + [["set", "RDEPEND", ""]]
                    else:
                        body = rst + dep + inh
                    add(eapi, body, ecl)
    for var in ref.acc_vars("8"):
        for eapi in ("3", "6", "8"):
            if var not in ref.acc_vars(eapi) or var not in ref.metadata_keys_for(eapi):
                continue
            t = TOKEN_PREFIX[var]
            two = {"a": [["set", var, t + "1"]], "b": [["set", var, t + "2"]]}
            add(eapi, [["inherit", ["a", "b"]]], two)
            add(eapi, [["inherit", ["a"]], ["set", var, t + "0"], ["inherit", ["b"]]], two)
            add(eapi, [["inherit", ["a"]]], {"a": [["set", var, t + "1"], ["inherit", ["b"]]], "b": [["set", var, t + "2"]],
                                             })
            add(eapi, [["inherit", ["a", "b", "c"]]], dict(two, c=[["append", var, t + "3"]]))
    # EXPORT_FUNCTIONS before / after the definitions, with a nested inherit in between, per EAPI family
    for eapi in ("0", "2", "5", "7", "8"):
        ph = ref.phases_for(eapi)
        p1, p2 = ph[0], ph[-1]
        add(eapi, [["inherit", ["a"]]], {"a": [["export_early", [p1]]]})
        add(eapi, [["inherit", ["a"]]], {"a": [["export_early", [p1, p2]], ["inherit", ["b"]]], "b": [["export", [p2]]]})
        add(eapi, [["inherit", ["a"]], ["func", p2]], {"a": [["inherit", ["b"]], ["export_early", [p1]]], "b": [["export_early", [p2]]]})
        add(eapi, [["inherit", ["a"]]], {"a": [["export", [p1]]]})
    return progs


def write_program(repo, prog):
    from .. import ebd
    for nm, st in prog["eclasses"].items():
        ebd.write(os.path.join(repo, "eclass", nm + ".eclass"), ref.render(st, nm))
    ebd.write(ebd.ebuild_path(repo, prog["cpv"]), "EAPI=%s\n" % prog["eapi"] + ref.render(prog["ebuild"]))


def judge(ctx, prog, data, err):
    exp = ref.Interp(prog).run()
    text = ref.render(prog["ebuild"]) + "".join(ref.render(s, n) for n, s in sorted(prog["eclasses"].items()))
    used = used_eclasses(prog)
    nontriv = any(s[0] in ("set", "append") and s[1] in ref.acc_vars(prog["eapi"]) or s[0] in ("func", "export")
                  for n in used for s in prog["eclasses"][n])
    if nontriv:
        ctx.nontrivial(prog["eapi"] + "\n" + text)
    ctx.count("eapi:" + prog["eapi"])
    base = {"program": prog}
    if err is not None:
        ctx.evaluated()
        ctx.violation("regen-raised", dict(base, exc=err))
        return
    ctx.count("programs_regenerated")
    keys = ref.metadata_keys_for(prog["eapi"])
    for k in keys:
        got = sorted(set(str(data.get(k, "")).split()))
        want = sorted(set(exp[k]))
        ctx.evaluated()
        ctx.count("key_evals")
        if got != want:
            acc = k in ref.acc_vars(prog["eapi"])
            ctx.violation("key-mismatch", dict(base, key=k, got=got, want=want,
                                               rule=("accumulated:" if acc else "plain:") + k,
                                               missing=sorted(set(want) - set(got)), extra=sorted(set(got) - set(want))))
    got_inh = sorted(data.get("_eclasses_", {}) or {})
    want_inh = sorted(set(exp["_inherited"]))
    ctx.evaluated()
    if got_inh != want_inh:
        ctx.violation("inherited-mismatch", dict(base, got=got_inh, want=want_inh))
    got_ph = sorted(str(data.get("DEFINED_PHASES", "")).split())
    ctx.evaluated()
    if got_ph != exp["DEFINED_PHASES"]:
        ctx.violation("defined-phases-mismatch", dict(base, got=got_ph, want=exp["DEFINED_PHASES"],
                                                      rule="none-defined" if exp["DEFINED_PHASES"] == ["-"] else "some-defined"))


def regen_batch(ctx, progs, tag):
    from .. import ebd
    repo_dir = os.path.join(os.environ["VT_SCRATCH"], "repo_" + tag)
    shutil.rmtree(repo_dir, ignore_errors=True)
    ebd.make_repo(repo_dir)
    for p in progs:
        write_program(repo_dir, p)
    from pkgcore.ebuild import ebuild_src
    from pkgcore.ebuild.cpv import VersionedCPV
    repo = ebd.open_repo(repo_dir)
    by_cpv = {p["cpv"]: p for p in progs}
    seen = 0
    # observation point: the metadata dict as the package factory produces it (attribute
    # accessors pop keys out of pkg.data afterwards, e.g. the repo's own REQUIRED_USE filter)
    captured = {}
    orig_update = ebuild_src.package_factory._update_metadata

    def recording_update(self, pkg, ebp=None):
        res = orig_update(self, pkg, ebp=ebp)
        captured[pkg.cpvstr] = dict(res)
        ctx.count("contract__update_metadata_calls")
        return res

    ebuild_src.package_factory._update_metadata = recording_update
    try:
        for prog in progs:
            c = VersionedCPV(prog["cpv"])
            seen += 1
            try:
                pkg = repo.package_class(c.category, c.package, c.fullver)
                pkg.data
                data, err = captured.get(pkg.cpvstr), None
                if data is None:
                    err = "metadata was not regenerated through the package factory"
            except Exception as e:  # MetadataException etc.
                data, err = None, "%s: %s" % (type(e).__name__, str(e)[:400])
            judge(ctx, prog, data, err)
    finally:
        ebuild_src.package_factory._update_metadata = orig_update
    if seen != len(progs):
        ctx.set_inconclusive("repo listed %d of %d generated packages" % (seen, len(progs)))
    shutil.rmtree(repo_dir, ignore_errors=True)


def run(ctx):
    from .. import ebd
    ebd.install_trace()
    n = ctx.budget(60, 450)
    batch = 15
    idx = ctx.shard * 100000
    done = 0
    directed = directed_programs(900000)[ctx.shard::ctx.nshards]
    if ctx.tier == "quick":
        # every quick run covers the whole directed list once across its shards (seed-rotated start inside the shard)
        k = ctx.seed % max(1, len(directed))
        directed = directed[k:] + directed[:k]
    try:
        for i in range(0, len(directed), batch):
            if ctx.out_of_time(25):
                break
            chunk = directed[i:i + batch]
            regen_batch(ctx, chunk, "d%d" % i)
            ctx.count("directed_programs", len(chunk))
        while done < n and not ctx.out_of_time(25):
            progs = [gen_program(ctx.rng, idx + i) for i in range(batch)]
            idx += batch
            if done == 0:
                p = progs[0]
                ctx.sample({"eapi": p["eapi"], "ebuild": ref.render(p["ebuild"]),
                            "eclasses": {k: ref.render(v, k) for k, v in p["eclasses"].items()},
                            "expected": ref.Interp(p).run()})
            regen_batch(ctx, progs, "b%d" % done)
            done += batch
    finally:
        ebd.shutdown_all()


def classify(w):
    return None


def replay(ctx, w):
    from .. import ebd
    ebd.install_trace()
    try:
        regen_batch(ctx, [w["program"]], "replay")
    finally:
        ebd.shutdown_all()
