"""C30 World-file updates record exactly the requested entries; flush replaces the file atomically."""

import os
import shutil
from os.path import join as pjoin

from ..ref import c30_worldfile as ref

ID = "C30"
LEVEL = "exploration"
TECHNIQUE = "operation histories against a text model of the world file + fault enumeration over flush()"
RULE = ("history = random world file (0-8 entries incl. neighbours of the subject name such as name, name:1, name:10, "
        "versioned entries, comments, @set lines) + steps of WorldFile.add / WorldFile.remove / flush / reopen / "
        "pmerge.update_worldset(add|remove) with atoms whose slot is drawn from every valid shape (none, 0, one char, multi-"
        "digit, dotted, dashed, words, '_' and '+' inside, sub-slot, '=' operator) and dressed with version, use deps, repo id; "
        "after every step the in-memory entries (str of each member) and, after every flush, the file's entry lines are "
        "compared with a set model written from the statement (exactly name or name:slot touched, everything else intact, one "
        "entry per line, file replaced not rewritten). (a) every slot shape x op x dressing once per shard-slice on a small "
        "file, (b) random histories. One evaluation = one judged step. NON-TRIVIAL = a step whose atom has a slot of length "
        ">1 or a sub-slot/operator, or a remove, or any step on a file that holds another entry of the same package name; "
        "distinct = (op, atom text, entries before). Crash part (counters crash_*): for flush() of generated (old file, "
        "pending changes) pairs EVERY numbered filesystem operation is a crash boundary and an EIO point, the write is also "
        "torn by a real dying process; afterwards the file text must be the complete old or the complete new text.  Retry part "
        "(counters retry_*): the temporary file's write or close raises once (ENOSPC/EIO), the old file must be untouched and no "
        "temporary left; flush() is then called again on the same object without further changes and, having returned normally, "
        "must have put exactly the requested entries into the file.")
ASSUMPTIONS = [
    "entries are the atom lines; comment lines and @set references are not entries (pkgcore documents that WorldFile drops "
    "@set lines on update) and their survival is not judged",
    "a kept sub-slot or '=' operator (name:slot/sub, name:slot=) and a slot that is all zeros but not '0' are not decided by "
    "the statement: counted as unspecified, never reported",
    "removing an absent entry: KeyError and an unchanged set is the expected outcome; update_worldset(remove) of an absent "
    "entry may or may not rewrite the file",
    "a trailing newline / line order of the file is not part of the statement",
    "crash = process death at a Python-level filesystem-operation boundary or inside the write; EIO = that operation fails and "
    "pkgcore's error handling runs; no power-loss reordering",
]
SHARDS = {"quick": 4, "thorough": 16}
TIMEOUT = {"quick": 600, "thorough": 3000}  # generous: the sandbox is shared; normal wall is far below
MIN_EVALS = 2000
REQUIRED_COUNTERS = ("step:add", "step:remove", "step:flush", "step:uw_add", "step:uw_remove", "slot_multi_char_steps",
                     "crash_boundaries_judged", "crash_eio_points_judged", "crash_state:old", "crash_state:new", "retry_flush_judged")

KEYS = ["dev-lang/python", "x11-libs/gtk+", "dev-libs/libfoo-bar", "app-misc/a_b", "c/d", "sys-apps/portage", "a/b"]
SLOT_POOL = [None, "0", "1", "9", "a", "_", "10", "11", "00", "2.7", "3.10", "0.1", "1.2-r3", "stable", "a+b", "1_2", "5-x",
             "2.0.0", "X11", "0a", "r3"]
SLOT_CHARS = "0123456789abcxyzAB_.+-"


# --------------------------------------------------------------------------------------------------- generators

def rand_slot(rng):
    r = rng.random()
    if r < 0.15:
        return None
    if r < 0.6:
        return rng.choice(SLOT_POOL)
    n = rng.choice([1, 2, 2, 3, 4, 6])
    s = rng.choice("0123456789abcxyzAB_") + "".join(rng.choice(SLOT_CHARS) for _ in range(n - 1))
    return s


def rand_atom(rng, key=None, slot="?", simple=False):
    a = {"key": key or rng.choice(KEYS), "slot": rand_slot(rng) if slot == "?" else slot}
    if simple:
        return a
    if a["slot"] and rng.random() < 0.2:
        a["sub"] = rng.choice(["2", "1.1", "abc"])
    r = rng.random()
    if r < 0.1:
        a["sop"] = "=" if a["slot"] else rng.choice(["=", "*"])
    if rng.random() < 0.3:
        a["vop"], a["ver"] = rng.choice([("=", "1.0"), (">=", "2.3-r1"), ("~", "0.9"), ("<", "10_rc1")])
    if rng.random() < 0.15:
        a["use"] = rng.choice(["foo", "-bar", "foo,-bar"])
    if rng.random() < 0.15:
        a["repo"] = "gentoo"
    return a


def rand_file(rng, focus_key):
    """(text, entry set) of an initial world file."""
    lines = []
    n = rng.randrange(0, 9)
    for _ in range(n):
        r = rng.random()
        key = focus_key if r < 0.5 else rng.choice(KEYS)
        r = rng.random()
        if r < 0.35:
            lines.append(key)
        elif r < 0.8:
            s = rng.choice(["1", "10", "2", "2.7", "stable", "3.10", "a", "11", "1.2-r3"])
            lines.append("%s:%s" % (key, s))
        elif r < 0.9:
            lines.append(">=%s-1.2:3" % key)
        else:
            lines.append("=%s-4.0" % key)
    lines = sorted(set(lines))  # an untouched file must not trip the one-entry-per-line check
    entries = set(lines)
    if rng.random() < 0.3:
        lines.insert(rng.randrange(0, len(lines) + 1), "# a comment")
    if rng.random() < 0.15:
        lines.insert(rng.randrange(0, len(lines) + 1), "@system")
    rng.shuffle(lines)
    text = "\n".join(lines)
    if lines and rng.random() < 0.7:
        text += "\n"
    return text, entries


def rand_history(rng, length, p_multi):
    """A history description (fully materialised, JSON-able)."""
    focus = rng.choice(KEYS)
    text, _ = rand_file(rng, focus)
    steps = []
    for _ in range(length):
        r = rng.random()
        if r < 0.12:
            steps.append({"op": "flush"})
            continue
        if r < 0.17:
            steps.append({"op": "reopen"})
            continue
        key = focus if rng.random() < 0.7 else rng.choice(KEYS)
        if rng.random() < p_multi:
            a = rand_atom(rng, key)
        else:
            a = rand_atom(rng, key, slot=rng.choice([None, "0", "1", "2", "a", "9", "_"]))
        op = rng.choice(["add", "add", "remove", "remove", "uw_add", "uw_remove"])
        if op in ("remove", "uw_remove") and rng.random() < 0.6:
            a["_prefer_present"] = True  # resolved at run time: pick an entry of the model if there is one
        steps.append({"op": op, "atom": a})
    steps.append({"op": "flush"})
    return {"init_text": text, "steps": steps}


# --------------------------------------------------------------------------------------------------- the monitor

class Run:
    """Drives the real WorldFile / update_worldset on one history and judges every step."""

    def __init__(self, ctx, workdir):
        from pkgcore.ebuild.atom import atom
        from pkgcore.pkgsets.filelist import WorldFile
        from pkgcore.scripts import pmerge

        import logging

        logging.getLogger("pkgcore").setLevel(logging.CRITICAL)  # "set item found in pkgset" warnings
        self.ctx = ctx
        self.atom, self.WorldFile, self.pmerge = atom, WorldFile, pmerge
        self.dir = workdir
        os.makedirs(workdir, exist_ok=True)
        self.path = pjoin(workdir, "world")

    def open(self):
        return self.WorldFile(self.path, gid=os.getgid(), mode=0o644)

    @staticmethod
    def mem_of(ws):
        return {str(x) for x in ws}

    def disk(self):
        with open(self.path) as f:
            text = f.read()
        ents, problems = ref.entries_of_text(text)
        return text, ents, problems

    def history(self, h, source="random"):
        ctx = self.ctx
        with open(self.path, "w") as f:
            f.write(h["init_text"])
        init_entries, _ = ref.entries_of_text(h["init_text"])
        model = ref.Model(init_entries)
        try:
            ws = self.open()
            mem = self.mem_of(ws)
        except Exception as e:  # noqa: BLE001
            ctx.skip_unspecified("initial world file not loadable: %s" % type(e).__name__)
            return
        if mem != model.mem:
            ctx.skip_unspecified("initial entries are re-spelled on load")
            return
        done = []
        for step in h["steps"]:
            step = dict(step)
            ok = self.step(ws, model, step, h, done)
            done.append(step)
            if step["op"] == "reopen":
                ws = self.open()
            if not ok:
                ctx.count("histories_cut_at_first_violation")
                return
        ctx.count("histories_completed")

    def step(self, ws, model, step, h, done):
        ctx = self.ctx
        op = step["op"]
        ctx.count("step:" + op)
        if op == "reopen":
            model.reopen()
            return True
        mem_before, disk_before = set(model.mem), set(model.disk)
        base_w = {"init_text": h["init_text"], "steps": done + [step], "op": op,
                  "mem_before": sorted(mem_before), "disk_before": sorted(disk_before)}
        if op == "flush":
            ino0 = os.stat(self.path).st_ino
            try:
                ws.flush()
                exc = None
            except Exception as e:  # noqa: BLE001
                exc = type(e).__name__
            model.flush()
            # a flush with nothing pending may legitimately skip the write
            return self.judge_disk(model, base_w, exc, {model_key(model.disk)}, ino0, must_replace=model.disk != disk_before)
        a = dict(step["atom"])
        if a.pop("_prefer_present", False):
            cands = sorted(e for e in model.mem if ":" not in e or e.split(":")[1] in ("1", "2", "a", "9", "_"))
            cands = [e for e in cands if not e[0] in "<>=~"]
            if cands:
                e = cands[(len(done) * 7 + len(cands)) % len(cands)]
                a["key"], a["slot"] = (e.split(":") + [None])[:2]
            step["atom"] = a
        text = ref.atom_text(a)
        base_w.update(atom=a, atom_text=text, key=a["key"], slot=a.get("slot"))
        try:
            at = self.atom(text)
        except Exception as e:  # noqa: BLE001
            ctx.skip_unspecified("generated atom rejected by the atom parser: %s" % type(e).__name__)
            return True
        key, slot = a["key"], a.get("slot")
        multi = bool(slot and len(slot) > 1)
        if multi:
            ctx.count("slot_multi_char_steps")
        if multi or a.get("sub") or a.get("sop") or op in ("remove", "uw_remove") \
                or any(e == key or e.startswith(key + ":") for e in mem_before):
            ctx.nontrivial("%s|%s|%s" % (op, text, ",".join(sorted(mem_before))))
        entry = ref.entry_for(key, slot)
        alts = ref.tolerated_entries(key, slot, a.get("sub"), a.get("sop"))
        removing = op in ("remove", "uw_remove")

        def outcome(e):
            m = set(mem_before)
            if removing:
                if e not in m:
                    return m, "KeyError"
                m.discard(e)
                return m, None
            m.add(e)
            return m, None

        exp_mem, exp_exc = outcome(entry)
        ino0 = os.stat(self.path).st_ino
        try:
            if op == "add":
                ws.add(at)
            elif op == "remove":
                ws.remove(at)
            elif op == "uw_add":
                self.pmerge.update_worldset(ws, at)
            else:
                self.pmerge.update_worldset(ws, at, remove=True)
            exc = None
        except Exception as e:  # noqa: BLE001
            exc = type(e).__name__
        try:
            impl_mem = self.mem_of(ws)
        except Exception as e:  # noqa: BLE001
            impl_mem = {"<unreadable %s>" % type(e).__name__}
        absent_plain = op == "remove" and exp_exc == "KeyError"
        if op in ("uw_add", "uw_remove") and exp_exc == "KeyError":
            exp_exc = None  # update_worldset swallows the KeyError of an absent entry
            absent = True
        else:
            absent = False
        ctx.evaluated()
        w = dict(base_w, expected_entry=entry, expected_mem=sorted(exp_mem), expected_exc=exp_exc,
                 impl_mem=sorted(impl_mem), impl_exc=exc)
        if absent_plain and impl_mem == exp_mem and exc is None:
            ctx.skip_unspecified("remove of an absent entry did not raise")
            return True
        if (impl_mem, exc) != (exp_mem, exp_exc):
            for alt in sorted(alts):
                am, ae = outcome(alt)
                if op.startswith("uw_") and ae == "KeyError":
                    ae = None
                if (impl_mem, exc) == (am, ae):
                    ctx.skip_unspecified("sub-slot / '=' operator / all-zero slot spelling kept in the entry")
                    model.mem = set(impl_mem)
                    if op.startswith("uw_"):
                        # whether this spelling variant was flushed is as undecided as the spelling itself
                        text_, ents, problems = self.disk()
                        if ents not in (disk_before, impl_mem) or (problems and ents != disk_before):
                            w.update(rule="file-after-update_worldset", file_text=text_, file_entries=sorted(ents), problems=problems)
                            ctx.violation("file-vs-model", w)
                            return False
                        model.disk = set(ents)
                    return True
            w["rule"] = "wrong-entry" if exc is None else "raised-" + exc
            ctx.violation("step-vs-model", w)
            return False
        model.mem = exp_mem
        if op.startswith("uw_"):
            allowed = {model_key(exp_mem)}
            if absent:
                allowed.add(model_key(disk_before))
            text_, ents, problems = self.disk()
            if model_key(ents) not in allowed or problems:
                w.update(rule="file-after-update_worldset", file_text=text_, file_entries=sorted(ents), problems=problems)
                ctx.violation("file-vs-model", w)
                return False
            model.disk = set(ents)
            if ents != disk_before and os.stat(self.path).st_ino == ino0:
                w.update(rule="file-rewritten-in-place")
                ctx.violation("not-replaced", w)
                return False
        return True

    def judge_disk(self, model, w, exc, allowed, ino0, must_replace):
        ctx = self.ctx
        ctx.evaluated()
        text, ents, problems = self.disk()
        w = dict(w, impl_exc=exc, file_text=text, file_entries=sorted(ents), expected_entries=sorted(model.disk), problems=problems)
        if exc is not None:
            w["rule"] = "flush-raised-" + exc
            ctx.violation("flush-vs-model", w)
            return False
        if model_key(ents) not in allowed or problems:
            w["rule"] = "file-after-flush"
            ctx.violation("file-vs-model", w)
            return False
        if must_replace and os.stat(self.path).st_ino == ino0:
            w["rule"] = "file-rewritten-in-place"
            ctx.violation("not-replaced", w)
            return False
        return True


def model_key(entries):
    return tuple(sorted(entries))


# --------------------------------------------------------------------------------------------------- crash part

class FlushCase:
    """One flush() under fault injection: old file text + pending adds/removes (single-char slots: the slot handling
    itself is judged by the exploration part)."""

    def __init__(self, base, spec):
        self.spec = spec
        self.base = base
        self.work = pjoin(base, "work")
        self.snaps = pjoin(base, "snaps")
        self.template = pjoin(base, "template")
        for d in (self.template, self.snaps):
            os.makedirs(d, exist_ok=True)
        with open(pjoin(self.template, "world"), "w") as f:
            f.write(spec["old_text"])
        self.roots = [self.work]

    def restore(self):
        shutil.rmtree(self.work, ignore_errors=True)
        shutil.copytree(self.template, self.work)

    def record(self, tag):
        shutil.copytree(self.work, pjoin(self.snaps, tag))

    def fn(self):
        spec, path = self.spec, pjoin(self.work, "world")

        def fn():
            from pkgcore.ebuild.atom import atom
            from pkgcore.pkgsets.filelist import WorldFile
            from pkgcore.scripts import pmerge

            ws = WorldFile(path, gid=os.getgid(), mode=0o644)
            for kind, text in spec["changes"][:-1]:
                (ws.add if kind == "add" else ws.remove)(atom(text))
            kind, text = spec["changes"][-1]
            if spec["via"] == "update_worldset":
                pmerge.update_worldset(ws, atom(text), remove=(kind == "remove"))
            else:
                (ws.add if kind == "add" else ws.remove)(atom(text))
                ws.flush()
            return {"flushed": True}

        return fn


def state_of(d):
    """(world text or None, other names) of a recorded / post-fault directory."""
    p = pjoin(d, "world")
    text = None
    if os.path.lexists(p):
        try:
            with open(p) as f:
                text = f.read()
        except OSError as e:
            text = "<unreadable %s>" % type(e).__name__
    others = sorted(n for n in os.listdir(d) if n != "world") if os.path.isdir(d) else []
    return text, others


def rand_flush_spec(rng, i):
    focus = rng.choice(KEYS)
    text, entries = rand_file(rng, focus)
    if not entries:
        text, entries = focus + ":1\n", {focus + ":1"}
    changes = []
    mem = set(entries)
    for _ in range(rng.randrange(1, 4)):
        plain = sorted(e for e in mem if e[0] not in "<>=~" and (":" not in e or len(e.split(":")[1]) == 1))
        if plain and rng.random() < 0.4:
            e = rng.choice(plain)
            changes.append(["remove", e])
            mem.discard(e)
        else:
            e = ref.entry_for(rng.choice(KEYS), rng.choice([None, "1", "2", "7", "x"]))
            if e in mem:
                e = "zz-new/pkg%d" % i
            changes.append(["add", e])
            mem.add(e)
    if changes[-1][0] == "remove" or rng.random() < 0.5:
        via = "flush"
    else:
        via = "update_worldset"
    return {"old_text": text, "changes": changes, "via": via, "expected_new_entries": sorted(mem)}


def judge_flush_state(ctx, case, d, mode, k, done, ops, extra=None):
    old_text = case.spec["old_text"]
    text, others = state_of(d)
    ctx.evaluated()
    ctx.count("crash_boundaries_judged" if mode.startswith("crash") else "crash_eio_points_judged" if mode == "eio" else "crash_torn_judged")
    if others:
        ctx.count("crash_temp_file_left")
    if text == old_text:
        ctx.count("crash_state:old")
    elif text == case.new_text:
        ctx.count("crash_state:new")
    else:
        w = {"rule": "flush-not-atomic", "crash": dict(case.spec), "mode": mode, "k": k, "done": done,
             "ops": [[o[1], o[2]] for o in ops], "file_text": text, "other_files": others,
             "old_text": old_text, "new_text": case.new_text}
        w.update(extra or {})
        ctx.violation("crash-not-old-or-new", w)
    if 0 < done < len(ops):
        ctx.count("crash_intermediate_points")
        ctx.nontrivial("crash|%s|%s|%d" % (old_text, mode, k))


def crash_part(ctx, fault, base, specs, first_index=0):
    from ..gen.c29_faultdriver import run_driver

    cases = []
    for j, spec in enumerate(specs):
        c = FlushCase(pjoin(base, "f%d" % (first_index + j)), spec)
        cases.append((j, c))
    res = run_driver(fault, cases, lambda i, b: True, lambda i, k, ops: True, timeout=max(120, int(ctx.time_left()) - 20))
    if res.get("status") != "done":
        ctx.set_inconclusive("crash part: driver child did not finish: %s %s" % (res.get("status"), res.get("exc") or res.get("tb") or ""))
        return
    outs = res.get("result") or {}
    for j, case in cases:
        out = outs.get(str(j)) or {}
        if out.get("error") or not (out.get("ret") or {}).get("flushed"):
            ctx.set_inconclusive("crash part: uninjected flush failed: %s" % (out.get("error") or out,))
            continue
        if out.get("audit_unnumbered"):
            ctx.set_inconclusive("crash part: filesystem mutation not numbered by vt.fault (%d)" % out["audit_unnumbered"])
            continue
        ops = out["ops"]
        n = len(ops)
        ctx.count("crash_cases")
        ctx.count("crash_ops_total", n)
        case.new_text, _ = state_of(pjoin(case.snaps, "final"))
        # the completed flush must hold exactly the expected entries (independent of old-or-new)
        ents, problems = ref.entries_of_text(case.new_text or "")
        ctx.evaluated()
        if case.new_text == case.spec["old_text"]:
            ctx.count("crash_cases_trivial")
            del case.new_text
            continue
        if sorted(ents) != case.spec["expected_new_entries"] or problems:
            ctx.violation("file-vs-model", {"rule": "file-after-flush", "crash": dict(case.spec), "file_text": case.new_text,
                                            "file_entries": sorted(ents), "problems": problems})
            continue
        if ctx.want_sample():
            ctx.sample({"flush_case": case.spec, "ops": ops})
        names = [o[1] for o in ops]
        if not any(x in ("rename", "replace") for x in names):
            ctx.violation("not-replaced", {"rule": "no-rename-in-flush", "crash": dict(case.spec), "ops": [[o[1], o[2]] for o in ops]})
        case.record_dir0 = pjoin(case.snaps, "0")
        case.restore()
        shutil.copytree(case.work, case.record_dir0)
        for b in range(0, n + 1):
            d = pjoin(case.snaps, str(b))
            if not os.path.isdir(d):
                ctx.set_inconclusive("crash part: state after operation %d missing" % b)
                continue
            judge_flush_state(ctx, case, d, "crash-after" if b else "crash-before", b or 1, b, ops)
        for ks, rec in sorted(out["eio"].items(), key=lambda kv: int(kv[0])):
            k = int(ks)
            if not rec.get("injected") or not rec.get("same_prefix"):
                ctx.count("crash_eio_not_delivered")
                continue
            if rec.get("audit_unnumbered"):
                ctx.set_inconclusive("crash part eio: un-numbered mutation")
                continue
            judge_flush_state(ctx, case, pjoin(case.snaps, "eio-%d" % k), "eio", k, k - 1, ops, {"eio_status": rec.get("status"), "eio_exc": rec.get("exc")})
            ctx.count("crash_eio_outcome:" + rec.get("status", "?"))
    # real dying processes: the torn write of every case in thorough / of the first case in quick, plus one real
    # crash-after per case re-checking the recorded state
    for j, case in cases:
        out = outs.get(str(j)) or {}
        ops = out.get("ops") or []
        if not ops or not hasattr(case, "new_text"):
            continue
        if ctx.quick and j > 0:
            break
        writes = [k for k in range(1, len(ops) + 1) if fault.is_write_op(ops[k - 1])]
        items = [(k, "torn") for k in writes[:1]] + [(max(1, len(ops) - 1), "crash-after")]
        for k, mode in items:
            if ctx.out_of_time(25):
                ctx.count("crash_forked_points_skipped_deadline")
                continue
            real_fault_run(ctx, fault, case, ops, k, mode)


def real_fault_run(ctx, fault, case, ops, k, mode):
    case.restore()
    r = fault.run_injected(case.fn(), mode, k, roots=case.roots)
    if not r.get("injected") or r.get("status") in ("child-died", "harness-error") or r.get("audit_unnumbered"):
        ctx.count("crash_fault_not_delivered")
        ctx.note("crash part: fault not delivered %s k=%d: %s" % (mode, k, r.get("status")))
        return
    ctx.count("crash_real_process_death_runs")
    done = k if mode == "crash-after" else k - 1
    judge_flush_state(ctx, case, case.work, mode, k, done, ops)
    if mode == "crash-after":
        rec = pjoin(case.snaps, str(k))
        if os.path.isdir(rec):
            ctx.count("crash_recorded_state_rechecked")
            if state_of(rec) != state_of(case.work):
                ctx.set_inconclusive("crash part: state after a real os._exit at boundary %d differs from the recorded one" % k)


# --------------------------------------------------------------------------------------------------- entry points

def shape_cases(ctx):
    """(a) every slot shape x op x dressing on a small file (dealt over the shards)."""
    import random

    rng = random.Random(3000)  # the same enumeration in every shard
    out = []
    subs = [{}, {"sub": "2"}, {"sop": "="}, {"sub": "1.1", "sop": "="}]
    dress = [{}, {"vop": "=", "ver": "1.0"}, {"use": "foo"}, {"repo": "gentoo"}, {"vop": ">=", "ver": "2.3-r1", "use": "-bar", "repo": "gentoo"}]
    extra = []
    for _ in range(40):
        extra.append(rand_slot(rng))
    for slot in SLOT_POOL + ["=", "*"] + [s for s in extra if s not in SLOT_POOL]:
        for key in ("c/d", "x11-libs/gtk+"):
            for op in ("add", "remove", "uw_add", "uw_remove"):
                for sb in subs:
                    if slot in (None, "=", "*") and sb:
                        continue
                    for dr in dress:
                        a = {"key": key}
                        if slot in ("=", "*"):
                            a["sop"] = slot
                        else:
                            a["slot"] = slot
                        a.update(sb)
                        a.update(dr)
                        for present in (True, False):
                            if op in ("add", "uw_add") and not present:
                                continue
                            init = ["a/b", key + ":1", key + ":7", ">=%s-1.2:3" % key]
                            if present and op in ("remove", "uw_remove"):
                                init.append(ref.entry_for(key, a.get("slot")))
                            if rng.random() < 0.5:
                                init.append(key)
                            text = "\n".join(sorted(set(init))) + "\n"
                            out.append({"init_text": text, "steps": [{"op": op, "atom": a}, {"op": "flush"}]})
    return out


def retry_after_failed_flush(ctx, base, spec, fail_at):
    """A flush() that fails (write / close of the temporary file raises; the old file stays) followed by a flush() on the SAME
    object without further changes: the second one returns normally, so the file must hold the requested entries."""
    import errno

    from pkgcore.ebuild.atom import atom
    from pkgcore.pkgsets import filelist

    d = pjoin(base, "retry")
    shutil.rmtree(d, ignore_errors=True)
    os.makedirs(d)
    path = pjoin(d, "world")
    with open(path, "w") as f:
        f.write(spec["old_text"])
    ws = filelist.WorldFile(path, gid=os.getgid(), mode=0o644)
    for kind, text in spec["changes"]:
        (ws.add if kind == "add" else ws.remove)(atom(text))
    real = filelist.AtomicWriteFile
    fired = []

    class Failing:
        def __init__(self, *a, **kw):
            object.__setattr__(self, "_f", real(*a, **kw))

        def __getattr__(self, name):
            return getattr(self._f, name)

        def write(self, *a, **kw):
            if fail_at == "write" and not fired:
                fired.append("write")
                raise OSError(errno.ENOSPC, "No space left on device (injected)")
            return self._f.write(*a, **kw)

        def close(self, *a, **kw):
            if fail_at == "close" and not fired:
                fired.append("close")
                raise OSError(errno.EIO, "Input/output error (injected)")
            return self._f.close(*a, **kw)

    filelist.AtomicWriteFile = Failing
    first = None
    try:
        try:
            ws.flush()
            first = "returned"
        except OSError as e:
            first = "raised:%s" % errno.errorcode.get(e.errno, e.errno)
    finally:
        filelist.AtomicWriteFile = real
    ctx.count("retry_first_flush:" + first)
    w = {"rule": "retried-flush", "crash": dict(spec), "fail_at": fail_at, "first_flush": first}
    if not fired:
        ctx.count("retry_fault_not_reached")
        return
    text_mid, others = state_of(d)
    ctx.evaluated()
    if first != "returned" and (text_mid != spec["old_text"] or others):
        ctx.violation("flush-not-atomic", dict(w, rule="failed-flush-left-traces", file_text=text_mid, others=others))
        return
    try:
        ws.flush()
    except Exception as e:
        ctx.violation("flush-vs-model", dict(w, rule="retried-flush-raised", exc="%s: %s" % (type(e).__name__, e)))
        return
    text, others = state_of(d)
    ents, problems = ref.entries_of_text(text or "")
    ctx.evaluated()
    ctx.count("retry_flush_judged")
    ctx.nontrivial(("retry", fail_at, spec["old_text"], tuple(map(tuple, spec["changes"]))))
    if sorted(ents) != spec["expected_new_entries"] or problems or others:
        ctx.violation("file-vs-model", dict(w, file_text=text, file_entries=sorted(ents), problems=problems, others=others))
    shutil.rmtree(d, ignore_errors=True)


def run(ctx):
    from .. import fault

    rng = ctx.rng
    base = pjoin(os.environ["VT_SCRATCH"], "c30")
    os.makedirs(base, exist_ok=True)
    mon = Run(ctx, pjoin(base, "hist"))
    # crash part first (it forks; cheapest while the process is small)
    nflush = ctx.budget(3, 10)
    specs = [rand_flush_spec(rng, i) for i in range(nflush)]
    if ctx.shard == 0:
        specs[0] = {"old_text": "a/b\nc/d:1\n", "changes": [["add", "c/d:2"]], "via": "flush", "expected_new_entries": ["a/b", "c/d:1", "c/d:2"]}
    crash_part(ctx, fault, pjoin(base, "crash"), specs)
    for i in range(ctx.budget(12, 80)):
        sp = specs[i] if i < len(specs) else rand_flush_spec(rng, 100 + i)
        retry_after_failed_flush(ctx, base, dict(sp, via="flush"), ("write", "close")[i % 2])
    # (a) slot-shape matrix
    cases = shape_cases(ctx)
    for idx, h in enumerate(cases):
        if idx % ctx.nshards != ctx.shard:
            continue
        mon.history(h, "matrix")
        ctx.count("matrix_cases")
        if idx % 64 == 0 and ctx.out_of_time(30):
            break
    # (b) random histories: mostly single-character slots (so that everything else is exercised end to end),
    #     some with arbitrary slots
    n = ctx.budget(1500, 12000)
    for i in range(n):
        h = rand_history(rng, rng.randrange(3, 14), 0.0 if i % 3 else 0.35)
        mon.history(h)
        if i < 2:
            ctx.sample({"history": h})
        if i % 64 == 0 and ctx.out_of_time(20):
            break
    shutil.rmtree(base, ignore_errors=True)


def classify(w):
    """slot-iterated-by-character: the step's outcome equals that of handling every character of the slot string as a
    slot of its own (filelist.py WorldFile._modify: `for slot in atom_inst.slot`)."""
    if w.get("kind") != "step-vs-model":
        return None
    slot = w.get("slot")
    if not slot or len(slot) < 2 or w.get("op") not in ("add", "remove", "uw_add", "uw_remove"):
        return None
    op = "add" if w["op"] in ("add", "uw_add") else "remove"
    res = ref.per_character_outcome(set(w.get("mem_before") or []), op, w.get("key"), slot)
    if res is None:
        return None
    mem, exc = res
    if w["op"] == "uw_remove" and exc == "KeyError":
        exc = None
    if sorted(mem) == w.get("impl_mem") and exc == w.get("impl_exc"):
        return "slot-iterated-by-character"
    return None


def replay(ctx, w):
    from .. import fault

    base = pjoin(os.environ["VT_SCRATCH"], "c30-replay")
    shutil.rmtree(base, ignore_errors=True)
    os.makedirs(base)
    if "fail_at" in w:
        retry_after_failed_flush(ctx, base, w["crash"], w["fail_at"])
    elif "crash" in w:
        spec = w["crash"]
        case = FlushCase(pjoin(base, "f0"), spec)
        from ..gen.c29_faultdriver import run_driver

        res = run_driver(fault, [(0, case)], lambda i, b: False, lambda i, k, ops: False)
        out = (res.get("result") or {}).get("0") or {}
        if not out.get("ops"):
            ctx.set_inconclusive("replay: uninjected flush failed")
            return
        case.new_text, _ = state_of(pjoin(case.snaps, "final"))
        mode, k, done = w.get("mode", "crash-after"), w.get("k", 1), w.get("done", 0)
        if mode.startswith("crash"):
            mode, k = ("crash-before", 1) if done == 0 else ("crash-after", done)
        real_fault_run(ctx, fault, case, out["ops"], k, mode)
    else:
        Run(ctx, pjoin(base, "hist")).history({"init_text": w["init_text"], "steps": w["steps"]}, "replay")
    shutil.rmtree(base, ignore_errors=True)
