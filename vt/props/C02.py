"""C02 Equality, ordering and hashing of package versions (CPV) and atoms agree."""

import itertools

from ..gen import c02_pairs as gen
from ..gen import versions as gv
from ..ref import c02_models as models
from ..ref import pms_version as pms

ID = "C02"
LEVEL = "exploration"
TECHNIQUE = "algebraic coherence laws over the observed results of ==, !=, <, <=, >, >=, hash, set, dict, sorted"
RULE = ("pairs (x, y) of real VersionedCPV/UnversionedCPV objects and of real atom objects: (a) an object and an "
        "equal-valued respelling of it (1.0/1.00, 01/1, _alpha/_alpha0, _p1/_p01, -r0/-r00/none, -r1/-r01, USE deps "
        "reordered, ! vs !!), (b) an object and a copy differing in exactly one attribute (category, package, version, "
        "revision, operator, blocker, slot, sub-slot, slot operator, repo id, one USE dep, USE default, negate_vers), "
        "(c) all pairs of a stratified pool, (d) random pairs, (e) all pairs of category/package names taken from "
        "proper-prefix families (dev vs dev-x, dev+, dev.x, dev_x, deva; foo vs foo-bar, foo+ ...: the characters around "
        "'/' in ASCII) as versioned/unversioned CPVs and atoms, (f) all pairs of slot and of sub-slot spellings from a numeric/text "
        "boundary family (0/00, 1/01/001, 9/09/10/010, 1a, 1.0 ...) on otherwise identical atoms; plus small lists for sorted()/transitivity.  Every pair is "
        "judged by the coherence laws only (no reference answer for the comparison itself).  A pair is non-trivial "
        "when the two objects are written differently and are either an equal-valued respelling or differ in exactly "
        "one attribute; distinct = distinct (kind, spelling of x, spelling of y, negate_vers flags).")
ASSUMPTIONS = [
    "laws are judged on the implementation's own answers; what the right order is belongs to C01",
    "ordering comparisons that raise TypeError (versioned vs unversioned CPV of the same package) are outside the domain",
    "Revision helper objects are not 'package versions': Revision('0') == Revision('') with different hashes is only counted",
    "<= / >= are judged against < / == / > only for pairs on which exactly one of <, ==, > holds (otherwise the pair is "
    "already reported under the trichotomy law)",
    "sorted() is judged only on lists whose pairs all satisfy trichotomy (the others are reported pairwise)",
]
SHARDS = {"quick": 4, "thorough": 16}
TIMEOUT = {"quick": 240, "thorough": 1800}
MIN_EVALS = 100000
REQUIRED_COUNTERS = ("pairs:cpv", "pairs:atom", "prefix_family_key_pairs", "slot_family_pairs", "equal_pairs_written_differently:cpv",
                     "equal_pairs_written_differently:atom", "sorted_lists_judged", "triples")

OPNAMES = ("eq", "ne", "lt", "le", "gt", "ge")


class Mon:
    def __init__(self, ctx):
        from pkgcore.ebuild import atom as atom_mod
        from pkgcore.ebuild import cpv as cpv_mod

        self.ctx = ctx
        self.cpv = cpv_mod
        self.atom = atom_mod.atom
        self.malformed = atom_mod.MalformedAtom
        self.keep = []

    # ---- construction of the real objects -------------------------------------------------
    def build(self, typ, f, route=0):
        if typ == "cpv":
            if f.get("ver") is None:
                return self.cpv.UnversionedCPV(gen.cpv_str(f)) if route == 0 else self.cpv.CPV(f["cat"], f["pkg"])
            if route == 0:
                return self.cpv.VersionedCPV(gen.cpv_str(f))
            return self.cpv.CPV(f["cat"], f["pkg"], gv.fullver(f["ver"], f.get("rev") or ""))
        s = gen.atom_str(f)
        if f.get("negate_vers"):
            return self.atom(s, negate_vers=True)
        return self.atom(s)

    def spelling(self, typ, f):
        return gen.cpv_str(f) if typ == "cpv" else gen.atom_str(f) + ("{negate_vers}" if f.get("negate_vers") else "")

    # ---- one pair ------------------------------------------------------------------------------
    def observe(self, x, y):
        ctx = self.ctx
        obs = {}

        def b(v, name):
            if not isinstance(v, bool):
                ctx.count("nonbool_result:" + name)
            return bool(v)

        obs["eq_xy"] = b(x == y, "eq")
        obs["eq_yx"] = b(y == x, "eq")
        obs["ne_xy"] = b(x != y, "ne")
        obs["ne_yx"] = b(y != x, "ne")
        try:
            obs["lt_xy"] = b(x < y, "lt")
            obs["lt_yx"] = b(y < x, "lt")
            obs["le_xy"] = b(x <= y, "le")
            obs["le_yx"] = b(y <= x, "le")
            obs["gt_xy"] = b(x > y, "gt")
            obs["gt_yx"] = b(y > x, "gt")
            obs["ge_xy"] = b(x >= y, "ge")
            obs["ge_yx"] = b(y >= x, "ge")
            obs["ordered"] = True
        except TypeError:
            obs["ordered"] = False
        hx, hy = hash(x), hash(y)
        obs["hash_equal"] = hx == hy
        obs["hash_stable"] = hx == hash(x) and hy == hash(y)
        obs["set_len"] = len({x, y})
        obs["dict_hit"] = y in {x: 1}
        return obs

    def judge(self, obs):
        """-> list of (kind, rule) for every coherence law the observation breaks."""
        ctx = self.ctx
        bad = []
        ev = 0
        eq = obs["eq_xy"]
        # L1 equality is symmetric, != is its negation
        ev += 1
        if obs["eq_xy"] != obs["eq_yx"]:
            bad.append(("eq-asymmetric", ""))
        if obs["ne_xy"] == obs["eq_xy"] or obs["ne_yx"] == obs["eq_yx"]:
            bad.append(("ne-not-negation-of-eq", ""))
        # L5 hash / set / dict
        ev += 1
        if not obs["hash_stable"]:
            bad.append(("hash-unstable", ""))
        if eq and not obs["hash_equal"]:
            bad.append(("equal-hash-differs", ""))
        elif eq and (obs["set_len"] != 1 or not obs["dict_hit"]):
            bad.append(("set-dict-disagree-with-eq", "equal objects with equal hashes not merged"))
        elif not eq and not obs["eq_yx"] and (obs["set_len"] != 2 or obs["dict_hit"]):
            bad.append(("set-dict-disagree-with-eq", "unequal objects merged"))
        if not obs["ordered"]:
            ctx.skip_unspecified("ordering raises TypeError (unlike kinds of CPV): only ==/hash laws judged")
            ctx.evaluated(ev)
            return bad
        # L2 mirrored operators
        ev += 1
        if obs["lt_xy"] != obs["gt_yx"] or obs["lt_yx"] != obs["gt_xy"]:
            bad.append(("mirror-inconsistent", "x<y vs y>x"))
        if obs["le_xy"] != obs["ge_yx"] or obs["le_yx"] != obs["ge_xy"]:
            bad.append(("mirror-inconsistent", "x<=y vs y>=x"))
        # L3 trichotomy: exactly one of <, ==, >
        ev += 1
        tri_ok = True
        if eq and (obs["lt_xy"] or obs["lt_yx"] or obs["gt_xy"] or obs["gt_yx"]
                   or not obs["le_xy"] or not obs["le_yx"] or not obs["ge_xy"] or not obs["ge_yx"]):
            bad.append(("equal-but-ordered", ""))
            tri_ok = False
        if not eq and obs["lt_xy"] == obs["lt_yx"]:
            bad.append(("unequal-not-strictly-ordered", "both" if obs["lt_xy"] else "neither"))
            tri_ok = False
        # L4 <= and >= are (< or ==) and (> or ==)
        if tri_ok and not bad:
            ev += 1
            for d, o in (("xy", "yx"), ("yx", "xy")):
                if obs["le_" + d] != (obs["lt_" + d] or eq):
                    bad.append(("le-not-lt-or-eq", d))
                if obs["ge_" + d] != (obs["gt_" + d] or eq):
                    bad.append(("ge-not-gt-or-eq", d))
        elif not tri_ok:
            ctx.count("le_ge_law_not_judged_trichotomy_already_broken")
        ctx.evaluated(ev)
        return bad

    def check_pair(self, typ, fa, fb, label="", routes=(0, 0)):
        ctx = self.ctx
        try:
            x = self.build(typ, fa, routes[0])
            y = self.build(typ, fb, routes[1])
        except self.malformed as e:
            # the generator only writes valid atoms; if one is refused that is C03's business, not ours
            ctx.count("generator_atom_refused")
            ctx.note("atom refused: %s" % (e,))
            return None
        ctx.count("pairs:" + typ)
        sa, sb = self.spelling(typ, fa), self.spelling(typ, fb)
        w = {"type": typ, "a": fa, "b": fb, "sa": sa, "sb": sb, "edit": label}
        try:
            obs = self.observe(x, y)
        except Exception as e:  # the comparison protocol itself must not blow up
            ctx.evaluated()
            ctx.violation("comparison-raises", dict(w, exc=repr(e)))
            return None
        w["obs"] = obs
        if obs["eq_xy"]:
            ctx.count("equal_pairs:" + typ)
            if sa != sb:
                ctx.count("equal_pairs_written_differently:" + typ)
        if sa != sb and label not in ("random", "pool", "list"):
            ctx.nontrivial(typ + "|" + sa + "|" + sb)
        if label:
            ctx.count("edit:%s:%s" % (typ, label))
        for kind, rule in self.judge(obs):
            ww = dict(w)
            if rule:
                ww["rule"] = rule
            ctx.violation(kind, ww)
        if ctx.want_sample() and sa != sb:
            ctx.sample({"x": sa, "y": sb, "observed": {k: obs[k] for k in ("eq_xy", "lt_xy", "lt_yx", "hash_equal")}})
        return obs


def trichotomous(obs):
    if obs is None or not obs.get("ordered"):
        return False
    n = int(obs["eq_xy"]) + int(obs["lt_xy"]) + int(obs["lt_yx"])
    return n == 1 and obs["eq_xy"] == obs["eq_yx"] and obs["lt_xy"] == obs["gt_yx"] and obs["lt_yx"] == obs["gt_xy"]


def check_list(ctx, mon, typ, fields):
    """sorted() and transitivity on a small list whose pairs all satisfy trichotomy."""
    rng = ctx.rng
    try:
        objs = [mon.build(typ, f) for f in fields]
    except mon.malformed:
        ctx.count("generator_atom_refused")
        return
    n = len(objs)
    ok = True
    for i in range(n):
        for j in range(i + 1, n):
            o = mon.check_pair(typ, fields[i], fields[j], "list")
            if not trichotomous(o):
                ok = False
    if not ok:
        ctx.count("sorted_lists_skipped_pairwise_law_already_broken")
        return
    ctx.count("sorted_lists_judged")
    spell = [mon.spelling(typ, f) for f in fields]
    idx = list(range(n))
    orders = []
    for _ in range(3):
        rng.shuffle(idx)
        try:
            srt = sorted(idx, key=_Key.of(objs))
        except Exception as e:
            ctx.violation("sort-raises", {"type": typ, "list": [fields[i] for i in idx], "exc": repr(e)})
            return
        orders.append(srt)
        ctx.evaluated()
        for p, q in zip(srt, srt[1:]):
            if objs[q] < objs[p]:
                ctx.violation("sorted-has-inversion", {"type": typ, "list": [fields[i] for i in idx],
                                                       "sorted": [spell[i] for i in srt], "at": [spell[p], spell[q]]})
                break
    # the result may only depend on the input order among equal elements
    ctx.evaluated()
    for o in orders[1:]:
        if any(not (objs[p] == objs[q]) for p, q in zip(orders[0], o)):
            ctx.violation("sorted-depends-on-input-order", {"type": typ, "list": fields,
                                                            "sorted_1": [spell[i] for i in orders[0]],
                                                            "sorted_2": [spell[i] for i in o]})
            break
    # transitivity of < and of == on the implementation's own answers
    for a, b, c in itertools.permutations(range(n), 3):
        ctx.count("triples")
        ctx.evaluated()
        if objs[a] < objs[b] and objs[b] < objs[c] and not objs[a] < objs[c]:
            ctx.violation("lt-not-transitive", {"type": typ, "list": [fields[a], fields[b], fields[c]],
                                                "spelled": [spell[a], spell[b], spell[c]]})
        if objs[a] == objs[b] and objs[b] == objs[c] and not objs[a] == objs[c]:
            ctx.violation("eq-not-transitive", {"type": typ, "list": [fields[a], fields[b], fields[c]],
                                                "spelled": [spell[a], spell[b], spell[c]]})


class _Key:
    """sort indices by the objects' own __lt__ (what sorted() uses)."""

    __slots__ = ("o",)

    def __init__(self, o):
        self.o = o

    def __lt__(self, other):
        return self.o < other.o

    @staticmethod
    def of(objs):
        return lambda i: _Key(objs[i])


def observe_revision_helper(ctx, mon):
    """Revision objects are helpers, not package versions: record what they do, judge nothing."""
    R = mon.cpv.Revision
    for a, b in (("", "0"), ("0", "00"), ("1", "01")):
        x, y = R(a), R(b)
        if x == y and hash(x) != hash(y):
            ctx.skip_unspecified("Revision(%r) == Revision(%r) but hashes differ (internal helper, not judged)" % (a, b))


def run(ctx):
    mon = Mon(ctx)
    rng = ctx.rng
    if ctx.shard == 0:
        observe_revision_helper(ctx, mon)

    # (c) all ordered pairs of a stratified pool for one package, CPVs and '=' atoms -- split over shards
    pool = gv.stratified_pool(__import__("random").Random(2), ctx.budget(90, 200))
    for idx, (p, q) in enumerate(itertools.combinations(range(len(pool)), 2)):
        if idx % ctx.nshards != ctx.shard:
            continue
        fa = {"cat": "a", "pkg": "p", "ver": pool[p][0], "rev": pool[p][1]}
        fb = {"cat": "a", "pkg": "p", "ver": pool[q][0], "rev": pool[q][1]}
        mon.check_pair("cpv", fa, fb, "pool")
        if idx % 3 == 0:
            extra = dict(blocker="", op="=", slot=None, subslot=None, slotop=None, repo=None, use=None, negate_vers=False)
            mon.check_pair("atom", dict(fa, **extra), dict(fb, **extra), "pool")
        if idx % 512 == 0 and ctx.out_of_time(90):
            ctx.note("pool enumeration stopped early by the soft deadline")
            break
    else:
        ctx.count("pool_pairs_complete")

    # (e) every quick run: all pairs of category/package names from prefix families (dev vs dev-x / dev+ / dev.x / dev_x /
    # deva, foo vs foo-bar / foo+ ...), as versioned and unversioned CPVs and as atoms, plus sorted() on each family
    keys = [(c, p) for c in gen.BOUNDARY_CATS for p in gen.BOUNDARY_PKGS]
    extra = dict(blocker="", slot=None, subslot=None, slotop=None, repo=None, use=None, negate_vers=False)
    for idx, (ka, kb) in enumerate(itertools.combinations(keys, 2)):
        if idx % ctx.nshards != ctx.shard:
            continue
        va, vb = (("1.0", ""), ("1.0", "")) if idx % 3 else (("1.0", "1"), ("1.00", ""))
        fa = {"cat": ka[0], "pkg": ka[1], "ver": va[0], "rev": va[1]}
        fb = {"cat": kb[0], "pkg": kb[1], "ver": vb[0], "rev": vb[1]}
        label = "cat-prefix-family" if ka[0] != kb[0] else "pkg-prefix-family"
        mon.check_pair("cpv", fa, fb, label)
        mon.check_pair("cpv", dict(fa, ver=None, rev=""), dict(fb, ver=None, rev=""), label)
        mon.check_pair("atom", dict(fa, op=">=", **extra), dict(fb, op=">=", **extra), label)
        mon.check_pair("atom", dict(fa, ver=None, rev="", op="", **extra), dict(fb, ver=None, rev="", op="", **extra), label)
        ctx.count("prefix_family_key_pairs")
    for k in range(ctx.budget(12, 40)):
        fam = rng.sample(keys, 6)
        check_list(ctx, mon, "cpv", [{"cat": c, "pkg": p, "ver": rng.choice(["1.0", "1.00", "2"]), "rev": ""} for c, p in fam])
        check_list(ctx, mon, "atom", [dict({"cat": c, "pkg": p, "ver": None, "rev": "", "op": ""}, **extra) for c, p in fam])
    cat_fam = [{"cat": c, "pkg": "foo", "ver": "1.0", "rev": ""} for c in gen.BOUNDARY_CATS[:7]]
    pkg_fam = [{"cat": "dev", "pkg": p, "ver": "1.0", "rev": ""} for p in gen.BOUNDARY_PKGS]
    check_list(ctx, mon, "cpv", cat_fam)
    check_list(ctx, mon, "cpv", pkg_fam)

    # (f) every run: all pairs of slot and of sub-slot spellings from the numeric/text boundary family, same atom otherwise
    fam = gen.SLOT_FAMILY
    base = dict({"cat": "a", "pkg": "p", "ver": None, "rev": "", "op": ""}, **extra)
    for idx, (sa_, sb_) in enumerate(itertools.combinations(fam, 2)):
        if idx % ctx.nshards != ctx.shard:
            continue
        mon.check_pair("atom", dict(base, slot=sa_), dict(base, slot=sb_), "slot-family")
        mon.check_pair("atom", dict(base, slot="1", subslot=sa_), dict(base, slot="1", subslot=sb_), "subslot-family")
        mon.check_pair("atom", dict(base, slot=sa_, slotop="="), dict(base, slot=sb_, slotop="="), "slot-family")
        mon.check_pair("atom", dict(base, op="=", ver="1.0", slot=sa_, subslot="1"),
                       dict(base, op="=", ver="1.0", slot=sb_, subslot="1"), "slot-family")
        ctx.count("slot_family_pairs")
    for k in range(ctx.budget(6, 20)):
        vals = rng.sample(fam, 6)
        check_list(ctx, mon, "atom", [dict(base, slot=v) for v in vals])
        check_list(ctx, mon, "atom", [dict(base, slot="0", subslot=v) for v in vals])

    # (a)+(b)+(d) CPVs
    for k in range(ctx.budget(20000, 200000)):
        fa = gen.random_cpv(rng, versioned=rng.random() < 0.93, small=rng.random() < 0.8)
        r = rng.random()
        if r < 0.45:
            fb, label = gen.lookalike_cpv(rng, fa)
        elif r < 0.85:
            fb, label = gen.one_attr_cpv(rng, fa)
        elif r < 0.9:
            fb, label = dict(fa), "identical"
        else:
            fb, label = gen.random_cpv(rng, versioned=rng.random() < 0.9), "random"
        if label in ("ver-respelled", "rev-respelled") and fa["ver"] is not None \
                and pms.ver_cmp(fa["ver"], fa["rev"], fb["ver"], fb["rev"]) != 0:
            label = "respelling-not-equal(generator)"
        mon.check_pair("cpv", fa, fb, label, routes=(rng.randrange(2), rng.randrange(2)))
        if k % 256 == 0 and ctx.out_of_time(70):
            break

    # (a)+(b)+(d) atoms
    for k in range(ctx.budget(30000, 300000)):
        fa = gen.random_atom(rng, small=rng.random() < 0.85)
        r = rng.random()
        if r < 0.9:
            edit = rng.choice(gen.ATOM_EDITS)
            fb, label = gen.edit_atom(rng, fa, edit)
            if r < 0.08:  # occasionally a second edit on top
                fb, l2 = gen.edit_atom(rng, fb, rng.choice(gen.ATOM_EDITS))
                label = "two-edits"
        else:
            fb, label = gen.random_atom(rng), "random"
        mon.check_pair("atom", fa, fb, label)
        if k % 256 == 0 and ctx.out_of_time(50):
            break

    # sorted()/transitivity on small lists of near-identical objects
    for k in range(ctx.budget(1000, 10000)):
        if rng.random() < 0.4:
            base = gen.random_cpv(rng)
            fields = [base]
            for _ in range(rng.randrange(2, 6)):
                f, _l = (gen.lookalike_cpv if rng.random() < 0.4 else gen.one_attr_cpv)(rng, rng.choice(fields))
                fields.append(f)
            check_list(ctx, mon, "cpv", fields)
        else:
            base = gen.random_atom(rng)
            fields = [base]
            for _ in range(rng.randrange(2, 6)):
                f, _l = gen.edit_atom(rng, rng.choice(fields), rng.choice(gen.ATOM_EDITS))
                fields.append(f)
            check_list(ctx, mon, "atom", fields)
        if k % 32 == 0 and ctx.out_of_time(20):
            break


def classify(w):
    return models.classify(w)


def replay(ctx, w):
    mon = Mon(ctx)
    if "list" in w and "a" not in w:
        check_list(ctx, mon, w["type"], w["list"])
        return
    mon.check_pair(w["type"], w["a"], w["b"], w.get("edit", "replay"))
