"""C34 Saved-environment filtering removes exactly the named definitions (differential, system bash as oracle)."""

import io
import os

from ..gen import c34_defs as gen
from ..ref import c34_oracle as ref

ID = "C34"
LEVEL = "exploration"
TECHNIQUE = "differential against the system bash (dump -> filter -> source -> dump)"
RULE = ("bash defines 1-15 random variables (scalars/indexed/associative, hostile values) and 1-10 functions whose bodies "
        "are assembled from quoting/expansion/here-document/case/arithmetic fragments and compound wrappers, then dumps "
        "them itself (`set` lines, posix-mode `set` lines, ${v@A}, declare -p, declare -f); "
        "pkgcore.ebuild.filter_env.main_run filters the dump by random name-pattern lists (both modes); oracle = (a) the "
        "output is byte-for-byte the retained bash-written definitions, (b) a second bash that sources the output "
        "defines exactly what it defines from the ideally filtered dump, silently. Non-trivial: at least one definition "
        "removed and one retained and the dump holds a hard construct (brace/paren in quotes or expansion, "
        "here-document, case arm, '#', arithmetic shift, hostile value); distinct = distinct (dump text, pattern lists, "
        "modes).")
ASSUMPTIONS = [
    "the system bash (5.2) is the oracle for what a dump defines; cases whose ideal (hand-assembled from bash's own "
    "per-definition output) filtered dump does not reproduce the original values in bash, or is not sourced silently, "
    "are not judged (neither clause)",
    "plain assignments are `name=value` lines; `declare ...` lines are not plain assignments: pattern lists are built so "
    "that they never demand removal of a declare-form variable (only its preservation is judged)",
    "a pattern selects a name iff it matches the whole name; an empty pattern list in whitelist mode and a list made "
    "of empty strings only are unspecified",
    "blank characters left between retained definitions are not stray bytes",
    "the semantic clause is run for every case the textual clause rejects and for a sample of the others (when the "
    "textual clause holds the output differs from the ideal dump by blank lines only)",
    "while the probes of a recorded mechanism (known/C34.json) fail, the fragments its rule covers are kept out of the "
    "random dumps (counter mechanism_excluded:*); the probes are judged on every run and a mechanism whose probes "
    "pass is generated again",
]
SHARDS = {"quick": 4, "thorough": 16}
TIMEOUT = {"quick": 240, "thorough": 1800}
MIN_EVALS = 800
REQUIRED_COUNTERS = ("cases_judged", "semantic_evals", "defs_removed", "defs_retained", "probe_evals")

_HARD_TAGS = {"brace", "param", "heredoc", "case", "pound", "arith", "herestring", "nested-func", "hostile-value"}
BATCH = 24


def _scratch():
    d = os.environ.get("VT_SCRATCH") or "/var/tmp/c34-scratch-%d" % os.getpid()
    os.makedirs(d, exist_ok=True)
    return d


def _filter(text, vspecs, fspecs, vwl, fwl):
    """Run the real filter.  -> (bytes | None, exception text | None)"""
    from pkgcore.ebuild import filter_env

    out = io.BytesIO()
    try:
        filter_env.main_run(out, text, [ref.spec_regex(tuple(s)) for s in vspecs],
                            [ref.spec_regex(tuple(s)) for s in fspecs], vwl, fwl)
    except Exception as e:  # noqa
        return None, "%s: %s" % (type(e).__name__, e)
    return out.getvalue(), None


# ------------------------------------------------------------------------------------------------ phase 1: dumps

def gen_defs(rng, small, excl=frozenset()):
    nv = rng.randrange(1, 4) if small else rng.randrange(1, 16)
    nf = rng.randrange(1, 3) if small else rng.randrange(1, 11)
    names = []
    while len(names) < nv:
        n = gen.var_name(rng)
        if n not in names:
            names.append(n)
    variables = [gen.gen_var(rng, n, excl) for n in names]
    fnames = []
    while len(fnames) < nf:
        n = rng.choice(names) if rng.random() < 0.1 else gen.func_name(rng)
        if n not in fnames:
            fnames.append(n)
    functions = [gen.gen_func(rng, n, excl=excl) for n in fnames]
    r = rng.random()
    if r < 0.15:     # the shape pkgcore's own dump has: declare -p + declare -f
        for v in variables:
            v["fmt"] = "p"
    elif r < 0.40:   # posix-mode `set` listing
        for v in variables:
            if v["fmt"] == "set":
                v["fmt"] = "pset"
    return variables, functions


def dump_batch(ctx, scratch, marker, locale, defs):
    """defs = [(variables, functions)] -> list of case dicts (None for cases lost to a harness/bash hiccup)."""
    jobs = []
    for i, (variables, functions) in enumerate(defs):
        p = os.path.join(scratch, "defs_%d.sh" % i)
        with open(p, "wb") as f:
            f.write(gen.definitions_text(variables, functions).encode("utf-8"))
        jobs.append((i, p, variables, functions, any(v["fmt"] == "pset" for v in variables)))
    sp = os.path.join(scratch, "dump.sh")
    with open(sp, "wb") as f:
        f.write(gen.dump_script(marker, jobs).encode("utf-8"))
    rc, so, se = gen.run_bash(sp, scratch, locale)
    ctx.count("bash_dump_runs")
    cases = [None] * len(defs)
    if rc is None:
        ctx.count("bash_timeout")
        return cases
    try:
        text = so.decode("utf-8")
    except UnicodeDecodeError:
        ctx.skip_unspecified("bash dump is not UTF-8")
        return cases
    secs = ref.split_sections(text, marker)
    if not secs:
        ctx.count("dump_batch_unparsable")
        ctx.note("dump batch: rc=%r stderr=%r" % (rc, se[:300]))
        return cases
    if secs[-1][0] != ["END"]:
        # a fatal parse error inside one definitions file ends the whole bash: the cases dumped before it are intact
        ctx.count("dump_batch_truncated")
        ctx.note("dump batch truncated: rc=%r stderr=%r" % (rc, se[:300]))
    base = ref.parse_state(secs, "BASE")
    if base is None:
        ctx.count("dump_batch_unparsable")
        return cases
    # group the sections by case index
    per = {}
    for h, b in secs:
        if h[0] in ("CASE", "SET", "PSET", "CASE-END") and len(h) == 2:
            per.setdefault(int(h[1]), {})[h[0]] = b
        elif h[0] in ("A", "P", "F") and len(h) >= 3:
            per.setdefault(int(h[1]), {})[(h[0], " ".join(h[2:]))] = b
    for i, (variables, functions) in enumerate(defs):
        d = per.get(i, {})
        if "CASE-END" not in d or d.get("CASE", "x").strip("\n") != "":
            ctx.count("gen_rejected_by_bash")
            ctx.note("generator produced text bash rejects: %r" % (d.get("CASE", "")[:300],))
            if os.environ.get("C34_KEEP_REJECTED"):
                import shutil
                shutil.copy(os.path.join(scratch, "defs_%d.sh" % i), os.environ["C34_KEEP_REJECTED"])
            continue
        orig = ref.parse_state(secs, "ORIG%d" % i)
        if orig is None:
            ctx.count("dump_unparsable")
            continue
        cases[i] = assemble_case(ctx, d, variables, functions, orig, base, locale)
    return cases


def assemble_case(ctx, d, variables, functions, orig, base, locale):
    fnames = {f["name"] for f in functions}
    allnames = set(orig["vars"]) | {"POSIXLY_CORRECT"}
    setlines = {}
    for ln in d.get("SET", "").split("\n"):
        if ln.endswith(" () ") and ln[:-4] in fnames:
            break                                 # the function part of the listing starts here
        if "=" in ln:
            setlines.setdefault(ln.split("=", 1)[0], ln + "\n")
    psets = {}
    if "PSET" in d:
        cur = None
        for ln in d["PSET"].split("\n"):
            n = ln.split("=", 1)[0] if "=" in ln else None
            if n in allnames and n not in psets:
                cur = n
                psets[n] = []
            if cur is not None:
                psets[cur].append(ln)
        psets = {n: "\n".join(ls).rstrip("\n") + "\n" for n, ls in psets.items()}
    chunks = []
    for v in sorted(variables, key=lambda v: v["name"].encode()):
        n = v["name"]
        if v["fmt"] == "set":
            c = setlines.get(n)
        elif v["fmt"] == "pset":
            c = psets.get(n)
        else:
            c = d.get(("A" if v["fmt"] == "A" else "P", n))
        if not c or not c.endswith("\n"):
            ctx.count("dump_unparsable")
            return None
        ctx.count("varfmt:" + v["fmt"])
        chunks.append({"type": "var", "name": n, "text": c, "passive": c.startswith("declare ")})
    tags = set()
    for f in sorted(functions, key=lambda f: f["name"].encode()):
        c = d.get(("F", f["name"]))
        if not c or not c.endswith("}\n"):
            ctx.count("dump_unparsable")
            return None
        chunks.append({"type": "func", "name": f["name"], "text": c, "passive": False})
        tags |= set(f["tags"])
    for c in chunks:
        if c["type"] == "var" and any(ch in c["text"] for ch in "}{)(#"):
            tags.add("hostile-value")
    ovars = {n: e for n, e in orig["vars"].items() if n not in base["vars"]}
    ofuncs = {c["name"]: c["text"] for c in chunks if c["type"] == "func"}
    return {"locale": locale, "chunks": chunks, "orig": (ovars, ofuncs), "tags": sorted(tags)}


def choose_patterns(rng, case, excl=frozenset()):
    ch = case["chunks"]
    plain = [c["name"] for c in ch if c["type"] == "var" and not c["passive"]]
    passive = [c["name"] for c in ch if c["type"] == "var" and c["passive"]]
    funcs = [c["name"] for c in ch if c["type"] == "func"]
    vwl = rng.random() < 0.3
    fwl = rng.random() < 0.3
    vpool = plain + (funcs[:2] if rng.random() < 0.3 else [])
    fpool = funcs + (plain[:2] if rng.random() < 0.3 else [])
    vspecs = [] if rng.random() < 0.15 else gen.gen_patterns(rng, vpool or funcs, passive, vwl, excl)
    fspecs = [] if rng.random() < 0.10 else gen.gen_patterns(rng, fpool, [], fwl, excl)
    return vspecs, fspecs, vwl, fwl


# ------------------------------------------------------------------------------------------------ clause (a)

def judge_textual(ctx, case, vspecs, fspecs, vwl, fwl):
    """-> (violations [(kind, witness)], job | None).  job = data for the semantic clause."""
    chunks = case["chunks"]
    text = "".join(c["text"] for c in chunks)
    w = {"chunks": [{k: c[k] for k in ("type", "name", "text", "passive")} for c in chunks],
         "vspecs": [list(s) for s in vspecs], "fspecs": [list(s) for s in fspecs], "vwl": vwl, "fwl": fwl,
         "locale": case["locale"]}
    keep = []
    for c in chunks:
        isf = c["type"] == "func"
        r = ref.removed(fspecs if isf else vspecs, fwl if isf else vwl, c["name"])
        if r is None:
            ctx.skip_unspecified("whitelist mode with an empty pattern list")
            return [], None
        if (fspecs if isf else vspecs) and not ref.effective(fspecs if isf else vspecs):
            ctx.skip_unspecified("pattern list made of empty strings only (the command line parser drops empty items)")
            return [], None
        if r and c["passive"]:
            ctx.skip_unspecified("pattern list selects a declare-form variable")
            return [], None
        keep.append(not r)
    ctx.count("defs_removed", keep.count(False))
    ctx.count("defs_retained", keep.count(True))
    out, exc = _filter(text, vspecs, fspecs, vwl, fwl)
    ctx.count("filter_calls")
    ctx.evaluated()
    ctx.count("textual_evals")
    if exc is not None:
        return [("filter-raises", dict(w, exc=exc))], None
    try:
        outs = out.decode("utf-8")
    except UnicodeDecodeError:
        return [("output-not-utf8", dict(w, impl_hex=out.hex()[:400]))], None
    retained = [c["text"] for c, k in zip(chunks, keep) if k]
    w["expected_retained"] = [[c["type"], c["name"]] for c, k in zip(chunks, keep) if k]
    w["impl_output"] = outs
    viols = []
    dev = ref.textual_check(outs, retained)
    if dev is not None:
        viols.append(("output-is-not-the-retained-definitions", dict(w, deviation=dev, rule=dev["why"])))
    job = {"w": w, "ideal": "".join(retained), "impl": out, "keep": keep, "case": case, "textual_ok": dev is None,
           "textual_viols": viols}
    return viols, job


# ------------------------------------------------------------------------------------------------ clause (b)

def judge_semantic_batch(ctx, scratch, marker, locale, jobs, ideal_only=False):
    """One bash for the whole batch.  -> {job index: [(kind, witness)]}.  The textual violations of a job are
    reported from here too, once bash has confirmed that the hand-assembled ideal dump is faithful."""
    res = {}
    if not jobs:
        return res
    files = []
    for j, job in enumerate(jobs):
        pi = os.path.join(scratch, "ideal_%d.env" % j)
        pm = os.path.join(scratch, "impl_%d.env" % j)
        with open(pi, "wb") as f:
            f.write(job["ideal"].encode("utf-8"))
        files.append(("%d.IDEAL" % j, pi))
        if not ideal_only:
            with open(pm, "wb") as f:
                f.write(job["impl"])
            files.append(("%d.IMPL" % j, pm))
    sp = os.path.join(scratch, "source.sh")
    with open(sp, "wb") as f:
        f.write(gen.source_script(marker, files).encode("utf-8"))
    rc, so, se = gen.run_bash(sp, scratch, locale)
    ctx.count("bash_source_runs")
    secs = ref.split_sections(so.decode("utf-8", "replace"), marker) if rc is not None else []
    base = ref.parse_state(secs, "BASE") if secs else None
    if rc is None or base is None or base["fnames"] or secs[-1][0] != ["END"]:
        ctx.count("bash_timeout" if rc is None else "source_batch_unparsable")
        ctx.note("source batch lost: rc=%r stderr=%r ideal_only=%r" % (rc, se[:300], ideal_only))
        if not ideal_only and any(job["textual_viols"] for job in jobs):
            # a torn output may have wedged the shell: still confirm the ideal dumps so that the textual verdicts stand
            return judge_semantic_batch(ctx, scratch, marker, locale, jobs, ideal_only=True)
        ctx.skip_unspecified("second bash produced no usable output (whole batch dropped)")
        return res
    for j, job in enumerate(jobs):
        res[j] = _judge_semantic_one(ctx, secs, base, j, job, ideal_only)
    return res


def _strip(st, base):
    return {n: e for n, e in st["vars"].items() if n not in base["vars"] and not n.startswith(gen.HARNESS_PREFIX)}


def _judge_semantic_one(ctx, secs, base, j, job, ideal_only=False):
    w = job["w"]
    chunks = job["case"]["chunks"]
    keep = job["keep"]
    st_ideal = ref.parse_state(secs, "%d.IDEAL" % j)
    out_ideal = ref.source_output(secs, "%d.IDEAL" % j)
    if st_ideal is None or out_ideal is None or st_ideal["ftext"] is None:
        ctx.count("ideal_dump_not_sourceable")
        ctx.skip_unspecified("bash cannot source its own (ideally filtered) dump")
        return []
    if out_ideal != "":
        ctx.count("ideal_dump_not_silent")
        ctx.skip_unspecified("bash prints diagnostics when sourcing its own (ideally filtered) dump")
        return []
    iv = _strip(st_ideal, base)
    want_v = {c["name"] for c, k in zip(chunks, keep) if k and c["type"] == "var"}
    want_f = {c["name"]: c["text"] for c, k in zip(chunks, keep) if k and c["type"] == "func"}
    faithful = set(iv) == want_v and set(st_ideal["fnames"]) == set(want_f) and \
        st_ideal["ftext"] == "".join(want_f[n] for n in st_ideal["fnames"])
    orig = job["case"].get("orig")
    if faithful and orig is not None:
        ov = orig[0]
        faithful = all(n in ov and ref.value_only(iv[n]) == ref.value_only(ov[n]) for n in want_v)
    if not faithful:
        ctx.count("bash_roundtrip_unfaithful")
        if job["textual_viols"]:
            ctx.count("textual_deviation_dropped_unfaithful_dump")
        ctx.skip_unspecified("bash does not reproduce the original definitions from its own dump")
        return []
    viols = list(job["textual_viols"])
    if ideal_only:
        return viols
    ctx.evaluated()
    ctx.count("semantic_evals")
    st_impl = ref.parse_state(secs, "%d.IMPL" % j)
    out_impl = ref.source_output(secs, "%d.IMPL" % j)
    if st_impl is None or out_impl is None or st_impl["ftext"] is None:
        return viols + [("sourcing-filtered-output-aborts", dict(w, rule="aborted"))]
    mv = _strip(st_impl, base)
    diff = {}
    for n in sorted(set(iv) | set(mv)):
        if iv.get(n) != mv.get(n):
            diff["var " + n] = {"ideal": iv.get(n), "impl": mv.get(n)}
    fi, fm = st_ideal["fnames"], st_impl["fnames"]
    for n in sorted(set(fi) | set(fm)):
        if (n in fi) != (n in fm):
            diff["func " + n] = {"ideal": n in fi, "impl": n in fm}
    if not diff and st_ideal["ftext"] != st_impl["ftext"]:
        diff["function bodies"] = {"ideal": st_ideal["ftext"][:600], "impl": st_impl["ftext"][:600]}
    if diff:
        rules = set()
        for d in diff.values():
            rules.add("missing" if d["impl"] in (None, False) else ("extra" if d["ideal"] in (None, False) else "changed"))
        return viols + [("sourced-state-differs", dict(w, state_diff=diff, source_output=out_impl[:400],
                                                       rule="+".join(sorted(rules))))]
    if out_impl != "":
        return viols + [("sourcing-filtered-output-is-not-silent", dict(w, source_output=out_impl[:400], rule="noise"))]
    if not job["textual_ok"]:
        ctx.count("textual_deviation_semantically_harmless")
    return viols


# ------------------------------------------------------------------------------------------------ driver

def probe_jobs(ctx):
    """Judge every probe of every recorded mechanism (textual clause, pure Python).
    -> (keys whose probes fail, jobs of the failing probe arrangements)"""
    failing, jobs = set(), []
    for key, pid, chunks, vs, fs, vwl, fwl in gen.probe_arrangements():
        case = {"locale": "C.UTF-8", "chunks": chunks, "tags": [], "orig": None}
        viols, job = judge_textual(ctx, case, vs, fs, vwl, fwl)
        ctx.count("probe_evals")
        if viols:
            failing.add(key)
            ctx.count("probe_failing:" + key)
            if job is None:      # exception / undecodable output: nothing for bash to do
                job = {"textual_viols": viols, "direct": True}
            for _, w in job["textual_viols"]:
                w["probe"] = "%s/%s" % (key, pid)
            jobs.append(job)
        else:
            ctx.count("probe_passing:" + key)
    return failing, jobs


def run(ctx):
    rng = ctx.rng
    scratch = _scratch()
    failing, pjobs = probe_jobs(ctx)
    excl = frozenset(failing)
    for k in sorted(excl):
        ctx.count("mechanism_excluded:" + k)
    if ctx.shard == 0:
        # the probes are bash-written constants: their textual verdicts need no confirmation by a second bash (the
        # semantic clause is exercised on them by the pinned witnesses of known/C34.json, replayed before run())
        for job in pjobs:
            for kind, w in job["textual_viols"]:
                ctx.violation(kind, w)
    nbatches = ctx.budget(4, 30)
    draws = 4
    for b in range(nbatches):
        if ctx.out_of_time(ctx.budget(60, 120)):
            ctx.note("stopped early by the soft deadline after %d batches" % b)
            break
        marker = "@@C34-%08x@@" % rng.getrandbits(32)
        locale = rng.choice(["C", "C.UTF-8", "C.UTF-8"])
        defs = [gen_defs(rng, rng.random() < 0.3, excl) for _ in range(BATCH)]
        cases = dump_batch(ctx, scratch, marker, locale, defs)
        jobs = []
        pending = []
        for case in cases:
            if case is None:
                continue
            ctx.count("dumps")
            text = "".join(c["text"] for c in case["chunks"])
            for t in case["tags"]:
                ctx.count("tag:" + t)
            sem_pick = rng.randrange(draws)
            for k in range(draws):
                vspecs, fspecs, vwl, fwl = choose_patterns(rng, case, excl)
                viols, job = judge_textual(ctx, case, vspecs, fspecs, vwl, fwl)
                ctx.count("cases_judged")
                ctx.count("mode:%s/%s" % ("W" if vwl else "B", "W" if fwl else "B"))
                if job is not None:
                    if set(case["tags"]) & _HARD_TAGS and False in job["keep"] and True in job["keep"]:
                        ctx.nontrivial([text, vspecs, fspecs, vwl, fwl])
                    if k == sem_pick or viols:
                        jobs.append(job)
                        ctx.count("semantic_for_textual_failure" if viols else "semantic_sampled")
                else:
                    pending.extend(viols)        # filter raised / output undecodable: no bash needed
                if ctx.want_sample():
                    ctx.sample({"dump": text[:1500], "vars": [ref.spec_regex(s) for s in vspecs],
                                "funcs": [ref.spec_regex(s) for s in fspecs], "vars_whitelist": vwl,
                                "funcs_whitelist": fwl, "violations": [kd for kd, _ in viols]})
        for vs in judge_semantic_batch(ctx, scratch, marker, locale, jobs).values():
            pending.extend(vs)
        for kind, w in pending:
            ctx.violation(kind, w)


def _signature(w):
    return ([c["text"] for c in w.get("chunks", [])], [list(x) for x in w.get("vspecs", [])],
            [list(x) for x in w.get("fspecs", [])], bool(w.get("vwl")), bool(w.get("fwl")))


_PROBE_SIGS = None


def classify(w):
    """A witness is attributed to a recorded mechanism only when it IS one of that mechanism's probes (same bash
    written definitions, same pattern lists, same modes); everything else stays unclassified."""
    global _PROBE_SIGS
    if _PROBE_SIGS is None:
        _PROBE_SIGS = []
        for key, pid, chunks, vs, fs, vwl, fwl in gen.probe_arrangements():
            _PROBE_SIGS.append((([c["text"] for c in chunks], [list(core_jsonable(x)) for x in vs],
                                 [list(core_jsonable(x)) for x in fs], vwl, fwl), key))
    sig = _signature(w)
    for psig, key in _PROBE_SIGS:
        if psig == sig:
            return key
    return None


def core_jsonable(x):
    from ..core import jsonable
    return jsonable(x)


def replay(ctx, w):
    scratch = _scratch()
    case = {"locale": w.get("locale", "C.UTF-8"), "chunks": w["chunks"], "tags": [], "orig": None}
    viols, job = judge_textual(ctx, case, [tuple(s) for s in w["vspecs"]], [tuple(s) for s in w["fspecs"]], w["vwl"], w["fwl"])
    if job is not None:
        viols = []
        for vs in judge_semantic_batch(ctx, scratch, "@@C34-replay@@", case["locale"], [job]).values():
            viols.extend(vs)
    for kind, w2 in viols:
        ctx.violation(kind, w2)
