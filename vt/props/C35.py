"""C35 The Python/daemon command protocol never deadlocks or desynchronises (real daemon sessions)."""

import os
import shutil
import signal
import threading
import time

ID = "C35"
LEVEL = "exploration"
NEEDS_EBD = True
RULE = ("sessions of 6-14 API-level actions on REAL bash daemons: metadata regeneration of good / failing (die in global scope, "
        "unknown eclass, syntax error, multi-line stderr) ebuilds, async and sync eclass preload batches incl. a syntax-error "
        "eclass, clear_preloaded_eclasses, environment dumps, src_compile phases that run pkgcore's real bashrc exchange over bashrc "
        "lists with regular, missing, directory, dangling, failing and syntactically broken entries, pretend phases whose bodies succeed, die, exit 3, signal "
        "the daemon, call a helper, or emit an unknown command word; SIGINT/SIGTERM/SIGSTOP-SIGCONT sent from outside at random "
        "moments; responsiveness probes in between. Monitors: (1) a stall monitor (Python blocked in a pipe read while every "
        "daemon process sleeps in read/wait4 and the pipe is empty) = both sides waiting; (2) every recorded protocol trace is "
        "replayed through a specification automaton (request/reply FIFO pairing, byte-counted payloads, allowed daemon-initiated "
        "commands per state); (3) API-level oracle: an unknown command makes the call raise; after any action the processor that "
        "pkgcore hands out next regenerates two probe packages with THEIR OWN metadata (a stale or swapped reply is visible). "
        "Non-trivial: a session containing a failing/signalled/unknown-command action followed by a probe; distinct = trace shape.")
ASSUMPTIONS = [
    "decides the interleavings produced (distinct trace shapes x signal moments counted in the evidence), not all interleavings",
    "the sandbox-summary exchange is not reachable here (no sandbox binary), so its spelling is not exercised at run time",
    "bash 5.2 of this sandbox",
]
SHARDS = {"quick": 4, "thorough": 16}
TIMEOUT = {"quick": 480, "thorough": 2400}
MIN_EVALS = 80
REQUIRED_COUNTERS = ("sessions", "traces_checked", "probe_ok", "bashrc_exchanges:3", "stopped_daemon_sessions:clear", "stopped_daemon_sessions:request")
TECHNIQUE = "runtime monitoring: real daemon sessions under signals/delays; stall detector + protocol-trace automaton + API oracle"

GOOD_ECLASSES = {"g1": 'IUSE="g1f"\n', "g2": 'IUSE="g2f"\ninherit g1\n', "g3": 'DEPEND="dev/g3"\n'}
BAD_ECLASS = ("badsyn", "if then fi ((\n")

EBUILDS = {
    # cpv: (text, expected outcome)
    "cat/ok1-1": ('EAPI=7\nSLOT="s1"\ninherit g2\n', "ok"),
    "cat/ok2-1": ('EAPI=8\nSLOT="s2"\ninherit g3 g1\n', "ok"),
    "cat/dieglobal-1": ('EAPI=7\nSLOT=0\ndie "global scope death"\n', "fail"),
    "cat/unknownecl-1": ('EAPI=7\nSLOT=0\ninherit nosuch\n', "fail"),
    "cat/syntax-1": ('EAPI=7\nSLOT=0\nif then fi ((\n', "fail"),
    "cat/multiline-1": ('EAPI=7\nSLOT=0\necho "line one" >&2\necho "line two" >&2\necho "line three" >&2\nreturn 1\n', "fail"),
    "cat/phases-1": ('EAPI=7\nSLOT=0\npkg_pretend() { eval "${VT_BODY}"; }\npkg_setup() { eval "${VT_BODY}"; }\n', "ok"),
}
PROBE_SLOTS = {"cat/ok1-1": "s1", "cat/ok2-1": "s2"}

BODIES = {
    "noop": (":", "ok"),
    "sleep": ("sleep 0.05", "ok"),
    "die": ('die "phase death"', "raise"),
    "exit3": ("exit 3", "raise-or-false"),
    "false": ("return 1", "any"),
    "term-self": ("kill -TERM $$; sleep 0.2", "raise-or-false"),
    "int-self": ("kill -INT $$; sleep 0.2", "raise-or-false"),
    "unknown-cmd": ('echo "bogus_cmd x y" >&${PKGCORE_EBD_WRITE_FD}; sleep 0.1', "must-raise"),
    "helper": ("has_version cat/whatever || :", "ok"),
    "helper-twice": ("has_version cat/a || :; has_version cat/b || :", "ok"),
    "stderr-multiline-fail": ('echo -e "a\\nb\\nc" >&2; exit 1', "raise-or-false"),
}


class Harness:
    timeouts = 0          # pkgcore-internal liveness timeouts seen in this process
    expect_timeout = False

    def __init__(self, ctx):
        from pkgcore.ebuild import processor
        from .. import ebd
        self.ctx = ctx
        self.ebd = ebd
        self.processor = processor
        self.registry = ebd.install_trace()
        self.checked = 0
        self.root = os.path.join(os.environ["VT_SCRATCH"], "c35repo")
        shutil.rmtree(self.root, ignore_errors=True)
        ebd.make_repo(self.root)
        for n, t in GOOD_ECLASSES.items():
            ebd.write(self.root + "/eclass/%s.eclass" % n, t)
        ebd.write(self.root + "/eclass/%s.eclass" % BAD_ECLASS[0], BAD_ECLASS[1])
        for cpv, (text, _) in EBUILDS.items():
            ebd.write(ebd.ebuild_path(self.root, cpv), text)
        self.T = self.root + "/T"
        self.E = self.root + "/empty"
        os.makedirs(self.T)
        os.makedirs(self.E)
        self.repo = ebd.open_repo(self.root)
        self.stale_probes = []
        self.cur_bashrcs = []
        # contract on the liveness probe: whenever it answers False although a line WAS read, Python took
        # some other request's reply (or residue) for the answer to 'alive'
        if not getattr(processor.EbuildProcessor, "_vt_probe_wrapped", False):
            orig_prop = processor.EbuildProcessor.is_responsive
            harness = self

            def probed(self_):
                tr = ebd.trace_of(self_) if getattr(self_, "ebd_write", None) is not None else None
                mark = len(tr.events) if tr is not None else 0
                n_out = len(getattr(self_, "_outstanding_expects", ()) or ())
                res = orig_prop.fget(self_)
                ctx.count("contract_is_responsive_calls")
                if not res and tr is not None:
                    # replies of batched expectations still outstanding come first; the probe's own reply is read after them
                    reads = [p for _, _, k, p in tr.events[mark:] if k == "R"][n_out:]
                    if reads and reads[0] not in (b"", "") :
                        line = reads[0].decode("utf-8", "replace") if isinstance(reads[0], bytes) else reads[0]
                        if line.strip() != "yep!":
                            Harness.current.stale_probes.append({"line": line[:120], "last": dict(getattr(tr, "vt_last", None) or {}),
                                                                 "tail": [[k, (p if isinstance(p, str) else p.decode("utf-8", "replace"))[:80]]
                                                                          for _, _, k, p in tr.events[max(0, mark - 6):] if k != "RE"]})
                return res

            processor.EbuildProcessor.is_responsive = property(probed)
            processor.EbuildProcessor._vt_probe_wrapped = True
            orig_timeout = processor.EbuildProcessor._timeout_ebp

            def timed_out(self_, signum, frame):
                # pkgcore's own 10 s alarm on the liveness probe fired.  Why?  If the daemon is still busy (runnable,
                # waiting for a helper of its own, stopped, or with the request still unread in the command pipe) the
                # box is merely slower than the alarm: the step is discarded.  If the daemon is gone or sits idle on an
                # empty command pipe, it has consumed the probe and was never going to answer it: that is the
                # protocol's doing and the step is judged as usual.
                cause = "daemon-busy"
                try:
                    pid = self_.pid
                    tr_ = ebd.trace_of(self_)
                    last_busy = getattr(tr_, "last_busy", None) if tr_ is not None else None
                    if not pid or ebd.proc_state(pid) in (None, "Z", "X"):
                        cause = "daemon-gone"
                    elif not ebd.daemon_busy(pid, self_):
                        cause = "daemon-idle"
                    # the state NOW may be a fraction of a second younger than the alarm (a daemon that answers at
                    # 10.001 s looks idle here): what counts is whether it was still busy shortly before
                    if cause != "daemon-busy" and last_busy is not None and time.monotonic() - last_busy < 3.0:
                        cause = "daemon-busy"
                except Exception:
                    cause = "daemon-busy"
                if os.environ.get("VT_C35_DEBUG"):
                    try:
                        tr = ebd.trace_of(self_)
                        ctx.note("alarm cause=%s pid=%r diag=%r tail=%r" % (cause, self_.pid, ebd.stall_diagnostics(self_.pid, self_) if self_.pid else None,
                                 [(k, p[:60]) for _, _, k, p in tr.events[-6:]] if tr else None))
                    except Exception as e:
                        ctx.note("alarm debug failed %r" % (e,))
                ctx.count("pkgcore_liveness_alarm:" + cause)
                if cause == "daemon-busy":
                    Harness.timeouts += 1
                return orig_timeout(self_, signum, frame)

            processor.EbuildProcessor._timeout_ebp = timed_out
        Harness.current = self
        self.pkgs = {}
        from pkgcore.ebuild.cpv import VersionedCPV
        for cpv in EBUILDS:
            c = VersionedCPV(cpv)
            self.pkgs[cpv] = self.repo.package_class(c.category, c.package, c.fullver)

    # -- processor handling the way pkgcore's own callers do it -------------------------
    def acquire(self):
        return self.processor.request_ebuild_processor()

    def release(self, ebp):
        try:
            self.processor.release_ebuild_processor(ebp)
        except Exception:
            pass

    def helper_handler(self, ebp, *a):
        # daemon side of the frame is real (__ebd_ipc_cmd); answer with one status line
        for _ in range(5):
            ebp.read()
        ebp.write("0\x071")  # status 0, value 1 (= "not installed")

    def bashrc_handler(self, ebp, *a):
        # the REAL Python half of the exchange (ebd._request_bashrcs) over a stub that only supplies the bashrc list
        from pkgcore.ebuild import ebd as ebd_mod
        from snakeoil.data_source import local_source
        owner = [c for c in vars(ebd_mod).values() if isinstance(c, type) and "_request_bashrcs" in vars(c)][0]

        class _Dom:
            def get_package_bashrcs(_s, pkg):
                return [local_source(p) for p in self.cur_bashrcs]

        class _Self:
            domain = _Dom()
            pkg = self.pkgs["cat/phases-1"]

        self.ctx.count("bashrc_exchanges:%d" % len(self.cur_bashrcs))
        owner._request_bashrcs(_Self(), ebp)

    def bashrc_list(self, variant):
        """bashrc lists incl. entries that are not (or no longer) regular files."""
        b = self.root + "/brc"
        if not os.path.isdir(b):
            os.makedirs(b + "/hookdir")
            self.ebd.write(b + "/one", "export VT_BRC_ONE=1\n")
            self.ebd.write(b + "/two", "VT_BRC_TWO=2\n")
            self.ebd.write(b + "/fails", "return 1\n")
            self.ebd.write(b + "/syntax", "if then fi ((\n")
            os.symlink("nowhere", b + "/dangling")
        return {"none": [], "one": [b + "/one"], "two": [b + "/one", b + "/two"], "dir": [b + "/hookdir"],
                "file-dir-file": [b + "/one", b + "/hookdir", b + "/two"], "missing": [b + "/gone"],
                "missing-then-file": [b + "/gone", b + "/one"], "dangling": [b + "/dangling", b + "/two"],
                "fails": [b + "/fails", b + "/one"], "syntax": [b + "/syntax", b + "/two"]}[variant]

    # -- actions ---------------------------------------------------------------------------
    def act(self, ebp, action):
        """-> (outcome, detail): outcome in ok|false|raised:<Type>"""
        kind = action[0]
        try:
            if kind == "alive":
                r = ebp.is_responsive
                return ("ok" if r else "false"), None
            if kind == "metadata":
                keys = ebp.get_keys(self.pkgs[action[1]], self.repo.eclass_cache)
                return "ok", keys
            if kind == "env":
                txt = ebp.get_ebuild_environment(self.pkgs[action[1]], self.repo.eclass_cache)
                return "ok", len(txt)
            if kind == "preload":
                names, async_req = action[1], action[2]
                r = ebp.preload_eclasses(self.repo.eclass_cache, async_req=async_req, limited_to=names)
                return ("ok" if r else "false"), None
            if kind == "clear":
                r = ebp.clear_preloaded_eclasses()
                return ("ok" if r else "false"), None
            if kind == "bashrc":
                # a src_* phase loads the saved environment and then runs the bashrc exchange (pkg_pretend suppresses it);
                # the phase body is the EAPI default (a no-op here): what is exercised is request_bashrcs/path/next/end_request
                variant, tmpdir = action[1], action[2]
                # the daemon re-saves ${T}/environment after every src_* phase (and leaves a partial file when it is killed
                # while doing so): start every exchange from a known one
                envf = self.T + "/environment"
                self.ebd.write(envf, 'S="%s"\nWORKDIR="%s"\n' % (self.T, self.T))
                self.cur_bashrcs = self.bashrc_list(variant)
                pkg = self.pkgs["cat/phases-1"]
                env = self.processor.expected_ebuild_env(pkg, {}, depends=True)
                env.update({"T": self.T, "PKGCORE_EMPTYDIR": self.E, "PATH": os.environ["PATH"]})
                r = ebp.run_phase("compile", env, tmpdir=(self.T if tmpdir else None), sandbox=False,
                                  additional_commands={"has_version": self.helper_handler,
                                                       "request_bashrcs": self.bashrc_handler})
                return ("ok" if r else "false"), None
            if kind == "phase":
                phase, body, tmpdir = action[1], action[2], action[3]
                self.cur_bashrcs = self.bashrc_list(action[4] if len(action) > 4 else "none")
                pkg = self.pkgs["cat/phases-1"]
                env = self.processor.expected_ebuild_env(pkg, {}, depends=True)
                env.update({"T": self.T, "PKGCORE_EMPTYDIR": self.E, "PATH": os.environ["PATH"],
                            "VT_BODY": BODIES[body][0]})
                r = ebp.run_phase(phase, env, tmpdir=(self.T if tmpdir else None), sandbox=False,
                                  additional_commands={"has_version": self.helper_handler,
                                                       "request_bashrcs": self.bashrc_handler})
                return ("ok" if r else "false"), None
        except KeyboardInterrupt as e:
            return "raised:KeyboardInterrupt", str(e)[:200]
        except SystemExit as e:
            return "raised:SystemExit", str(e)[:200]
        except BaseException as e:
            return "raised:" + type(e).__name__, str(e)[:300]
        return "ok", None

    def gen_action(self, rng):
        r = rng.random()
        if r < 0.10:
            return ["alive"]
        if r < 0.40:
            return ["metadata", rng.choice(list(EBUILDS))]
        if r < 0.47:
            return ["env", rng.choice(["cat/ok1-1", "cat/ok2-1"])]
        if r < 0.60:
            names = rng.sample(list(GOOD_ECLASSES) + [BAD_ECLASS[0]], rng.choice([1, 2, 3, 4]))
            return ["preload", names, rng.random() < 0.6]
        if r < 0.67:
            return ["clear"]
        if r < 0.76:
            return ["bashrc", rng.choice(["none", "one", "two", "dir", "file-dir-file", "missing", "missing-then-file", "dangling",
                                          "fails", "syntax"]), rng.random() < 0.4]
        return ["phase", "pretend", rng.choice(list(BODIES)), rng.random() < 0.4]

    # -- probe: does the processor pkgcore hands out next answer with the right data? -----
    def probe(self, wit):
        ctx = self.ctx
        ebp = None
        # alternate the probe package so that a stale or swapped reply (the other package's SLOT) is visible
        self.probe_turn = getattr(self, "probe_turn", 0) + 1
        items = list(PROBE_SLOTS.items())
        for cpv, slot in [items[self.probe_turn % 2]]:
            try:
                ebp = self.acquire()
                try:
                    keys = ebp.get_keys(self.pkgs[cpv], self.repo.eclass_cache)
                finally:
                    self.release(ebp)
            except KeyboardInterrupt as e:
                ctx.evaluated()
                ctx.violation("probe-after-action-failed", dict(wit, probe=cpv, error="KeyboardInterrupt: %s" % e, rule=wit["last_kind"]))
                return False
            except BaseException as e:
                ctx.evaluated()
                ctx.violation("probe-after-action-failed", dict(wit, probe=cpv, error="%s: %s" % (type(e).__name__, str(e)[:300]),
                                                                rule=wit["last_kind"]))
                return False
            ctx.evaluated()
            if keys.get("SLOT") != slot or not keys.get("EAPI"):
                ctx.violation("probe-got-someone-elses-reply", dict(wit, probe=cpv, got={k: keys.get(k) for k in ("SLOT", "EAPI", "IUSE")},
                                                                    want_slot=slot, rule=wit["last_kind"]))
                return False
        ctx.count("probe_ok")
        return True

    def check_traces(self, wit, tolerate_unknown):
        """Replay every not-yet-checked trace (complete sessions and the live one) through the automaton."""
        from ..ref import c35_protocol
        ctx = self.ctx
        for tr in list(self.registry):
            if getattr(tr, "vt_checked_upto", 0) == len(tr.events):
                continue
            tr.vt_checked_upto = len(tr.events)
            events = [(k, p) for _, _, k, p in tr.events if k != "RE"]
            anomalies, counts = c35_protocol.check(events)
            ctx.count("traces_checked")
            ctx.evaluated()
            prev = getattr(tr, "vt_counts", {})
            for k, v in counts.items():
                if v - prev.get(k, 0) > 0:
                    ctx.count("trace:" + k, v - prev.get(k, 0))
            tr.vt_counts = counts
            shape = tr.shape()
            ctx.count("trace_lines", len(events))
            self.shapes.add(shape)
            seen = getattr(tr, "vt_reported", set())
            for idx, code, detail in anomalies:
                if (idx, code) in seen:
                    continue
                seen.add((idx, code))
                if code == "unknown-daemon-command" and tolerate_unknown and "bogus_cmd" in detail:
                    ctx.count("injected_unknown_commands_seen_in_trace")
                    continue
                if code == "liveness-probe-got-other-line":
                    last = getattr(tr, "vt_last", None) or {}
                    oc = last.get("outcome", "")
                    session_ending = oc.startswith("raised:") and oc != "raised:ProcessorError"
                    if oc == "raised:UnhandledCommand" and (last.get("action") or [None, None, None])[2:3] != ["unknown-cmd"]:
                        session_ending = False   # e.g. "expects out of alignment": every reply had been read
                    if last.get("hard_signal") or session_ending or not last:
                        ctx.count("failed_probe_after_session_ending_event")
                        continue
                    tail = [[k, (p if isinstance(p, str) else p.decode("utf-8", "replace"))[:100]] for k, p in events[max(0, idx - 8): idx + 2]]
                    ctx.violation("residue-left-in-pipe-after-normal-return",
                                  dict(wit, previous=last, detail=detail, trace_tail=tail,
                                       rule=(last.get("action") or ["?"])[0] + ":" + oc))
                    continue
                tail = [[k, (p if isinstance(p, str) else p.decode("utf-8", "replace"))[:100]] for k, p in events[max(0, idx - 6): idx + 2]]
                ctx.violation("trace-rejected-by-protocol-automaton", dict(wit, anomaly=code, detail=detail, trace_tail=tail, rule=code))
            tr.vt_reported = seen


class Disturber(threading.Thread):
    """Sends a signal to the daemon's process group after a random delay (schedule perturbation)."""

    def __init__(self, pid, delay, sig):
        super().__init__(daemon=True)
        self.pid, self.delay, self.sig = pid, delay, sig
        self.fired = False

    def run(self):
        time.sleep(self.delay)
        try:
            if self.sig == "stopcont":
                os.killpg(self.pid, signal.SIGSTOP)
                time.sleep(0.05)
                os.killpg(self.pid, signal.SIGCONT)
            else:
                os.killpg(self.pid, self.sig)
            self.fired = True
        except (OSError, TypeError):
            pass


def session(ctx, h, actions=None):
    rng = ctx.rng
    script = actions if actions is not None else [h.gen_action(rng) for _ in range(rng.randrange(6, 15))]
    log = []
    interesting = False
    for action in script:
        if ctx.out_of_time(60):
            break
        wit = {"script_so_far": log + [action], "last_kind": action[0] + (":" + str(action[2]) if action[0] == "phase" else "")
               + (":" + action[1] if action[0] in ("metadata", "bashrc") else "")}
        h.ebd.take_stalls()
        # Verdicts of this step are committed only if pkgcore's own 10 s liveness alarm did not fire during it: on an
        # overloaded box a daemon may simply be slower than that, pkgcore then abandons the probe (callers discard the
        # processor) and every later line on that pipe is out of step by construction.  The deliberate variant of that
        # schedule (daemon stopped for longer than the alarm) is judged in stopped_daemon_session().
        t_mark = Harness.timeouts
        pending = []
        commit = ctx.violation
        ctx.violation = lambda kind, witness, _p=pending: _p.append((kind, witness))
        try:
            log_len = len(log)
            _step(ctx, h, rng, action, wit, log)
        finally:
            ctx.violation = commit
        if Harness.timeouts != t_mark and not Harness.expect_timeout:
            ctx.count("steps_discarded_pkgcore_liveness_alarm_fired", 1)
            ctx.skip_unspecified("pkgcore's 10 s liveness alarm fired (overloaded box): processor discarded, step not judged")
            h.ebd.take_stalls()
            del h.stale_probes[:]
            for tr in list(h.registry):
                tr.vt_checked_upto = len(tr.events)
            h.ebd.shutdown_all()
        else:
            for kind, witness in pending:
                ctx.violation(kind, witness)
        if len(log) > log_len:
            e = log[-1]
            if e.get("interesting"):
                interesting = True
    if interesting and log:
        ctx.nontrivial(repr([(e["action"], e["outcome"].split(":")[0], bool(e["signal"])) for e in log]))
    ctx.count("sessions")
    if ctx.want_sample() and log:
        ctx.sample({"session": [{k: v for k, v in e.items() if k != "interesting"} for e in log]})
    h.ebd.shutdown_all()


def _step(ctx, h, rng, action, wit, log):
        interesting = False
        try:
            ebp = h.acquire()
        except BaseException as e:
            ctx.evaluated()
            ctx.violation("cannot-acquire-processor", dict(wit, error="%s: %s" % (type(e).__name__, str(e)[:300]), rule=wit["last_kind"]))
            h.ebd.shutdown_all()
            return
        disturb = None
        sigdesc = None
        if len(action) > 0 and action[0] in ("metadata", "phase", "env", "preload", "bashrc") and rng.random() < 0.18 and ebp.pid:
            sig = rng.choice([signal.SIGINT, signal.SIGTERM, "stopcont", "stopcont"])
            delay = rng.choice([0.0, 0.005, 0.02, 0.05, 0.15, 0.4])
            disturb = Disturber(ebp.pid, delay, sig)
            sigdesc = [str(sig), delay]
            disturb.start()
        outcome, detail = h.act(ebp, action)
        if disturb is not None:
            disturb.join()
        tr_ = h.ebd.trace_of(ebp)
        if tr_ is not None:
            tr_.vt_last = {"action": action, "outcome": outcome, "hard_signal": bool(sigdesc and sigdesc[0] != "stopcont")}
        if action[0] == "alive" and outcome != "ok":
            try:
                h.processor.drop_ebuild_processor(ebp)
                ebp.shutdown_processor(force=True)
            except BaseException:
                pass
        h.release(ebp)
        stalls = h.ebd.take_stalls()
        entry = {"action": action, "outcome": outcome, "signal": sigdesc}
        log.append(entry)
        ctx.count("action:" + action[0])
        ctx.count("outcome:" + outcome.split(":")[0])
        ctx.evaluated()
        hard_signal = sigdesc is not None and sigdesc[0] != "stopcont"
        if stalls:
            ctx.violation("both-sides-blocked-reading", dict(wit, stall=stalls[0], outcome=outcome, signal=sigdesc, rule=wit["last_kind"]))
        # API-level expectations
        expect = None
        if action[0] == "metadata":
            expect = EBUILDS[action[1]][1]
            if not hard_signal:
                if expect == "ok" and outcome != "ok":
                    ctx.violation("good-ebuild-metadata-failed", dict(wit, outcome=outcome, detail=detail, rule=action[1]))
                elif expect == "ok" and action[1] in PROBE_SLOTS and (detail or {}).get("SLOT") != PROBE_SLOTS[action[1]]:
                    ctx.violation("metadata-reply-mismatched", dict(wit, got=detail, rule=action[1]))
                elif expect == "fail" and not outcome.startswith("raised:"):
                    ctx.violation("failing-ebuild-reported-success", dict(wit, outcome=outcome, detail=detail, rule=action[1]))
            if expect == "fail":
                interesting = True
        elif action[0] == "phase":
            expect = BODIES[action[2]][1]
            interesting = interesting or expect != "ok"
            if not hard_signal:
                if expect == "ok" and outcome != "ok":
                    ctx.violation("good-phase-failed", dict(wit, outcome=outcome, detail=detail, rule=action[1] + ":" + action[2]))
                elif expect in ("raise", "must-raise") and not outcome.startswith("raised:"):
                    ctx.violation("unknown-command-not-rejected" if expect == "must-raise" else "dying-phase-reported-success",
                                  dict(wit, outcome=outcome, rule=action[2]))
                elif expect == "raise-or-false" and outcome == "ok":
                    ctx.violation("failing-phase-reported-success", dict(wit, outcome=outcome, rule=action[2]))
        elif action[0] == "clear" and not hard_signal:
            if outcome != "ok":
                ctx.violation("clear-preloaded-reply-misread", dict(wit, outcome=outcome, detail=detail, rule="clear"))
        elif action[0] == "bashrc" and not hard_signal and outcome != "ok":
            # sourcing a directory / missing / failing / syntactically broken bashrc is reported by bash and skipped
            ctx.violation("phase-with-bashrc-list-failed", dict(wit, outcome=outcome, detail=detail, rule="bashrc:" + action[1]))
        elif action[0] == "env" and not hard_signal and outcome != "ok":
            ctx.violation("simple-request-failed", dict(wit, outcome=outcome, detail=detail, rule=action[0]))
        elif action[0] == "alive" and outcome != "ok":
            # pkgcore's own callers drop a processor whose probe failed; a probe that merely timed out
            # (10 s wall clock inside pkgcore, this box may be overloaded) is not a verdict
            ctx.count("liveness_probe_false")
        if sigdesc:
            interesting = True
            ctx.count("signals_sent:" + sigdesc[0])
        # liveness probes that read some other line (anywhere: our own 'alive' actions and pkgcore's internal ones)
        for sp in h.stale_probes:
            last = sp["last"]
            oc = last.get("outcome", "")
            ending = oc.startswith("raised:") and oc != "raised:ProcessorError"
            if oc == "raised:UnhandledCommand" and (last.get("action") or [None, None, None])[2:3] != ["unknown-cmd"]:
                ending = False
            ctx.evaluated()
            if last and not last.get("hard_signal") and not ending:
                ctx.violation("liveness-probe-answered-by-another-reply",
                              dict(wit, read_instead_of_yep=sp["line"], previous=last, trace_tail=sp["tail"],
                                   rule=(last.get("action") or ["?"])[0] + ":" + oc))
            else:
                ctx.count("stale_probe_after_session_ending_event")
        del h.stale_probes[:]
        # whatever happened: the processor handed out next must be in sync
        if outcome == "raised:KeyboardInterrupt":
            ctx.count("keyboard_interrupts_seen")
        entry["interesting"] = interesting
        h.probe(dict(wit, outcome=outcome, signal=sigdesc))
        h.check_traces(dict(wit, outcome=outcome, signal=sigdesc), tolerate_unknown=True)


def stopped_daemon_session(ctx, h, variant):
    """Deliberate schedule: the daemon is stopped (SIGSTOP) for longer than pkgcore's 10 s liveness alarm while Python
    calls an API that probes it; after SIGCONT the late 'yep!' arrives.  Whatever pkgcore decides to do with that
    processor, the requests that follow must be matched with their own replies."""
    h.ebd.shutdown_all()
    h.ebd.take_stalls()
    del h.stale_probes[:]
    wit = {"script_so_far": [["stopped-daemon", variant]], "last_kind": "stopped-daemon:" + variant}
    Harness.expect_timeout = True
    t_mark = Harness.timeouts
    try:
        try:
            ebp = h.acquire()
            h.act(ebp, ["preload", ["g1"], False])
            pid = ebp.pid
            if variant == "request":
                h.release(ebp)      # the stopped daemon sits in the pool; the next request probes it
            os.killpg(pid, signal.SIGSTOP)
            t0 = time.monotonic()
            if variant == "clear":
                outcome, detail = h.act(ebp, ["clear"])
            elif variant == "shutdown":
                # a polite shutdown of a daemon that does not answer the probe: pkgcore neither tells it to exit nor
                # kills it and then waits for its exit.  Continue the daemon a little after the alarm; the wait must end
                # (here: by the monitor's waitpid guard, counted as an observation outside the statement).
                ebp2 = None
                cont = threading.Timer(11.0, lambda: os.killpg(pid, signal.SIGCONT))
                cont.daemon = True
                cont.start()
                try:
                    h.processor.drop_ebuild_processor(ebp)
                    ebp.shutdown_processor()
                    outcome = "ok"
                except BaseException as e:
                    outcome = "raised:" + type(e).__name__
                cont.cancel()
            else:
                try:
                    ebp2 = h.acquire()
                    outcome = "ok"
                except BaseException as e:
                    ebp2, outcome = None, "raised:" + type(e).__name__
            waited = time.monotonic() - t0
            try:
                os.killpg(pid, signal.SIGCONT)
            except OSError:
                pass
            if variant == "clear":
                h.release(ebp)
            elif ebp2 is not None:
                h.release(ebp2)
        except BaseException as e:
            ctx.note("stopped-daemon scenario could not be set up: %s: %s" % (type(e).__name__, str(e)[:200]))
            return
        ctx.count("stopped_daemon_sessions:" + variant)
        ctx.evaluated()
        if Harness.timeouts == t_mark:
            # pkgcore did not wait for its alarm (e.g. it found the daemon dead): nothing deliberate happened
            ctx.count("stopped_daemon_sessions_without_alarm")
        wit.update(outcome=outcome, waited_s=round(waited, 1), alarm_fired=Harness.timeouts != t_mark)
        time.sleep(0.3)   # let the continued daemon answer the abandoned probe
        for _ in range(3):
            h.probe(dict(wit))
        for sp in h.stale_probes:
            ctx.evaluated()
            ctx.violation("liveness-probe-answered-by-another-reply",
                          dict(wit, read_instead_of_yep=sp["line"], trace_tail=sp["tail"], rule="stopped-daemon:" + variant))
        del h.stale_probes[:]
        stalls = h.ebd.take_stalls()
        if stalls:
            ctx.violation("both-sides-blocked-reading", dict(wit, stall=stalls[0], rule=wit["last_kind"]))
        # the automaton is not run over these traces: an abandoned probe's late reply is by construction unpaired on the
        # processor pkgcore discarded; what matters is that no LATER request is answered by it (probes above)
        for tr in list(h.registry):
            tr.vt_checked_upto = len(tr.events)
    finally:
        Harness.expect_timeout = False
        h.ebd.shutdown_all()


def run(ctx):
    h = Harness(ctx)
    h.shapes = set()
    n = ctx.budget(7, 60)
    bad = BAD_ECLASS[0]
    directed = [
        # a batch whose FIRST reply is the failing one, consumed synchronously, then further requests
        [["preload", [bad, "g1", "g3"], False], ["alive"], ["metadata", "cat/ok1-1"], ["metadata", "cat/ok2-1"]],
        # failing reply in the middle of an asynchronous batch, consumed by the next request
        [["preload", ["g1", bad, "g3"], True], ["metadata", "cat/ok2-1"], ["alive"], ["metadata", "cat/ok1-1"]],
        [["preload", ["g3", bad], True], ["preload", ["g1"], False], ["env", "cat/ok1-1"], ["clear"], ["metadata", "cat/ok2-1"]],
        [["phase", "pretend", "unknown-cmd", False], ["metadata", "cat/ok1-1"], ["phase", "pretend", "helper-twice", True], ["alive"]],
        [["metadata", "cat/multiline-1"], ["alive"], ["metadata", "cat/ok1-1"], ["phase", "pretend", "stderr-multiline-fail", False], ["alive"]],
        # the bashrc exchange with lists that contain entries which are not regular files
        [["bashrc", "two", False], ["bashrc", "file-dir-file", True], ["bashrc", "missing-then-file", False],
         ["bashrc", "dangling", False], ["alive"]],
        [["bashrc", "dir", False], ["phase", "pretend", "helper", False], ["bashrc", "syntax", True], ["bashrc", "fails", False],
         ["bashrc", "none", False], ["metadata", "cat/ok2-1"]],
    ]
    try:
        if not ctx.quick or ctx.shard < 2:
            stopped_daemon_session(ctx, h, ("request", "clear")[ctx.shard % 2])
            if not ctx.quick:
                stopped_daemon_session(ctx, h, ("clear", "request")[ctx.shard % 2])
                if ctx.shard % 4 == 0:
                    stopped_daemon_session(ctx, h, "shutdown")
        for i, script in enumerate(directed):
            if i % ctx.nshards == ctx.shard % len(directed) or not ctx.quick:
                session(ctx, h, actions=[list(a) for a in script])
                ctx.count("directed_sessions")
        for _ in range(n):
            if ctx.out_of_time(70):
                break
            session(ctx, h)
    finally:
        h.ebd.shutdown_all()
    for k, v in sorted(h.ebd.OBSERVED.items()):
        ctx.count("stall_monitor_not_reported:" + k, v)
    ctx.count("distinct_trace_shapes", len(h.shapes))
    ctx.note("distinct trace shapes observed in this shard: %d" % len(h.shapes))


def classify(w):
    return None


def replay(ctx, w):
    h = Harness(ctx)
    h.shapes = set()
    if (w.get("last_kind") or "").startswith("stopped-daemon:"):
        try:
            stopped_daemon_session(ctx, h, w["last_kind"].split(":", 1)[1])
        finally:
            h.ebd.shutdown_all()
        return
    script = [e["action"] if isinstance(e, dict) else e for e in w.get("script_so_far", [])]
    try:
        for _ in range(3):
            session(ctx, h, actions=script)
    finally:
        h.ebd.shutdown_all()
