"""C26 XPAK metadata segments: round trip, prefix bytes preserved, old segment replaced entirely."""

import hashlib
import io
import os
import tarfile

from ..ref import c26_xpak as ref

ID = "C26"
LEVEL = "exploration"
TECHNIQUE = "round trip + raw-byte invariants judged by an independent XPAK parser"
RULE = ("rewrite chains (1-6 Xpak.write_xpak calls on one file) over generated targets: empty/short files, random bytes, real "
        "tar/bz2 archives, bytes containing the XPAK magic strings, fake trailers (offset beyond the file / pointing at "
        "non-header bytes), a foreign-written segment at the end, a segment followed by garbage, two segments back to back; "
        "mappings of 0-40 ASCII keys (metadata names, random printable/control ASCII) with unicode text values, values that "
        "contain the magic strings, binary environment / environment.bz2 values, payload sizes varied so that consecutive "
        "segments grow, shrink or keep their size. Every write is judged on the raw bytes (prefix before the old segment "
        "unchanged, file = prefix + one well-formed segment that ends at EOF and carries exactly the mapping, parsed by a "
        "reference parser written from the format) and on reading back through the returned object, a fresh Xpak(path) and "
        "Xpak(fileobj) (keys in order, text values str, environment values bytes). A step is non-trivial when it replaces "
        "an existing segment by one of a different length, or the target has a hostile/ non-empty prefix and the mapping "
        "has non-ASCII text or binary environment data; distinct = distinct (bytes before, mapping).")
ASSUMPTIONS = [
    "targets are existing regular files given by path (a missing file and snakeoil data_source targets are probed once per "
    "shard and recorded as unspecified)",
    "keys are non-empty ASCII strings; the key 'repo' (deliberately rewritten to 'REPO' when reading) and other keys starting "
    "with 'environment' than environment/environment.bz2 are not generated",
    "'the old segment' is decided by the reference: the last 16 bytes are a trailer whose offset points at header magic inside "
    "the file and the segment is internally consistent; trailer+header magic with an inconsistent body is unspecified",
    "text values given as UTF-8 bytes must come back decoded; environment values given as str must come back as UTF-8 bytes",
    "stale Xpak objects created before a rewrite are not judged (only fresh readers)",
    "a target path that is a symlink to the binary package is a path to that package: the bytes of the file it points to are judged",
]
SHARDS = {"quick": 4, "thorough": 16}
TIMEOUT = {"quick": 240, "thorough": 1800}
MIN_EVALS = 3000
REQUIRED_COUNTERS = ("writes", "writes_through_symlink", "rewrite_over_segment:grow", "rewrite_over_segment:shrink", "target:foreign-segment",
                     "target:fake-trailer-beyond", "target:fake-trailer-nonheader", "target:empty", "target:tar",
                     "readback_items_compared", "env_binary_values", "nonascii_text_values")

META_KEYS = ["CATEGORY", "PF", "SLOT", "USE", "IUSE", "DEPEND", "RDEPEND", "BDEPEND", "LICENSE", "KEYWORDS", "CHOST",
             "CFLAGS", "DESCRIPTION", "EAPI", "repository", "REPO", "BUILD_TIME", "DEFINED_PHASES", "foo-1.0.ebuild",
             "contents", "SIZE", "INHERITED", "FEATURES", "environmen", "Environment", "ENVIRONMENT", "env"]
ENV_KEYS = list(ref.ENV_KEYS)
MAGICS = [b"XPAKPACK", b"XPAKSTOP", b"STOP", b"XPAKSTOP\x00\x00\x00\x18STOP", b"XPAKPACK\x00\x00\x00\x00\x00\x00\x00\x00"]
ALPHABETS = ["abcdefghijklmnopqrstuvwxyz0123456789 -_=/.:", "äöüßéèñçøå", "日本語テキスト漢字", "\U0001F600\U0001F4A9\U00010348",
             "\n\t\x00\x7f ", "éä​", "XPAKSTOP"]


# --------------------------------------------------------------------------- materialised values
def enc(v):
    return {"s": v} if isinstance(v, str) else {"b": v.hex()}


def dec(j):
    return j["s"] if "s" in j else bytes.fromhex(j["b"])


def items_of(jitems):
    return [(k, dec(v)) for k, v in jitems]


# --------------------------------------------------------------------------- generators
def gen_text(rng, scale):
    n = pick_len(rng, scale)
    if n == 0:
        return ""
    alpha = rng.choice(ALPHABETS) if rng.random() < 0.6 else "".join(rng.sample(ALPHABETS, 3))
    if rng.random() < 0.5:
        alpha += ALPHABETS[0]
    return "".join(rng.choice(alpha) for _ in range(min(n, 400))) * max(1, n // 400)


def pick_len(rng, scale):
    if scale == "tiny":
        return rng.choice([0, 0, 1, 2, 3, 5, 8])
    if scale == "medium":
        return rng.choice([0, 7, 16, 31, 64, 100, 255, 256, 257, 600])
    return rng.choice([1000, 4095, 4096, 4097, 8192, 8193, 20000, 65535, 65536, 70001])


def gen_bytes(rng, scale):
    n = pick_len(rng, scale)
    r = rng.random()
    if r < 0.15:
        return bytes(range(256)) * (n // 256) + bytes(range(n % 256))
    b = rng.randbytes(min(n, 2048)) * max(1, n // 2048) if n else b""
    if r < 0.35 and n:
        m = rng.choice(MAGICS)
        b = b[: max(0, len(b) - len(m))] + m if rng.random() < 0.5 else m + b
    return b


def gen_key(rng, used):
    for _ in range(50):
        r = rng.random()
        if r < 0.55:
            k = rng.choice(META_KEYS)
        elif r < 0.9:
            k = "".join(chr(rng.randrange(0x21, 0x7f)) for _ in range(rng.choice([1, 2, 3, 5, 8, 13, 30, 64, 255, 300])))
        else:
            k = "".join(chr(rng.randrange(0, 0x80)) for _ in range(rng.choice([1, 2, 4, 9, 20])))
        if k and k not in used and k != "repo" and not k.startswith("environment"):
            return k
    return "k%d" % len(used)


def gen_mapping(rng, scale):
    """-> JSON-able list of [key, {"s": str} | {"b": hex}] with unique keys."""
    n = rng.choice([0, 1, 1, 2, 3, 4, 6, 8, 12, 20, 40]) if scale != "large" else rng.choice([1, 2, 3, 5])
    used = set()
    items = []
    for _ in range(n):
        r = rng.random()
        free_env = [k for k in ENV_KEYS if k not in used]
        if r < 0.22 and free_env:
            k = rng.choice(free_env)
            if rng.random() < 0.85:
                v = gen_bytes(rng, scale)
            else:
                v = gen_text(rng, scale)  # str given for an environment key: must come back as UTF-8 bytes
        else:
            k = gen_key(rng, used)
            v = gen_text(rng, scale if rng.random() < 0.8 else "tiny")
            rr = rng.random()
            if rr < 0.1:
                v = v.encode("utf-8")  # bytes given for a text key: must come back decoded
            elif rr < 0.2:
                v += rng.choice(MAGICS).decode("ascii")
        used.add(k)
        items.append([k, enc(v)])
    return items


def gen_tar(rng, compress):
    buf = io.BytesIO()
    with tarfile.open(fileobj=buf, mode="w:bz2" if compress else "w") as tf:
        for i in range(rng.randrange(0, 4)):
            data = rng.randbytes(rng.choice([0, 10, 600]))
            ti = tarfile.TarInfo("./usr/share/f%d" % i)
            ti.size = len(data)
            tf.addfile(ti, io.BytesIO(data))
    return buf.getvalue()


def gen_foreign_pairs(rng):
    return [(("K%d" % i).encode(), rng.randbytes(rng.choice([0, 3, 50, 300]))) for i in range(rng.randrange(0, 5))]


def gen_target(rng):
    """-> (kind, bytes before the first write)."""
    import struct

    kind = rng.choice(["empty", "short", "random", "tar", "tar", "tbz2", "magic-inside", "fake-trailer-beyond",
                       "fake-trailer-nonheader", "foreign-segment", "foreign-segment", "segment-then-garbage",
                       "two-segments", "ends-with-stop"])
    if kind == "empty":
        return kind, b""
    if kind == "short":
        return kind, rng.randbytes(rng.choice([1, 4, 15, 16, 17, 31, 32, 33]))
    if kind == "random":
        return kind, rng.randbytes(rng.choice([40, 100, 1000, 5000]))
    if kind == "tar":
        return kind, gen_tar(rng, False)
    if kind == "tbz2":
        return kind, gen_tar(rng, True)
    body = rng.randbytes(rng.choice([0, 5, 64, 700]))
    if kind == "magic-inside":
        parts = [body]
        for _ in range(rng.randrange(1, 5)):
            parts.append(rng.choice(MAGICS))
            parts.append(rng.randbytes(rng.choice([0, 1, 4, 8, 16, 40])))
        return kind, b"".join(parts) + rng.randbytes(rng.choice([1, 17, 40]))
    if kind == "fake-trailer-beyond":
        n = len(body) + 16
        off = rng.choice([n - 8 + 1, n, n + 100, 2 ** 31, 2 ** 32 - 1])
        return kind, body + b"XPAKSTOP" + struct.pack(">L", off) + b"STOP"
    if kind == "fake-trailer-nonheader":
        body = body + rng.randbytes(40)
        n = len(body) + 16
        off = rng.choice([0, 8, 16, 24, max(0, n - 8 - rng.randrange(0, len(body))), n - 8])
        buf = body + b"XPAKSTOP" + struct.pack(">L", off) + b"STOP"
        st = ref.find_segment(buf)
        return (kind, buf) if st[0] == "none" else ("random", body)
    if kind == "ends-with-stop":
        return kind, body + rng.choice([b"STOP", b"XPAKSTOP", b"XPAKSTOP\x00\x00\x00\x18STO", b"XPAKPACK"])
    seg = ref.build_segment(gen_foreign_pairs(rng))
    if kind == "foreign-segment":
        pre = rng.choice([b"", body, gen_tar(rng, True)])
        return kind, pre + seg
    if kind == "segment-then-garbage":
        return kind, body + seg + rng.randbytes(rng.choice([1, 3, 16, 50]))
    if kind == "two-segments":
        return kind, body + seg + ref.build_segment(gen_foreign_pairs(rng))
    raise AssertionError(kind)


# --------------------------------------------------------------------------- the oracle for one write
def first_diff(a, b):
    for i, (x, y) in enumerate(zip(a, b)):
        if x != y:
            return i
    return min(len(a), len(b))


def read_all(x):
    """Observe a reader object completely: ordered items, keys, len, per-key lookup."""
    its = list(x.items())
    keys = list(x.keys())
    return {"items": its, "keys": keys, "len": len(x), "iter": list(x), "get": [x[k] for k in keys],
            "values": list(x.values())}


def judge_write(dirpath, before, jitems, ctx=None, count=lambda *a: None, link_text=None):
    """Run one write_xpak(target, mapping) on a file holding `before`; return ([(kind, detail)], bytes after) (empty list =
    all clauses hold), or None when the situation is outside the statement.  With link_text the real file is called
    `link_text` and the target handed to pkgcore is a symlink (in the same directory) pointing at it."""
    from pkgcore.binpkg.xpak import Xpak

    real = os.path.join(dirpath, link_text or "c26-target.tbz2")
    path = real
    if link_text:
        path = os.path.join(dirpath, "c26-via-symlink")
        try:
            os.unlink(path)
        except OSError:
            pass
        os.symlink(link_text, path)
    try:
        return _judge_write(Xpak, real, path, before, jitems, ctx, count, link_text)
    finally:
        for p in {real, path}:
            try:
                os.unlink(p)
            except OSError:
                pass


def _judge_write(Xpak, real, path, before, jitems, ctx, count, link_text):

    st = ref.find_segment(before)
    if st[0] == "ambiguous":
        if ctx is not None:
            ctx.skip_unspecified("tail has trailer+header magic but an inconsistent body")
        return None
    start = st[1]
    items = items_of(jitems)
    mapping = dict(items)
    assert len(mapping) == len(items)
    with open(real, "wb") as f:
        f.write(before)
    fails = []
    try:
        ret = Xpak.write_xpak(path, mapping)
    except Exception as e:  # noqa: BLE001
        return [("write-raised", {"exc": repr(e)[:300]})], None
    with open(real, "rb") as f:
        after = f.read()
    count("writes")
    if link_text:
        count("writes_through_symlink")
        if not os.path.islink(path):
            fails.append(("symlink-replaced", {}))
    # (1) prefix preserved
    if after[:start] != before[:start]:
        fails.append(("prefix-changed", {"prefix_len": start, "first_diff": first_diff(after[:start], before[:start]),
                                         "len_after": len(after),
                                         "symlink_size_model": symlink_size_model(before, after, link_text, st, items)}))
    # (2) file = prefix + exactly one well-formed segment carrying the mapping
    want_raw = ref.expected_raw(items)
    try:
        got_raw = ref.parse_segment(after, start)
    except ref.Malformed as e:
        want_len = start + len(ref.build_segment(want_raw))
        fails.append(("tail-not-one-segment", {"prefix_len": start, "len_after": len(after), "reason": str(e),
                                               "len_expected_if_sequential": want_len,
                                               "symlink_size_model": symlink_size_model(before, after, link_text, st, items),
                                               "rule": "longer" if len(after) > want_len else "shorter-or-corrupt"}))
        got_raw = None
    if got_raw is not None and got_raw != want_raw:
        fails.append(("segment-content", {"got_keys": [k.decode("latin1") for k, _ in got_raw][:50],
                                          "want_keys": [k.decode("latin1") for k, _ in want_raw][:50]}))
    # (3) reading back
    want = ref.expected_read(items)
    readers = [("returned", lambda: ret), ("fresh-path", lambda: Xpak(path))]
    fobj = open(path, "rb")
    readers.append(("fresh-fileobj", lambda: Xpak(fobj)))
    try:
        for rname, mk in readers:
            try:
                obs = read_all(mk())
            except Exception as e:  # noqa: BLE001
                fails.append(("read-raised", {"reader": rname, "exc": repr(e)[:300], "rule": type(e).__name__}))
                continue
            count("readback_items_compared", len(want))
            bad = compare_read(obs, want)
            if bad:
                bad["reader"] = rname
                fails.append(("readback-mismatch", bad))
    finally:
        fobj.close()
    return fails, after


def symlink_size_model(before, after, link_text, st, items):
    """True iff the bytes after the write are exactly what a writer produces that, for a file without a segment, starts
    the new segment at offset len(<symlink text>) (the lstat size of the symlink) instead of at the end of the file."""
    if not link_text or st[0] != "none":
        return False
    n = len(os.fsencode(link_text))
    if n == len(before) or len(after) < n:
        return False
    if after[:n] != before[:n].ljust(n, b"\0"):
        return False
    try:
        return ref.parse_segment(after, n) == ref.expected_raw(items)
    except ref.Malformed:
        return False


def compare_read(obs, want):
    wk = [k for k, _ in want]
    if obs["keys"] != wk or [k for k, _ in obs["items"]] != wk or obs["iter"] != wk:
        return {"rule": "keys", "got": obs["keys"][:50], "want": wk[:50]}
    if obs["len"] != len(wk):
        return {"rule": "len", "got": obs["len"], "want": len(wk)}
    for name, vals in (("items", [v for _, v in obs["items"]]), ("getitem", obs["get"]), ("values", obs["values"])):
        for (k, w), g in zip(want, vals):
            if type(g) is not type(w):
                return {"rule": "value-type", "via": name, "key": k, "got_type": type(g).__name__,
                        "want_type": type(w).__name__}
            if g != w:
                return {"rule": "value", "via": name, "key": k, "got": repr(g)[:120], "want": repr(w)[:120]}
    return None


# --------------------------------------------------------------------------- workload
def witness(before, jitems, kind, detail, link_text=None):
    w = {"before_hex": before.hex(), "items": jitems, "kind": kind, "detail": detail, "link_text": link_text}
    if isinstance(detail, dict) and "rule" in detail:
        w["rule"] = detail["rule"]
    return w


LINK_TEXTS = ["r", "real.tbz2", "pkg-1.0-r1.tbz2", "a-rather-long-file-name-for-a-binary-package-0.0.1_alpha1-r5.tbz2"]


def chain(ctx, dirpath, idx):
    rng = ctx.rng
    kind, before = gen_target(rng)
    ctx.count("target:" + kind)
    link_text = rng.choice(LINK_TEXTS) if rng.random() < 0.12 else None
    nsteps = rng.choice([1, 2, 2, 3, 4, 6])
    for step in range(nsteps):
        scale = rng.choice(["tiny", "tiny", "medium", "medium", "medium", "large"])
        if ctx.quick and scale == "large" and rng.random() < 0.5:
            scale = "medium"
        jitems = gen_mapping(rng, scale)
        st = ref.find_segment(before)
        res = judge_write(dirpath, before, jitems, ctx, ctx.count, link_text)
        if res is None:
            ctx.count("chain_ended:unspecified")
            return
        fails, after = res
        ctx.evaluated(3)
        items = items_of(jitems)
        nonascii = sum(1 for k, v in items if k not in ENV_KEYS and isinstance(v, str) and not v.isascii())
        envbin = sum(1 for k, v in items if k in ENV_KEYS and isinstance(v, bytes) and v)
        ctx.count("nonascii_text_values", nonascii)
        ctx.count("env_binary_values", envbin)
        ctx.count("mapping_size:%s" % ("0" if not items else "1-4" if len(items) < 5 else "5+"))
        if after is None:
            after = before
        nontrivial = False
        if st[0] == "segment":
            old_len = len(before) - st[1]
            new_len = len(after) - st[1]
            rel = "grow" if new_len > old_len else "shrink" if new_len < old_len else "same"
            ctx.count("rewrite_over_segment:" + rel)
            nontrivial = rel != "same"
        elif before and (nonascii or envbin):
            nontrivial = True
        if nontrivial:
            ctx.nontrivial(hashlib.blake2b(before + repr(jitems).encode(), digest_size=16).hexdigest())
        if ctx.want_sample() and nontrivial and step > 0:
            ctx.sample({"target": kind, "step": step, "len_before": len(before), "old_segment_start": st[1],
                        "len_after": len(after), "keys": [k for k, _ in jitems][:12]})
        for fk, detail in fails:
            ctx.violation(fk, witness(before, jitems, fk, detail, link_text))
        # every step is judged against the bytes it started from, so a chain simply continues after a failure
        before = after


def probes(ctx, path):
    """Situations the statement does not cover: executed once, recorded, never judged."""
    from pkgcore.binpkg.xpak import Xpak

    def outcome(fn):
        try:
            return "ok: %r" % (fn(),)
        except Exception as e:  # noqa: BLE001
            return type(e).__name__

    missing = path + ".missing"
    ctx.skip_unspecified("target path does not exist -> " + outcome(lambda: bool(Xpak.write_xpak(missing, {"a": "b"}))))
    try:
        os.unlink(missing)
    except OSError:
        pass
    try:
        from snakeoil.data_source import data_source

        ctx.skip_unspecified("snakeoil data_source target -> " + outcome(
            lambda: bool(Xpak.write_xpak(data_source(b"prefix", mutable=True), {"a": "b"}))))
    except ImportError:
        pass
    with open(path, "wb"):
        pass
    ctx.skip_unspecified("key 'repo' reads back as -> " + outcome(lambda: list(Xpak.write_xpak(path, {"repo": "x"}).keys())))


def run(ctx):
    dirpath = os.path.join(os.environ["VT_SCRATCH"], "c26")
    os.makedirs(dirpath, exist_ok=True)
    path = os.path.join(dirpath, "c26-probe.tbz2")
    probes(ctx, path)
    n = ctx.budget(500, 5000)
    for i in range(n):
        chain(ctx, dirpath, i)
        ctx.count("chains")
        if i % 16 == 0 and ctx.out_of_time(20):
            ctx.note("stopped early by the soft deadline after %d chains" % i)
            break
    try:
        os.unlink(path)
    except OSError:
        pass


def classify(w):
    """lstat-size-through-symlink: the target path is a symlink to a file without a segment and the result is exactly
    'new segment written at offset len(symlink text)' (write_xpak takes the append position from os.lstat)."""
    d = w.get("detail") or {}
    if w.get("link_text") and w.get("kind") in ("prefix-changed", "tail-not-one-segment") \
            and d.get("symlink_size_model") is True:
        return "lstat-size-through-symlink"
    return None


def replay(ctx, w):
    import shutil
    import tempfile

    dirpath = tempfile.mkdtemp(prefix="c26-replay-", dir=os.environ.get("VT_SCRATCH", "/var/tmp"))
    before = bytes.fromhex(w["before_hex"])
    try:
        res = judge_write(dirpath, before, w["items"], ctx, link_text=w.get("link_text"))
        ctx.evaluated(3)
        for fk, detail in (res[0] if res else []):
            ctx.violation(fk, witness(before, w["items"], fk, detail, w.get("link_text")))
    finally:
        shutil.rmtree(dirpath, ignore_errors=True)
