"""C43 Config section inheritance resolves to the nearest definition (pkgcore.config.central.ConfigManager)."""

import json

from ..ref import c43_inherit as ref

ID = "C43"
LEVEL = "exploration"
TECHNIQUE = "runtime monitoring of ConfigManager.collapse_named_section on generated config sources; BFS reference model"
RULE = ("random configurations: 1-3 config sources (dicts of string-typed and as-is-typed sections, also added later through "
        "add_config_source) defining 3-8 section names, a name possibly defined in several sources; diamond-free inheritance "
        "forests (0-3 inherits per definition, inherit lists in random order), self-inherits with and without an older "
        "definition of the same name, stale older definitions with garbage inherits, and in ~35% of the configurations an "
        "injected back edge (cycle), missing target or unsatisfiable self-inherit; keys (str/list/bool typed, 'class', "
        "'default') set at random levels. Every section of every configuration is collapsed (shared manager, random order, "
        "and a fresh manager for a sample). Oracle: collapsed.config / type.callable / default == value of the first "
        "definition in breadth-first order (vt/ref/c43_inherit.py) that sets the key; cycle / missing target => "
        "ConfigError. Non-trivial = the root really inherits (>= 2 definitions in the BFS list) and at least one key is "
        "provided by an inherited definition, or an error is expected; distinct = distinct (configuration, root).")
ASSUMPTIONS = [
    "diamond-shaped graphs (a name reachable twice without being its own ancestor, which the implementation reports as "
    "recursive) are outside the statement's quantifier: not generated, skipped if an injected edge creates one",
    "a section inheriting its own name refers to the next older definition of that name; without one it is a missing target",
    "roots whose own definition is marked inherit-only, and roots for which no definition in the list sets 'class', are not "
    "judged (the statement does not cover them)",
    "any pkgcore.config.errors.ConfigError counts as 'reported as an error'; the message is not judged",
    "values are compared after the section's own type conversion (str/list/bool) of clean tokens; conversion itself is not under test",
]
SHARDS = {"quick": 4, "thorough": 16}
TIMEOUT = {"quick": 240, "thorough": 1500}
MIN_EVALS = 20000
REQUIRED_COUNTERS = ("collapse_calls", "expect:value", "expect:error:cycle", "expect:error:missing-target",
                     "expect:error:self-inherit-missing", "separates_bfs_from_dfs", "separates_latest_from_oldest",
                     "self_inherit_resolved")

CLASSES = ("kls_a", "kls_b", "kls_c")
TYPES = {"lst": "list", "flag": "bool"}


def kls_a(**kw):
    return ("a", kw)


def kls_b(**kw):
    return ("b", kw)


def kls_c(**kw):
    return ("c", kw)


def _setup():
    from pkgcore.config.hint import ConfigHint

    for n in CLASSES:
        f = globals()[n]
        if not hasattr(f, "pkgcore_config_type"):
            f.pkgcore_config_type = ConfigHint(types=dict(TYPES), allow_unknowns=True, typename="t_" + n)


# ------------------------------------------------------------------------------------------------------------------
# generator: JSON description of a configuration


def gen_config(rng):
    nn = rng.randrange(3, 9)
    names = ["s%d" % i for i in range(nn)]
    rng.shuffle(names)
    nsrc = rng.choice([1, 2, 2, 3, 3])
    # where is each name defined
    where = {}
    for n in names:
        k = 1 if nsrc == 1 or rng.random() < 0.5 else rng.randrange(2, nsrc + 1)
        where[n] = sorted(rng.sample(range(nsrc), k))
    sources = [{} for _ in range(nsrc)]
    keys = ["k0", "k1", "k2", "k3", "lst", "flag"]
    for n in names:
        for s in where[n]:
            data = {}
            for k in keys:
                if rng.random() < 0.3:
                    if k == "lst":
                        data[k] = ["%s_%d_a" % (n, s), "%s_%d_b" % (n, s)][: rng.randrange(1, 3)]
                    elif k == "flag":
                        data[k] = rng.random() < 0.5
                    else:
                        data[k] = "v_%s_%d_%s" % (n, s, k)
            if rng.random() < 0.45:
                data["class"] = rng.choice(CLASSES)
            if rng.random() < 0.15:
                data["default"] = rng.random() < 0.5
            sources[s][n] = {"kind": rng.choice(["str", "hard"]), "data": data, "inherit": []}
    # forest over names: every name is inherited from at most one place in the whole configuration
    children = {n: 0 for n in names}
    for i, n in enumerate(names):
        if i == 0 or rng.random() < 0.2:
            continue                                     # a root
        cands = [p for p in names[:i] if children[p] < 3]
        if not cands:
            continue
        p = rng.choice(cands)
        children[p] += 1
        s = where[p][-1] if rng.random() < 0.8 else rng.choice(where[p])     # mostly the latest definition
        sources[s][p]["inherit"].append(n)
    # self inherits where an older definition exists
    for n in names:
        ws = where[n]
        for idx in range(len(ws) - 1, 0, -1):
            if rng.random() < 0.55:
                sources[ws[idx]][n]["inherit"].append(n)
    # stale garbage in the oldest definition of multiply-defined names (only matters if wrongly reached)
    for n in names:
        ws = where[n]
        if len(ws) > 1 and rng.random() < 0.15 and n not in sources[ws[1]][n]["inherit"]:
            sources[ws[0]][n]["inherit"].append(rng.choice(["ghost", names[0]]))
    # at least the tree roots get a class somewhere so that most collapses are judged
    for n in names:
        if not any("class" in sources[s][n]["data"] for s in where[n]) and rng.random() < 0.85:
            sources[where[n][-1]][n]["data"]["class"] = rng.choice(CLASSES)
    inject = None
    r = rng.random()
    if r < 0.35:
        n = rng.choice(names)
        s = where[n][-1]
        if r < 0.17:
            inject = "back-edge"
            sources[s][n]["inherit"].append(rng.choice(names))      # maybe an ancestor (cycle), itself, or a diamond
        elif r < 0.27:
            inject = "missing-target"
            sources[s][n]["inherit"].append("ghost")
        else:
            inject = "self-inherit-missing"
            s0 = where[n][0]
            if n not in sources[s0][n]["inherit"]:
                sources[s0][n]["inherit"].append(n)
    for src in sources:
        for sec in src.values():
            rng.shuffle(sec["inherit"])
            if rng.random() < 0.08:
                sec["data"]["inherit-only"] = True
    return {"sources": sources, "added_later": rng.randrange(0, nsrc) if rng.random() < 0.3 else 0, "inject": inject}


def model_sources(cfg):
    out = []
    for src in cfg["sources"]:
        m = {}
        for name, sec in src.items():
            d = dict(sec["data"])
            if sec["inherit"]:
                d["inherit"] = list(sec["inherit"])
            m[name] = d
        out.append(m)
    return out


# ------------------------------------------------------------------------------------------------------------------
# the real thing


def build_manager(cfg):
    from pkgcore.config import basics, central

    srcs = []
    for src in cfg["sources"]:
        m = {}
        for name, sec in src.items():
            d = {}
            for k, v in sec["data"].items():
                if sec["kind"] == "str":
                    if k == "class":
                        v = __name__ + "." + v
                    elif isinstance(v, bool):
                        v = "true" if v else "false"
                    elif isinstance(v, list):
                        v = " ".join(v)
                else:
                    if k == "class":
                        v = globals()[v]
                d[k] = v
            if sec["inherit"]:
                d["inherit"] = " ".join(sec["inherit"]) if sec["kind"] == "str" else list(sec["inherit"])
            m[name] = (basics.ConfigSectionFromStringDict if sec["kind"] == "str" else basics.HardCodedConfigSection)(d)
        srcs.append(m)
    later = cfg.get("added_later", 0)
    first = srcs[: len(srcs) - later] if later else srcs
    mgr = central.ConfigManager(first)
    for s in srcs[len(first):]:
        mgr.add_config_source(basics.GeneratedConfigSource(s, "added later"))
    return mgr


def _add_later(mgr, cfg, later):
    """Add the last `later` sources of cfg to an existing manager (same section construction as build_manager)."""
    full = build_manager(dict(cfg, added_later=0))
    for src in list(full.original_config_sources)[len(cfg["sources"]) - later:]:
        mgr.add_config_source(src)


class _Runaway(BaseException):
    pass


def _alarm(signum, frame):
    raise _Runaway()


def observe(mgr, root):
    """One real collapse.  A collapse that burns 5 s of CPU (normal: < 1 ms) is cut off: an unreported cycle makes the
    breadth-first walk grow its work list for ever."""
    import signal

    from pkgcore.config import errors

    old = signal.signal(signal.SIGVTALRM, _alarm)
    signal.setitimer(signal.ITIMER_VIRTUAL, 5.0)
    try:
        try:
            c = mgr.collapse_named_section(root)
        finally:
            signal.setitimer(signal.ITIMER_VIRTUAL, 0)
            signal.signal(signal.SIGVTALRM, old)
    except _Runaway:
        mgr._refs.clear()
        return {"runaway": "collapse did not finish within 5 s of CPU time"}
    except errors.ConfigError as e:
        msgs = []
        x = e
        while x is not None and len(msgs) < 5:
            msgs.append(str(x))
            x = x.__cause__
        return {"error": type(e).__name__, "msg": ": ".join(msgs)}
    conf = {}
    for k, v in c.config.items():
        conf[k] = list(v) if isinstance(v, (list, tuple)) else v
    return {"config": conf, "class": getattr(c.type.callable, "__name__", repr(c.type.callable)), "default": bool(c.default)}


def judge(ctx, cfg, root, mgr, record=True, how="shared"):
    srcs = model_sources(cfg)
    exp = ref.collapse(srcs, root)
    st = ref.stacks(srcs)
    if st[root][0].get("inherit-only"):
        ctx.skip_unspecified("root section is marked inherit-only")
        return None
    if exp[0] == "unspecified":
        ctx.skip_unspecified("diamond-shaped inheritance graph")
        return None
    if exp[0] == "ok" and exp[1]["class"] is None:
        ctx.skip_unspecified("no definition in the inheritance list sets 'class'")
        return None
    got = observe(mgr, root)
    ctx.evaluated()
    ctx.count("collapse_calls")
    wit = {"sources": cfg["sources"], "added_later": cfg.get("added_later", 0), "root": root, "impl": got, "manager": how}
    if "runaway" in got:
        ctx.violation("collapse-does-not-terminate", dict(wit, expected=list(exp[:1]) + ([exp[1]] if exp[0] == "error" else []),
                                                          rule="runaway"))
        return False
    if exp[0] == "error":
        if record:
            ctx.count("expect:error:" + exp[1])
            ctx.nontrivial(json.dumps([cfg["sources"], root], sort_keys=True))
        if "error" not in got:
            ctx.violation("error-not-reported", dict(wit, expected={"error": exp[1]}, rule=exp[1]))
            return False
        return True
    e = exp[1]
    want = {"config": e["config"], "class": e["class"], "default": bool(e["default"])}
    if record:
        ctx.count("expect:value")
        order = e["order"]
        inherited = [k for k, p in e["provider"].items() if p != order[0] and k != "inherit"]
        if len(order) >= 2 and inherited:
            ctx.nontrivial(json.dumps([cfg["sources"], root], sort_keys=True))
            ctx.count("roots_with_inherited_keys")
        if any(n == m and d2 > d1 for (n, d1), (m, d2) in zip(order, order[1:])) or any(d > 0 for _n, d in order):
            ctx.count("self_inherit_resolved")
        dfs = ref.collapse(srcs, root, strategy="dfs")
        if dfs[0] == "ok" and (dfs[1]["config"], dfs[1]["class"]) != (e["config"], e["class"]):
            ctx.count("separates_bfs_from_dfs")
        old = ref.collapse(srcs, root, latest_first=False)
        if old[0] != "ok" or (old[1]["config"], old[1]["class"]) != (e["config"], e["class"]):
            ctx.count("separates_latest_from_oldest")
    if "error" in got:
        ctx.violation("unexpected-error", dict(wit, expected=want, order=e["order"], rule="error-on-valid-graph"))
        return False
    if got != want:
        bad = sorted(k for k in set(got["config"]) | set(want["config"]) if got["config"].get(k, "<unset>") != want["config"].get(k, "<unset>"))
        rule = "config-values" if bad else ("class" if got["class"] != want["class"] else "default-flag")
        ctx.violation("collapsed-value-vs-bfs-model", dict(wit, expected=want, order=e["order"], provider=e["provider"],
                                                           differing_keys=bad, rule=rule))
        return False
    return True


def run(ctx):
    _setup()
    rng = ctx.rng
    n = ctx.budget(6000, 40000)
    for i in range(n):
        cfg = gen_config(rng)
        if cfg["inject"]:
            ctx.count("injected:" + cfg["inject"])
        ctx.count("configurations")
        try:
            mgr = build_manager(cfg)
        except Exception as e:  # noqa: BLE001
            ctx.violation("manager-construction-raised", {"sources": cfg["sources"], "exc": repr(e), "rule": "construction"})
            continue
        names = sorted({nm for s in cfg["sources"] for nm in s})
        rng.shuffle(names)
        if len(cfg["sources"]) >= 2 and rng.random() < 0.3:
            # staged history: collapse on a manager holding only the first sources, THEN add the later
            # sources to that same manager; every collapse afterwards must see the full stack
            later = rng.randrange(1, len(cfg["sources"]))
            early = dict(cfg, sources=cfg["sources"][: len(cfg["sources"]) - later], added_later=0)
            try:
                mgr = build_manager(early)
                for root in sorted({nm for s in early["sources"] for nm in s}):
                    if rng.random() < 0.6:
                        judge(ctx, early, root, mgr, record=False, how="staged-early")
                _add_later(mgr, cfg, later)
                ctx.count("staged_histories")
            except Exception as e:  # noqa: BLE001
                ctx.violation("staged-add-config-source-raised", {"sources": cfg["sources"], "exc": repr(e), "rule": "staged"})
                continue
            for root in names:
                judge(ctx, cfg, root, mgr, record=False, how="staged-after-add")
                ctx.count("staged_collapses_after_add")
            continue
        for root in names:
            ok = judge(ctx, cfg, root, mgr)
            if ok is not None and rng.random() < 0.15:
                judge(ctx, cfg, root, build_manager(cfg), record=False, how="fresh")
                ctx.count("fresh_manager_collapses")
            if ctx.want_sample() and ok is not None and i > 3:
                e = ref.collapse(model_sources(cfg), root)
                if e[0] == "ok" and len(e[1]["order"]) >= 4:
                    ctx.sample({"sources": model_sources(cfg), "root": root, "bfs_order": e[1]["order"],
                                "expected": e[1]["config"], "agrees": ok})
        if i % 64 == 0 and ctx.out_of_time(30):
            ctx.note("stopped early by the soft deadline after %d configurations" % (i + 1))
            break


def classify(w):
    return None


def replay(ctx, w):
    _setup()
    cfg = {"sources": w["sources"], "added_later": w.get("added_later", 0), "inject": None}
    judge(ctx, cfg, w["root"], build_manager(cfg), record=False, how="fresh")
