"""C04 An atom matches a package exactly as PMS dependency semantics say."""

import itertools
import random

from ..gen import c03_atoms as ga
from ..gen import versions as gv
from ..ref import c03_pms_atom as ref

ID = "C04"
LEVEL = "exploration"
TECHNIQUE = "runtime monitoring of atom.match(pkg) (and of each member restriction) against a PMS matcher"
RULE = ("(atom, package) pairs: (a) every operator (<,<=,=,~,>=,>,=*) x a boundary pool of written versions/revisions x the "
        "same pool as package versions, exhaustively; (b) exhaustive single-dimension grids (13 slot forms x 11 slot/sub-slot "
        "packages, repos, ~55 USE-dependency forms incl. pairs and triples with (+)/(-) x all 27 IUSE/USE states over x,y,z) "
        "and a sampled cross product of all dimensions x blocker forms; (c) random grammar-generated atoms against packages "
        "derived from them by perturbing one or more attributes. Real atoms are matched against real FakePkg objects; the "
        "verdict is compared with vt/ref/c03_pms_atom.matches on the independently parsed text. A pair is non-trivial when "
        "category/name agree and the atom carries a version, slot, repository or USE constraint; distinct = distinct "
        "(atom text, package description).")
ASSUMPTIONS = [
    "packages are pkgcore.test.misc.FakePkg objects with use a subset of the stripped IUSE",
    "a USE dependency without (+)/(-) on a flag outside IUSE is a PMS error: such pairs are not judged",
    "=ver* is judged only where the textual and the numeric reading of 'same component' agree (=1.0* vs 1.00 is skipped)",
    "conditional USE dependencies (x?, x=) need the parent's USE and are not part of atom.match semantics here",
    "version comparison reference: vt/ref/pms_version.py (PMS algorithms 3.1-3.7)",
    "all atoms of a shard stay alive for the whole run (as the atoms of loaded dependency sets do), so results that depend "
    "on pkgcore's weak instance caches are observed; witnesses carry the earlier atoms they depended on ('prime')",
]
SHARDS = {"quick": 4, "thorough": 16}
TIMEOUT = {"quick": 240, "thorough": 1800}
MIN_EVALS = 50000
REQUIRED_COUNTERS = ("op:=*", "op:~", "op:<", "op:>=", "expected_match", "expected_nomatch", "use_default_applied",
                     "blocker_law_evals", "clause_decides:version", "clause_decides:slot", "clause_decides:subslot",
                     "clause_decides:repo", "clause_decides:use-static", "clause_decides:use-default", "clause_decides:name")

ATTR2CLAUSE = {"package": "name", "category": "name", "repo.repo_id": "repo", "fullver": "version", "slot": "slot",
               "subslot": "subslot", "use": "use-static", "iuse_stripped+use": "use-default"}
CLAUSES = ("name", "version", "slot", "subslot", "repo", "use-static", "use-default")

BOUNDARY_VERSIONS = ["1", "1.0", "1.00", "1.1", "1.10", "1.01", "10", "1a", "1.0.1", "1_p1", "1_p", "1_p10", "1_alpha",
                     "1_alpha1", "1.1a", "01", "2", "0", "1.0_rc1", "1.1.5", "1.1_p1", "1a_p1", "1_p1_alpha", "11"]
BOUNDARY_REVS = ["", "1", "10", "0", "01"]
OPS = ["<", "<=", "=", "~", ">=", ">", "=*"]

SLOT_FORMS = ["", ":0", ":1", ":2", ":2.1", ":0/0", ":0/1", ":1/0", ":2.1/2.1", ":*", ":=", ":0=", ":0/1="]
REPO_FORMS = ["", "::a", "::b"]
PKG_SLOTS = [("0", "0"), ("0", "1"), ("0", "2.1"), ("1", "1"), ("1", "0"), ("1", "2.1"), ("2.1", "2.1"), ("2.1", "0"),
             ("2.1", "1"), ("10", "10"), ("10", "1")]
PKG_REPOS = ["a", "b", ""]


def use_forms():
    toks = lambda f: [f, "-" + f, f + "(+)", f + "(-)", "-" + f + "(+)", "-" + f + "(-)"]
    out = [""]
    out += toks("x")
    out += [a + "," + b for a in toks("x") for b in toks("y")]
    out += ["-x,-y,-z", "x,y,z", "-x(+),-y(+),-z(+)", "-x(-),-y(-),-z(-)", "x(+),y(-),-z", "-x,-y,z", "-x,-y(-),-z(-)",
            "-x(+),-y(+),-z(-)", "x(-),y(-),z(-)", "x(+),y(+),z(+)", "-x,y(+),-z(-)", "-z,-y", "-y(-),-x(-)"]
    return out


def use_states():
    flags = ("x", "y", "z")
    for n in range(4):
        for iuse in itertools.combinations(flags, n):
            for m in range(len(iuse) + 1):
                for use in itertools.combinations(iuse, m):
                    yield list(iuse), list(use)


def strip_block(s):
    return s.lstrip("!")


class Mon:
    def __init__(self, ctx):
        from pkgcore.ebuild import atom as atom_mod

        self.ctx = ctx
        self.atom = atom_mod.atom
        self._atoms = {}
        self._pkgs = {}
        self._owners = {}  # id(restriction object inside a USE clause) -> text of the first atom that got it

    def _use_tops(self, a):
        for r in a.restrictions:
            attr = getattr(r, "attr", None)
            if attr is None:
                attr = "+".join(getattr(r, "attrs", ()))
            cl = ATTR2CLAUSE.get(attr)
            if cl in ("use-static", "use-default"):
                yield cl, r.restriction

    def atom_for(self, s):
        """(real atom, reference parse).  No EAPI: the newest feature set plus ::repo."""
        t = self._atoms.get(s)
        if t is None:
            res = ref.parse(s, None)
            if res.status == ref.INVALID:
                raise AssertionError("generator produced an invalid atom: %r (%s)" % (s, res.rule))
            t = (self.atom(s), res.atom)
            # every atom stays alive for the whole run (like the atoms of loaded dependency sets do), and the
            # restriction objects its USE clauses are made of are attributed to the first atom that received them
            self._atoms[s] = t
            if res.atom["use"]:
                try:
                    for _cl, top in self._use_tops(t[0]):
                        self._owners.setdefault(id(top), s)
                except Exception:
                    pass
        return t

    def shared_with(self, a, s):
        """{clause: [texts of EARLIER atoms that own the very same restriction objects]}"""
        out = {}
        try:
            for cl, top in self._use_tops(a):
                o = self._owners.get(id(top))
                if o is not None and o != s:
                    out.setdefault(cl, []).append(o)
        except Exception:
            pass
        return out

    def pkg(self, d):
        k = ga.pkg_key(d)
        p = self._pkgs.get(k)
        if p is None:
            try:
                obj = ga.make_pkg(d)
            except Exception as e:  # package not constructible with this pkgcore (C03's business): skip the pair
                self.ctx.count("package_not_constructible:" + type(e).__name__)
                obj = None
            p = (obj, dict(d, iuse=set(d["iuse"]), use=set(d["use"])), k)
            if len(self._pkgs) < 60000:
                self._pkgs[k] = p
        return p

    @staticmethod
    def impl_clauses(a, p):
        """The real member restrictions of the atom, evaluated one by one and attributed to PMS clauses."""
        out = {}
        for r in a.restrictions:
            attr = getattr(r, "attr", None)
            if attr is None:
                attr = "+".join(getattr(r, "attrs", ()))
            cl = ATTR2CLAUSE.get(attr, "other:" + str(attr))
            out[cl] = out.get(cl, True) and bool(r.match(p))
        return out

    @staticmethod
    def use_children(a):
        """What the atom's USE restrictions are really made of (class, flags, negate, if_missing of every leaf)."""
        out = {}
        for r in a.restrictions:
            attr = getattr(r, "attr", None)
            if attr is None:
                attr = "+".join(getattr(r, "attrs", ()))
            cl = ATTR2CLAUSE.get(attr)
            if cl not in ("use-static", "use-default"):
                continue
            top = r.restriction
            kids = getattr(top, "restrictions", None)
            kids = [top] if kids is None else list(kids)
            out.setdefault(cl, []).extend(
                {"cls": type(k).__name__, "vals": sorted(getattr(k, "vals", ())), "negate": bool(getattr(k, "negate", False)),
                 "if_missing": getattr(k, "if_missing", None)} for k in kids)
        return out

    @staticmethod
    def _history(w, prime):
        """Make the witness self-contained: the earlier atoms whose restriction objects this atom received must be
        alive again when the witness is replayed."""
        hist = list(prime)
        for owners in (w.get("shared_with") or {}).values():
            hist.extend(o for o in owners if o not in hist)
        if hist:
            w["prime"] = hist

    def check(self, s, d, blocker_law=True, prime=()):
        ctx = self.ctx
        a, pa = self.atom_for(s)
        p, pd, pk = self.pkg(d)
        if p is None:
            return None
        cl = ref.match_clauses(pa, pd)
        exp = ref.combine(cl)
        ctx.count("op:" + (pa["op"] or "none"))
        if exp is None:
            if cl["use-static"] is None or cl["use-default"] is None:
                ctx.skip_unspecified("USE dep on a flag outside IUSE without default (or conditional dep)")
            else:
                ctx.skip_unspecified("=ver*: textual and numeric component readings differ")
            return
        try:
            got = a.match(p)
        except Exception as e:
            ctx.evaluated()
            w = {"atom": s, "pkg": d, "exc": type(e).__name__, "expected": exp, "rule": "raises"}
            try:
                w["use_children"] = self.use_children(a)
                w["shared_with"] = self.shared_with(a, s)
            except Exception:
                pass
            self._history(w, prime)
            ctx.violation("match-raises", w)
            return
        ctx.evaluated()
        if cl["name"] and (pa["op"] or pa["slot"] or pa["repo"] or pa["use"]):
            ctx.nontrivial(s + "\0" + pk)
        if exp:
            ctx.count("expected_match")
        else:
            ctx.count("expected_nomatch")
            falses = [c for c in CLAUSES if cl[c] is False]
            if len(falses) == 1:
                ctx.count("clause_decides:" + falses[0])
        if pa["use"] and any(dep[2] is not None and dep[0] not in pd["iuse"] for dep in pa["use"]):
            ctx.count("use_default_applied")
        if got is not True and got is not False:
            got = bool(got)
        if got != exp:
            try:
                ic = self.impl_clauses(a, p)
            except Exception as e:
                ic = {"error": type(e).__name__}
            diff = sorted(c for c in CLAUSES if c in ic and cl[c] is not None and ic[c] != cl[c])
            w = {"atom": s, "pkg": d, "impl": got, "expected": exp, "ref_clauses": cl, "impl_clauses": ic,
                 "rule": "+".join(diff) or "unattributed"}
            if pa["use"]:
                try:
                    w["use_children"] = self.use_children(a)
                    w["shared_with"] = self.shared_with(a, s)
                except Exception:
                    pass
            self._history(w, prime)
            ctx.violation("match-vs-pms", w)
        if blocker_law:
            base = strip_block(s)
            for form in ("", "!", "!!"):
                t = form + base
                if t == s:
                    continue
                b, _pb = self.atom_for(t)
                ctx.count("blocker_law_evals")
                ctx.evaluated()
                try:
                    g2 = bool(b.match(p))
                except Exception as e:
                    g2 = "exc:" + type(e).__name__
                if g2 != got:
                    ctx.violation("blocker-match-differs", {"atom": s, "other": t, "pkg": d, "impl": got, "impl_other": g2,
                                                            "rule": "blocker"})
        return got


def boundary_pool(n_extra):
    pool = [(v, r) for v in BOUNDARY_VERSIONS for r in BOUNDARY_REVS]
    seen = set(pool)
    for v, r in gv.stratified_pool(random.Random(4), 44 * 6 + n_extra):
        if (v, r) not in seen:
            seen.add((v, r))
            pool.append((v, r))
    return pool[:len(BOUNDARY_VERSIONS) * len(BOUNDARY_REVS) + n_extra]


def run(ctx):
    mon = Mon(ctx)
    rng = ctx.rng
    # (a) operator x written version x package version ------------------------------------------------------------
    pool = boundary_pool(ctx.budget(0, 130))
    idx = 0
    stop = False
    for av, ar in pool:
        for op in OPS:
            if op == "~" and ar != "":
                continue
            idx += 1
            if idx % ctx.nshards != ctx.shard:
                continue
            fv = gv.fullver(av, ar)
            s = ("=cat/pkg-%s*" % fv) if op == "=*" else "%scat/pkg-%s" % (op, fv)
            for pv_, pr in pool:
                mon.check(s, ga.pkg_dict("cat", "pkg", pv_, pr), blocker_law=False)
            ctx.count("version_grid_atoms")
            if ctx.want_sample():
                d = ga.pkg_dict("cat", "pkg", "10", "")
                ctx.sample({"atom": s, "pkg": ga.pkg_key(d), "pms": ref.matches(mon.atom_for(s)[1], mon.pkg(d)[1])})
            if ctx.out_of_time(100):
                stop = True
                break
        if stop:
            ctx.note("version grid stopped early by the soft deadline")
            break
    else:
        ctx.count("version_grid_complete")
    # (b1) single-dimension grids, exhaustive ---------------------------------------------------------------------
    k = 0
    states = list(use_states())
    for uf in use_forms():
        for prefix in ("cat/pkg", "=cat/pkg-1:0"):
            k += 1
            if k % ctx.nshards != ctx.shard:
                continue
            s = prefix + ("[%s]" % uf if uf else "")
            for iuse, use in states:
                mon.check(s, ga.pkg_dict("cat", "pkg", "1", "", iuse=iuse, use=use))
            ctx.count("use_grid_atoms")
    for sf in SLOT_FORMS:
        for rf in REPO_FORMS:
            k += 1
            if k % ctx.nshards != ctx.shard:
                continue
            for sl, sub in PKG_SLOTS:
                for repo in PKG_REPOS:
                    mon.check("cat/pkg" + sf + rf, ga.pkg_dict("cat", "pkg", "1", "", slot=sl, subslot=sub, repo=repo))
            ctx.count("slot_repo_grid_atoms")
    for acat, aname in itertools.product(("cat", "dog", "ca"), ("pkg", "pkg-ng", "pk")):
        for pcat, pname in itertools.product(("cat", "dog", "cat-x"), ("pkg", "pkg-ng", "pkg-ng-x")):
            k += 1
            if k % ctx.nshards != ctx.shard:
                continue
            for s in ("%s/%s" % (acat, aname), ">=%s/%s-1" % (acat, aname), "%s/%s:0[x(+)]" % (acat, aname)):
                mon.check(s, ga.pkg_dict(pcat, pname, "1", ""))
    # (b2) sampled cross product ---------------------------------------------------------------------------------------
    ufs = use_forms()
    verforms = [("", None), ("=", "1"), ("=*", "1"), (">=", "1-r1"), ("~", "1"), ("<", "2")]
    n_atoms = ctx.budget(2000, 9000)
    per_atom = ctx.budget(10, 24)
    for i in range(n_atoms):
        op, v = rng.choice(verforms)
        body = "cat/pkg" + ("-" + v if op else "")
        body = ("=" + body + "*") if op == "=*" else op + body
        s = rng.choice(["", "", "!", "!!"]) + body + rng.choice(SLOT_FORMS) + rng.choice(REPO_FORMS)
        uf = rng.choice(ufs)
        if uf:
            s += "[%s]" % uf
        for _ in range(per_atom):
            iuse, use = rng.choice(states)
            sl, sub = rng.choice(PKG_SLOTS)
            d = ga.pkg_dict("cat", "pkg", rng.choice(["1", "1", "1", "2", "10", "1.0", "0.9"]), rng.choice(["", "", "1", "2"]),
                            slot=sl, subslot=sub, repo=rng.choice(PKG_REPOS), iuse=iuse, use=use)
            mon.check(s, d)
        ctx.count("cross_atoms")
        if i % 64 == 0 and ctx.out_of_time(60):
            break
    # (c) random atoms vs derived packages -----------------------------------------------------------------------------
    for i in range(ctx.budget(3000, 20000)):
        s = ga.random_atom(rng, simple_use=True)
        try:
            a, pa = mon.atom_for(s)
        except AssertionError:
            ctx.count("generator_produced_invalid_atom")
            continue
        except Exception as e:
            # acceptance is C03's business; here only count it
            ctx.count("random_atom_rejected_by_impl:" + type(e).__name__)
            continue
        for d in derived_packages(rng, pa, 8):
            mon.check(s, d, blocker_law=(i % 4 == 0))
        ctx.count("random_atoms")
        if i < 2:
            ctx.sample({"atom": s, "packages": [ga.pkg_key(d) for d in derived_packages(random.Random(i), pa, 3)]})
        if i % 64 == 0 and ctx.out_of_time(25):
            break


def derived_packages(rng, pa, n):
    """Packages built around a parsed atom: one that satisfies every constraint where possible, then perturbations."""
    flags = [dep[0] for dep in (pa["use"] or ())]
    want_on = [dep[0] for dep in (pa["use"] or ()) if not dep[1]]
    v, r = (pa["version"], pa["revision"]) if pa["version"] is not None else ("1", "")
    slot = pa["slot"] or "0"
    base = dict(category=pa["category"], package=pa["package"], version=v, revision=r, slot=slot,
                subslot=pa["subslot"] or slot, repo=pa["repo"] or "", iuse=list(dict.fromkeys(flags)),
                use=list(dict.fromkeys(want_on)))
    out = [ga.pkg_dict(**base)]
    while len(out) < n:
        d = dict(base)
        for _ in range(rng.choice([1, 1, 2, 3])):
            c = rng.randrange(8)
            if c == 0:
                d["version"], d["revision"] = gv.mutate_version(rng, d["version"], d["revision"])
            elif c == 1:
                d["revision"] = rng.choice(gv.REVS)
            elif c == 2:
                d["slot"] = rng.choice(ga.SLOTS)
                if rng.random() < 0.5:
                    d["subslot"] = d["slot"]
            elif c == 3:
                d["subslot"] = rng.choice(ga.SLOTS)
            elif c == 4:
                d["repo"] = rng.choice(ga.REPOS + [""])
            elif c == 5 and flags:
                # drop some flags from IUSE (defaults kick in) and re-draw USE within IUSE
                iuse = [f for f in flags if rng.random() < 0.6]
                d["iuse"] = iuse
                d["use"] = [f for f in iuse if rng.random() < 0.5]
            elif c == 6 and flags:
                d["use"] = [f for f in d["iuse"] if rng.random() < 0.5]
            elif c == 7:
                r7 = rng.random()
                if r7 < 0.3:
                    # same name up to letter case (names are case-sensitive)
                    field = "package" if r7 < 0.2 else "category"
                    pos = [i for i, ch in enumerate(d[field]) if ch.isalpha()]
                    if pos:
                        for i in rng.sample(pos, rng.randrange(1, len(pos) + 1)):
                            d[field] = d[field][:i] + d[field][i].swapcase() + d[field][i + 1:]
                elif r7 < 0.65:
                    d["package"] = rng.choice(ga.PACKAGES)
                else:
                    d["category"] = rng.choice(ga.CATEGORIES)
        if not ref.valid_version(d["version"]) or not ref.valid_package_name(d["package"]):
            continue
        d["use"] = [f for f in d["use"] if f in d["iuse"]]
        out.append(ga.pkg_dict(**d))
    return out


# -------------------------------------------------------------------------------------------------------------
# known mechanisms

WRONG_MODEL = {"version": ("glob_string_prefix", "glob-is-string-prefix"),
               "use-static": ("nand_static", "negated-use-group-nand-static"),
               "use-default": ("nand_default", "negated-use-group-nand-default")}
ALIASING = "use-restriction-cache-aliasing"


def expected_use_children(deps):
    """Leaves the USE restrictions of an atom must consist of, derived from its text (PMS 8.3.4): a 2-style group is a
    plain containment test on USE, a 4-style group must carry its own default."""
    out = {"use-static": [], "use-default": []}
    for default, clause, cls in ((None, "use-static", "ContainmentMatch"), ("-", "use-default", "_UseDepDefaultContainment"),
                                 ("+", "use-default", "_UseDepDefaultContainment")):
        for neg in (True, False):
            flags = sorted(d[0] for d in deps if d[2] == default and d[1] == neg)
            if flags:
                out[clause].append({"cls": cls, "vals": flags, "negate": neg,
                                    "if_missing": None if default is None else default == "+"})
    return out


def aliased_clauses(pa, observed, shared_with):
    """Clauses whose restriction object is demonstrably not the one the text asks for but the instance-cached object of
    an EARLIER live atom: (1) the very same object belongs to that other atom, (2) it is exactly what the other atom's
    text asks for, (3) it differs from what this atom asks for ONLY in leaf class / if_missing (the attributes the
    cache key ignores)."""
    if not isinstance(observed, dict) or not isinstance(shared_with, dict) or not pa["use"]:
        return set()
    exp = expected_use_children(pa["use"])
    out = set()
    norm = lambda xs, full: sorted((tuple(x["vals"]), x["negate"]) + ((x["cls"], x["if_missing"]) if full else ())
                                   for x in xs)
    for clause in ("use-static", "use-default"):
        others = shared_with.get(clause) or []
        theirs = []
        for other in others if isinstance(others, list) else [others]:
            ores = ref.parse(other, None)
            if ores.status != ref.INVALID and ores.atom["use"]:
                oexp = expected_use_children(ores.atom["use"])
                theirs += norm(oexp["use-static"] + oexp["use-default"], True)
        if not theirs:
            continue
        obs = observed.get(clause) or []
        want = exp[clause]
        try:
            # every leaf that is not what this atom asks for must be legitimately an earlier atom's leaf
            if norm(obs, True) != norm(want, True) and norm(obs, False) == norm(want, False) and \
                    all(x in theirs for x in norm(obs, True) if x not in norm(want, True)):
                out.add(clause)
        except (KeyError, TypeError):
            pass
    return out


def classify(w):
    kind = w.get("kind")
    if kind not in ("match-vs-pms", "match-raises"):
        return None
    res = ref.parse(w["atom"], None)
    if res.status == ref.INVALID:
        return None
    pa = res.atom
    aliased = aliased_clauses(pa, w.get("use_children"), w.get("shared_with"))
    if kind == "match-raises":
        # a 2-style restriction made of 4-style leaves unpacks the USE set as (iuse, use)
        return ALIASING if w.get("exc") == "ValueError" and "use-static" in aliased else None
    d = w["pkg"]
    pd = dict(d, iuse=set(d["iuse"]), use=set(d["use"]))
    cl = ref.match_clauses(pa, pd)
    exp = ref.combine(cl)
    ic = w.get("impl_clauses") or {}
    impl = w.get("impl")
    if exp is None or impl == exp:
        return None
    # the per-restriction observations must account for the overall answer and name only known clauses
    if set(ic) - set(CLAUSES) or not ic or all(ic.values()) != impl:
        return None
    diff = [c for c in CLAUSES if c in ic and cl[c] is not None and ic[c] != cl[c]]
    if not diff:
        return None
    keys = []
    for clause in diff:
        if clause not in WRONG_MODEL:
            return None
        if clause in aliased:
            keys.append(ALIASING)
            continue
        variant, name = WRONG_MODEL[clause]
        if clause == "version" and pa["op"] != "=*":
            return None
        if ref.match_clauses(pa, pd, frozenset([variant]))[clause] != ic[clause]:
            return None
        keys.append(name)
    return keys[0]


def replay(ctx, w):
    mon = Mon(ctx)
    # history: atoms that were alive (restrictions built) before the judged one
    primed = [mon.atom_for(s)[0] for s in w.get("prime", ())]
    for a in primed:
        a.restrictions
    if "other" in w:
        mon.check(w["other"], w["pkg"], prime=w.get("prime", ()))
    mon.check(w["atom"], w["pkg"], prime=w.get("prime", ()))
    del primed
