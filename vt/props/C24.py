"""C24 Installed-package CONTENTS files round-trip; flush over an existing file is crash-atomic.

Runtime monitoring of the real pkgcore.vdb.contents.ContentsFile: random hostile contents sets are written with
flush() and read back with a fresh ContentsFile; the oracle is the property statement (vt/ref/c24_contents.py).
The atomicity half enumerates, with vt/fault.py, every filesystem operation of a flush() over an existing CONTENTS
file and judges old-or-new on the raw bytes and through a fresh reader.
"""

import os
import shutil

from ..gen import c24_sets as gen
from ..ref import c24_contents as ref

ID = "C24"
LEVEL = "exploration"
TECHNIQUE = "round-trip oracle on the real ContentsFile + enumerated crash/EIO injection at every operation of flush()"
RULE = ("random contents sets (1-60 entries: obj/sym/dir/fif/dev) whose paths and symlink targets are built from pools of "
        "spaced, ' -> '-carrying, non-ASCII and odd components; written with the real ContentsFile.flush() and read back "
        "with a fresh ContentsFile; oracle = the set of (type, path, md5, int(mtime), target) is unchanged, mtimes come "
        "back as ints, a second write of the read-back set is byte-identical. A case is non-trivial when some path or "
        "target contains a space, '->' or a non-ASCII character; distinct = distinct entry list. Crash part: for "
        "flushes over an existing file, every numbered filesystem operation x {crash-before, crash-after, torn, eio} "
        "(counters crash_points_enumerated, flushes_enumerated); afterwards the file's bytes are exactly the old or "
        "exactly the new bytes and a fresh reader yields exactly the old or the new set.")
ASSUMPTIONS = [
    "paths are valid unicode without NUL, LF or CR (line terminators are outside the line-oriented CONTENTS format)",
    "mtimes are >= 0; 'integral mtime' is read as int(mtime) (truncation)",
    "device entries in 'clean' sets use paths of device nodes that exist on this machine (the reader looks devices up "
    "on the live filesystem); the 'dev-missing' class uses device paths that do not exist or run through a regular file",
    "crash = death of the writing process at a Python-level filesystem operation (no power-loss reordering)",
    "a leftover .update.CONTENTS temp file after a crash is not judged (the statement speaks about CONTENTS only)",
    "only path-backed ContentsFile objects are judged (data_source-backed ones are not 'CONTENTS files')",
]
SHARDS = {"quick": 4, "thorough": 16}
TIMEOUT = {"quick": 600, "thorough": 2400}
MIN_EVALS = 1500
REQUIRED_COUNTERS = ("contract_write_calls", "contract_iter_contents_calls", "roundtrips", "flushes_enumerated",
                     "crash_points_enumerated", "crash_outcome:old", "crash_outcome:new")

C24_STOP_LEFT = [-1e9]  # thorough: time_left() value below which no further crash point is started (set by run)
KEY_ARROW = "C24:symlink-path-with-arrow"
KEY_STRIP = "C24:pathonly-entry-trailing-whitespace-stripped"
KEY_DEV = "C24:dev-entry-not-on-livefs-typeerror"


# ---------------------------------------------------------------------------------------------------
def _tuples(entries):
    return [tuple(e) for e in entries]


def _jmap(m):
    """{location: entry} -> sorted list (JSON-able, order independent)."""
    return sorted(([list(v) for v in m.values()]), key=lambda e: (e[1], e[0]))


def _unj(lst):
    return {e[1]: tuple(e) for e in lst}


class Mon:
    """Wraps the real ContentsFile; counts the anchored callables."""

    _installed = False

    def __init__(self, ctx):
        from pkgcore.fs import contents as contents_mod
        from pkgcore.fs import fs
        from pkgcore.vdb import contents as vdbc

        self.ctx = ctx
        self.fs = fs
        self.contentsSet = contents_mod.contentsSet
        self.CF = vdbc.ContentsFile
        if not Mon._installed:
            Mon._installed = True
            ow, oi = vdbc.ContentsFile._write, vdbc.ContentsFile._iter_contents

            def _write(self_):
                ctx.count("contract_write_calls")
                return ow(self_)

            def _iter_contents(self_):
                ctx.count("contract_iter_contents_calls")
                return oi(self_)

            vdbc.ContentsFile._write = _write
            vdbc.ContentsFile._iter_contents = _iter_contents

    # -- conversions ---------------------------------------------------------------------------
    def obj(self, e):
        fs = self.fs
        t, path, md5, mtime, target = e
        if t == "obj":
            return fs.fsFile(path, chksums={"md5": int(md5)}, mtime=mtime, strict=False)
        if t == "sym":
            return fs.fsLink(path, target, mtime=mtime, strict=False)
        if t == "dir":
            return fs.fsDir(path, strict=False)
        if t == "fif":
            return fs.fsFifo(path, strict=False)
        return fs.fsDev(path, strict=False)

    def back(self, cf):
        """entries of a read ContentsFile as {location: tuple}; also reports non-integral mtimes."""
        out, nonint, n = {}, [], 0
        for o in cf:
            n += 1
            if o.is_reg:
                t = ("obj", o.location, o.chksums["md5"], o.mtime, None)
            elif o.is_sym:
                t = ("sym", o.location, None, o.mtime, o.target)
            elif o.is_dir:
                t = ("dir", o.location, None, None, None)
            elif o.is_fifo:
                t = ("fif", o.location, None, None, None)
            elif o.is_dev:
                t = ("dev", o.location, None, None, None)
            else:
                t = ("?" + type(o).__name__, o.location, None, None, None)
            if t[3] is not None and (not isinstance(t[3], int) or isinstance(t[3], bool)):
                nonint.append([t[1], repr(t[3])])
            out[o.location] = t
        return out, nonint, n

    def write(self, path, entries, how=0):
        """how 0: create + add one by one; 1: create + update(contentsSet); 2: load the existing (readable) file,
        clear, add, flush -- the way a vdb entry is rewritten."""
        if how == 2:
            seed = self.CF(path, mutable=True, create=True)
            seed.add(self.fs.fsDir("/previous contents", strict=False))
            seed.flush()
            cf = self.CF(path, mutable=True)
            cf.clear()
        else:
            cf = self.CF(path, mutable=True, create=True)
        objs = [self.obj(e) for e in entries]
        if how == 1:
            cf.update(self.contentsSet(objs))
        else:
            for o in objs:
                cf.add(o)
        cf.flush()
        return cf


def check_roundtrip(ctx, mon, entries, path, how=0, klass="clean"):
    """One write/read cycle judged against the statement.  Returns True when it held."""
    entries = _tuples(entries)
    exp = ref.expected(entries)
    wit = {"entries": [list(e) for e in entries], "class": klass, "how": how}
    ctx.count("roundtrips")
    ctx.count("class:" + klass)
    for e in entries:
        ctx.count("entries:" + e[0])
    try:
        mon.write(path, entries, how=how)
    except Exception as e:
        ctx.evaluated()
        ctx.violation("write-raises", dict(wit, exc_type=type(e).__name__, exc=repr(e)[:300], rule="write-raises"))
        return False
    with open(path, "rb") as f:
        raw = f.read()
    ctx.evaluated()
    try:
        got, nonint, n = mon.back(mon.CF(path))
    except Exception as e:
        ctx.violation("read-raises", dict(wit, exc_type=type(e).__name__, exc=repr(e)[:300], raw=raw[:2000],
                                          rule="read-raises:" + type(e).__name__))
        return False
    ok = True
    if got != exp or n != len(exp):
        ok = False
        missing = sorted(set(exp) - set(got))
        extra = sorted(set(got) - set(exp))
        changed = sorted(k for k in exp if k in got and got[k] != exp[k])
        rule = "entries-differ"
        if missing and all(exp[k][0] == "sym" for k in missing) and not changed:
            rule = "symlink-entries-differ"
        elif missing and all(exp[k][0] in ("dir", "fif", "dev") for k in missing) and not changed:
            rule = "pathonly-entries-differ"
        ctx.violation("roundtrip-differs", dict(wit, got=_jmap(got), expected=_jmap(exp), missing=missing, extra=extra,
                                                changed=changed, n_read=n, rule=rule))
    ctx.evaluated()
    if nonint:
        ok = False
        ctx.violation("mtime-not-integral", dict(wit, nonint=nonint[:5], rule="mtime-not-integral"))
    # the bytes on disk against the documented line format (informational: the statement only demands the round trip)
    try:
        if raw.decode("utf-8") == ref.reference_file(entries):
            ctx.count("raw_matches_reference_format")
        else:
            ctx.count("raw_differs_from_reference_format")
            ctx.note("raw CONTENTS bytes differ from the reference line format for %r" % (wit["entries"][:2],))
    except UnicodeDecodeError:
        ctx.count("raw_not_utf8")
    if ok:
        # idempotence: writing the read-back set again gives the same bytes
        p2 = path + ".again"
        try:
            src = mon.CF(path, mutable=True)
            dst = mon.CF(p2, mutable=True, create=True)
            dst.update(src)
            dst.flush()
            with open(p2, "rb") as f:
                raw2 = f.read()
            ctx.evaluated()
            ctx.count("idempotence_checks")
            if raw2 != raw:
                ctx.violation("rewrite-not-idempotent", dict(wit, raw=raw[:1500], raw2=raw2[:1500], rule="idempotence"))
                ok = False
        except Exception as e:
            ctx.violation("rewrite-raises", dict(wit, exc_type=type(e).__name__, exc=repr(e)[:300], rule="rewrite-raises"))
            ok = False
        finally:
            try:
                os.unlink(p2)
            except OSError:
                pass
    return ok


# ---- crash / EIO enumeration over flush() ------------------------------------------------------------
def _restore(work, old_raw):
    shutil.rmtree(work, ignore_errors=True)
    os.makedirs(work)
    p = os.path.join(work, "CONTENTS")
    with open(p, "wb") as f:
        f.write(old_raw)
    os.chmod(p, 0o644)
    return p


def check_flush_atomic(ctx, mon, old, new, only=None, label=""):
    """Enumerate every operation of flush() of `new` over a CONTENTS file holding `old`."""
    from .. import fault

    old, new = _tuples(old), _tuples(new)
    base = os.path.join(os.environ.get("VT_SCRATCH", "/var/tmp"), "c24-flush")
    work = os.path.join(base, "work")
    shutil.rmtree(base, ignore_errors=True)
    os.makedirs(work)
    p = os.path.join(work, "CONTENTS")
    mon.write(p, old)
    with open(p, "rb") as f:
        old_raw = f.read()
    exp_old, exp_new = ref.expected(old), ref.expected(new)
    wit0 = {"old": [list(e) for e in old], "new": [list(e) for e in new], "label": label}
    try:
        if mon.back(mon.CF(p))[0] != exp_old:
            raise ValueError("old set does not read back")
    except Exception as e:
        ctx.count("flush_scenario_unusable")
        ctx.note("flush scenario skipped, the old file does not round-trip (round-trip part reports this): %r" % (e,))
        return

    def fn():
        cf = mon.CF(p, mutable=True)
        n_old = len(cf)
        cf.clear()
        for e in new:
            cf.add(mon.obj(e))
        cf.flush()
        return {"n_old": n_old}

    p = _restore(work, old_raw)
    dry = fault.run_injected(fn, "count", 0, roots=[work])
    if dry.get("status") != "done":
        ctx.count("flush_dryrun_failed")
        ctx.note("flush dry run did not finish: %s %s" % (dry.get("status"), str(dry.get("exc"))[:200]))
        return
    if dry.get("audit_unnumbered"):
        ctx.count("flush_dryrun_audit_unnumbered")
        ctx.note("fault.py did not number a mutation seen by the audit hook during flush(): ops=%r" % (dry.get("ops"),))
        return
    with open(p, "rb") as f:
        new_raw = f.read()
    if new_raw == old_raw:
        ctx.count("flush_old_equals_new_skipped")
        return
    try:
        got_new, _, _ = mon.back(mon.CF(p))
    except Exception as e:
        ctx.note("reader fails on the completed flush (round-trip part reports this): %r" % (e,))
        return
    if got_new != exp_new:
        ctx.note("completed flush does not read back as the new set (round-trip part reports this)")
        return
    ops = dry["ops"]
    nops = dry["nops"]
    ctx.count("flushes_enumerated")
    ctx.count("flush_ops_total", nops)
    if len(new_raw) > 16384:
        ctx.count("flushes_enumerated_larger_than_io_buffers")
    opnames = sorted({o[1] for o in ops})
    for nm in opnames:
        ctx.count("flush_opkind:" + nm, sum(1 for o in ops if o[1] == nm))
    if ctx.want_sample():
        ctx.sample({"flush_ops": [o[1] + " " + str(o[2])[:40] for o in ops[:4]] + ["..."] + [o[1] + " " + str(o[2])[:40] for o in ops[-3:]],
                    "nops": nops, "old_bytes": len(old_raw), "new_bytes": len(new_raw)})
    complete = True
    for op in ops:
        k = op[0]
        for kind in fault.KINDS:
            if kind == "torn" and not fault.is_write_op(op):
                continue
            if only is not None and (k, kind) != only:
                continue
            if ctx.out_of_time(10) or (not ctx.quick and ctx.time_left() < C24_STOP_LEFT[0]):
                complete = False
                break
            p = _restore(work, old_raw)
            res = fault.run_injected(fn, kind, k, roots=[work])
            wit = dict(wit0, k=k, mode=kind, op=[op[1], str(op[2])[:80]], nops=nops, status=res.get("status"))
            if res.get("audit_unnumbered"):
                ctx.count("crash_points_audit_unnumbered")
                ctx.note("audit hook saw an unnumbered mutation at k=%d %s" % (k, kind))
                continue
            if res.get("status") in ("child-died", "harness-error"):
                ctx.count("crash_points_harness_error")
                ctx.note("fault harness: %s at k=%d %s %s" % (res.get("status"), k, kind, str(res.get("tb"))[-200:]))
                continue
            if kind != "eio" and res.get("status") != "crashed":
                ctx.count("crash_points_not_injected")
                ctx.note("injection did not fire at k=%d %s (status %s)" % (k, kind, res.get("status")))
                continue
            if kind == "eio" and not res.get("injected"):
                ctx.count("crash_points_not_injected")
                continue
            ctx.count("crash_points_enumerated")
            ctx.count("crash_kind:" + kind)
            ctx.evaluated()
            ctx.nontrivial("flush|%s|%d|%s|%d" % (label, k, kind, len(new_raw)))
            try:
                with open(p, "rb") as f:
                    raw = f.read()
            except OSError as e:
                ctx.violation("contents-file-missing-after-fault", dict(wit, exc=repr(e), rule="missing:" + kind + ":" + op[1]))
                continue
            if raw == old_raw:
                outcome = "old"
            elif raw == new_raw:
                outcome = "new"
            else:
                outcome = "neither"
            ctx.count("crash_outcome:" + outcome)
            if outcome == "neither":
                pre = "prefix-of-new" if new_raw.startswith(raw) else ("prefix-of-old" if old_raw.startswith(raw) else "other")
                ctx.violation("contents-neither-old-nor-new",
                              dict(wit, raw_len=len(raw), old_len=len(old_raw), new_len=len(new_raw), shape=pre,
                                   raw_head=raw[:300], rule="not-atomic:" + kind + ":" + op[1]))
            # through a fresh reader: exactly the old or exactly the new set, never a parse error
            ctx.evaluated()
            try:
                got, _, _ = mon.back(mon.CF(p))
                if got != exp_old and got != exp_new:
                    ctx.violation("reader-sees-neither-old-nor-new",
                                  dict(wit, n_got=len(got), n_old=len(exp_old), n_new=len(exp_new),
                                       rule="reader-not-atomic:" + kind + ":" + op[1]))
                elif outcome != "neither" and (got == exp_new) != (outcome == "new") and exp_old != exp_new:
                    ctx.violation("reader-disagrees-with-bytes", dict(wit, outcome=outcome, rule="reader-vs-bytes"))
            except Exception as e:
                ctx.violation("reader-raises-after-fault", dict(wit, exc_type=type(e).__name__, exc=repr(e)[:300],
                                                               rule="reader-raises:" + kind + ":" + op[1]))
            if kind == "eio":
                ctx.count("eio_status:" + str(res.get("status")))
                if res.get("status") == "done" and outcome == "old":
                    # flush() returned normally although the write failed and nothing was written
                    ctx.evaluated()
                    ctx.violation("flush-returned-but-file-is-old", dict(wit, rule="eio-swallowed:" + op[1]))
            if os.path.exists(os.path.join(work, ".update.CONTENTS")):
                ctx.count("temp_left_behind:" + kind)
        else:
            continue
        break
    if complete and only is None:
        ctx.count("flushes_enumerated_completely")
    shutil.rmtree(base, ignore_errors=True)


def _big_set(rng, devs, nbytes):
    """A clean set whose CONTENTS file is larger than `nbytes` (many entries)."""
    out = {}
    size = 0
    while size < nbytes:
        for e in gen.contents_set(rng, "clean", devs, maxn=60):
            if e[1] not in out:
                out[e[1]] = e
                size += len(ref.reference_line(e).encode("utf-8")) + 1
    return list(out.values())


def _longpath_set(rng, n, each):
    """n file/symlink entries with very deep paths (~`each` bytes per line): a CONTENTS file larger than the text and
    binary write buffers (2 x 8 KiB) with only a handful of write operations, so that part of the new data has
    really reached the temp file when the later operations are hit."""
    out = []
    for i in range(n):
        p = "/long %d" % i
        while len(p.encode("utf-8")) < each:
            p += "/" + gen.component(rng)
        if i % 3 == 2 and not gen.hazards(("sym", p, None, 0, "t")):
            out.append(("sym", p, None, gen.mtime(rng), gen.target(rng)))
        else:
            out.append(("obj", p, gen.md5(rng), gen.mtime(rng), None))
    return out


def run(ctx):
    mon = Mon(ctx)
    rng = ctx.rng
    devs = gen.live_devices()
    ctx.count("live_device_nodes_available", len(devs))
    scratch = os.environ.get("VT_SCRATCH") or "/var/tmp/c24-%d" % os.getpid()
    os.makedirs(scratch, exist_ok=True)
    path = os.path.join(scratch, "c24-rt", "CONTENTS")
    os.makedirs(os.path.dirname(path), exist_ok=True)

    # ---- (a) round trips (cheap; at most half of the time budget)
    left0 = ctx.time_left()
    reserve = min(left0 * 0.5, 1e8)
    cap = ctx.budget(1e9, 300)  # thorough: at most ~5 min of round trips, the crash enumeration gets the rest
    n = ctx.budget(500, 20000)
    kinds = ["clean"] * 17 + ["sym-arrow", "trail-ws", "dev-missing"]
    for i in range(n):
        kind = rng.choice(kinds)
        ents = gen.contents_set(rng, kind, devs)
        how = rng.choice([0, 0, 1, 2])
        if gen.nontrivial(ents):
            ctx.nontrivial(repr(ents))
        if i < 3:
            ctx.sample({"class": kind, "entries": [list(e) for e in ents[:4]], "n": len(ents)})
        check_roundtrip(ctx, mon, ents, path, how=how, klass=kind)
        if i % 64 == 0 and (ctx.out_of_time(reserve) or left0 - ctx.time_left() > cap):
            ctx.note("round-trip loop stopped early by the soft deadline at %d/%d" % (i, n))
            break

    if not ctx.quick:
        C24_STOP_LEFT[0] = left0 - 800
    # ---- (b) crash enumeration (bounded by operation count: every operation of each chosen flush)
    v = ctx.shard % 4
    for i in range(ctx.budget(1, 2)):
        old = gen.contents_set(rng, "clean", devs, maxn=20)
        new = gen.contents_set(rng, "clean", devs, maxn=ctx.budget(8, 40))
        check_flush_atomic(ctx, mon, old, new, label="s%d-%d" % (ctx.shard, i))
    if v == 0:
        # new file larger than the write buffers, few operations
        old = gen.contents_set(rng, "clean", devs, maxn=10)
        check_flush_atomic(ctx, mon, old, _longpath_set(rng, ctx.budget(5, 12), ctx.budget(4200, 3000)), label="s%d-long" % ctx.shard)
    elif v == 1:
        # shrinking: a big old file replaced by a small new one (a writer working in place would leave a tail)
        old = _longpath_set(rng, 5, 4200)
        check_flush_atomic(ctx, mon, old, gen.contents_set(rng, "clean", devs, maxn=3), label="s%d-shrink" % ctx.shard)
    elif v == 2 and not ctx.quick:
        # many entries: several hundred write operations, file larger than the buffers
        old = gen.contents_set(rng, "clean", devs, maxn=30)
        check_flush_atomic(ctx, mon, old, _big_set(rng, devs, 20000), label="s%d-many" % ctx.shard)


# ---------------------------------------------------------------------------------------------------
def classify(w):
    """Mechanism keys.  Each predicate compares the implementation's answer with the answer of ONE specific wrong
    reader (vt/ref/c24_contents.py); anything else stays unclassified."""
    kind = w.get("kind")
    ents = [tuple(e) for e in w.get("entries", [])]
    if not ents:
        return None
    haz = set()
    for e in ents:
        if ref.sym_location_has_arrow_token(e):
            haz.add("arrow")
        if ref.pathonly_trailing_whitespace(e):
            haz.add("strip")
    if kind == "roundtrip-differs":
        got = _unj(w.get("got", []))
        if w.get("n_read") != len(got):
            return None
        if haz == {"arrow"} and got == ref.wrong_first_arrow(ents) and got != ref.expected(ents):
            return KEY_ARROW
        if haz == {"strip"} and got == ref.wrong_strip_lines(ents) and got != ref.expected(ents):
            return KEY_STRIP
        return None
    if kind == "read-raises":
        if (w.get("exc_type") == "TypeError" and "major/minor must be specified" in w.get("exc", "")
                and any(e[0] == "dev" and not ref.is_live_device(e[1]) for e in ents)):
            return KEY_DEV
    return None


def replay(ctx, w):
    mon = Mon(ctx)
    scratch = os.environ.get("VT_SCRATCH") or "/var/tmp/c24-replay-%d" % os.getpid()
    os.makedirs(scratch, exist_ok=True)
    if "old" in w and "new" in w:
        check_flush_atomic(ctx, mon, w["old"], w["new"], label=w.get("label", "replay"))
        return
    d = os.path.join(scratch, "c24-replay")
    shutil.rmtree(d, ignore_errors=True)
    os.makedirs(d)
    check_roundtrip(ctx, mon, w["entries"], os.path.join(d, "CONTENTS"), how=w.get("how", 0), klass=w.get("class", "replay"))
    shutil.rmtree(d, ignore_errors=True)
