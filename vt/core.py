"""Shared monitor plumbing: worker context, verdict records, evidence, known findings.

A property module (vt/props/Cnn.py) defines:

    ID            "C01"
    LEVEL         "exploration" | "fault_enumeration"
    RULE          str   how cases are generated and what makes one distinct / non-trivial
    ASSUMPTIONS   [str]
    SHARDS        {"quick": n, "thorough": n}
    TIMEOUT       {"quick": seconds, "thorough": seconds}   wall-clock watchdog (inconclusive when it fires)
    MIN_EVALS     int   fewer oracle evaluations than this in the whole run => inconclusive
    def run(ctx)              drive the workload; call ctx.evaluated/nontrivial/violation/...
    def classify(witness)     -> mechanism key (str) recognising one *specific* known mechanism, or None
    def replay(ctx, witness)  re-run one materialised witness against the current tree (optional)

Workers never decide the exit status; they only record.  The parent (runner.py) merges
shards, matches violations against known_findings.json by mechanism key and prints
the verdict lines.
"""

import hashlib
import json
import os
import random
import time
import traceback

ROOT = os.path.dirname(os.path.dirname(os.path.abspath(__file__)))
MAX_SAMPLES = 6
MAX_HASHES = 150_000
MAX_VIOL_PER_KEY = 3


def jsonable(o, depth=0):
    """Best-effort conversion of a witness to plain JSON."""
    if depth > 12:
        return repr(o)
    if o is None or isinstance(o, (bool, int, float, str)):
        return o
    if isinstance(o, bytes):
        try:
            return {"__bytes__": o.decode("utf-8")}
        except UnicodeDecodeError:
            return {"__bytes_hex__": o.hex()}
    if isinstance(o, dict):
        return {str(k): jsonable(v, depth + 1) for k, v in o.items()}
    if isinstance(o, (list, tuple)):
        return [jsonable(v, depth + 1) for v in o]
    if isinstance(o, (set, frozenset)):
        try:
            return sorted((jsonable(v, depth + 1) for v in o), key=repr)
        except Exception:
            return [jsonable(v, depth + 1) for v in o]
    return repr(o)


def unbytes(o):
    """Inverse of jsonable() for bytes markers (used by replay)."""
    if isinstance(o, dict):
        if set(o) == {"__bytes__"}:
            return o["__bytes__"].encode("utf-8")
        if set(o) == {"__bytes_hex__"}:
            return bytes.fromhex(o["__bytes_hex__"])
        return {k: unbytes(v) for k, v in o.items()}
    if isinstance(o, list):
        return [unbytes(v) for v in o]
    return o


def h64(key):
    if not isinstance(key, (str, bytes)):
        key = json.dumps(jsonable(key), sort_keys=True)
    if isinstance(key, str):
        key = key.encode("utf-8", "surrogateescape")
    return int.from_bytes(hashlib.blake2b(key, digest_size=8).digest(), "big")


class Ctx:
    """Per-worker recording context."""

    def __init__(self, prop, tier, seed, shard, nshards):
        self.prop = prop
        self.tier = tier
        self.seed = seed
        self.shard = shard
        self.nshards = nshards
        self.rng = random.Random(seed * 1000 + shard)
        self.evaluations = 0
        self.counters = {}
        self.hashes = set()
        self.hashes_capped = False
        self.nontrivial_total = 0
        self.samples = []
        self.violations = {}  # dedup key -> {"n":, "examples": [witness]}
        self.unspecified = {}
        self.notes = []
        self.t0 = time.monotonic()
        self.deadline = None  # soft deadline (monotonic) set by the worker from TIMEOUT
        self.inconclusive = None

    # -- budgets -----------------------------------------------------------------
    @property
    def quick(self):
        return self.tier == "quick"

    def budget(self, quick, thorough):
        return quick if self.tier == "quick" else thorough

    def time_left(self):
        if self.deadline is None:
            return 1e9
        return self.deadline - time.monotonic()

    def out_of_time(self, reserve=0.0):
        """Soft stop for op-count-bounded loops: True once the soft deadline is near.

        Verdicts never depend on it; a loop that stops early just evaluates less."""
        return self.time_left() < reserve

    # -- recording ---------------------------------------------------------------
    def evaluated(self, n=1):
        self.evaluations += n

    def count(self, name, n=1):
        self.counters[name] = self.counters.get(name, 0) + n

    def nontrivial(self, key):
        """Register one non-trivial case; distinctness decided by a 64-bit hash of key."""
        self.nontrivial_total += 1
        if len(self.hashes) < MAX_HASHES:
            self.hashes.add(h64(key))
        else:
            self.hashes_capped = True

    def sample(self, obj, force=False):
        if len(self.samples) < MAX_SAMPLES or force:
            self.samples.append(jsonable(obj))

    def want_sample(self):
        return len(self.samples) < MAX_SAMPLES

    def skip_unspecified(self, why):
        self.unspecified[why] = self.unspecified.get(why, 0) + 1

    def note(self, text):
        if len(self.notes) < 20:
            self.notes.append(text)

    def violation(self, kind, witness, msg=""):
        """Record a violation.  `kind` is the oracle clause that failed (free text, short);
        `witness` is a fully materialised, JSON-able description sufficient for replay."""
        w = jsonable(witness)
        w = dict(w) if isinstance(w, dict) else {"witness": w}
        w.setdefault("kind", kind)
        if msg:
            w.setdefault("msg", msg)
        w["shard_seed"] = self.seed * 1000 + self.shard
        mod = _load_prop(self.prop)
        try:
            key = mod.classify(w) if hasattr(mod, "classify") else None
        except Exception:
            key = None
            w["classify_error"] = traceback.format_exc()[-800:]
        dk = key or ("unclassified:" + kind + (":" + str(w["rule"]) if "rule" in w else ""))
        ent = self.violations.setdefault(dk, {"n": 0, "key": key, "kind": kind, "examples": []})
        ent["n"] += 1
        if len(ent["examples"]) < MAX_VIOL_PER_KEY:
            ent["examples"].append(w)
        self.count("violations_observed")

    def set_inconclusive(self, reason):
        self.inconclusive = reason

    def result(self):
        return {
            "shard": self.shard,
            "evaluations": self.evaluations,
            "counters": self.counters,
            "hashes": sorted(self.hashes),
            "hashes_capped": self.hashes_capped,
            "nontrivial_total": self.nontrivial_total,
            "samples": self.samples,
            "violations": self.violations,
            "unspecified": self.unspecified,
            "notes": self.notes,
            "inconclusive": self.inconclusive,
            "wall_s": time.monotonic() - self.t0,
        }


_prop_cache = {}


def _load_prop(pid):
    if pid not in _prop_cache:
        import importlib

        _prop_cache[pid] = importlib.import_module("vt.props." + pid)
    return _prop_cache[pid]


def load_known():
    path = os.path.join(ROOT, "known_findings.json")
    try:
        with open(path) as f:
            data = json.load(f)
    except FileNotFoundError:
        return []
    out = list(data.get("findings", []))
    kdir = os.path.join(ROOT, "known")
    if os.path.isdir(kdir):
        for fn in sorted(os.listdir(kdir)):
            if fn.endswith(".json"):
                with open(os.path.join(kdir, fn)) as f:
                    out.extend(json.load(f).get("findings", []))
    return out


class Stop(Exception):
    """Raised inside workloads to end early (budget exhausted)."""
