"""Worker process: runs one shard of one property's workload and writes a JSON result file."""

import json
import os
import sys
import time
import traceback


def main(argv):
    pid, tier, seed, shard, nshards, out, soft = argv[:7]
    replay = argv[7] if len(argv) > 7 else None
    seed, shard, nshards, soft = int(seed), int(shard), int(nshards), float(soft)
    root = os.path.dirname(os.path.dirname(os.path.abspath(__file__)))
    deps = os.path.join(root, ".deps")
    if os.path.isdir(deps) and deps not in sys.path:
        sys.path.append(deps)
    from vt import core

    ctx = core.Ctx(pid, tier, seed, shard, nshards)
    ctx.deadline = time.monotonic() + soft
    res = None
    try:
        mod = core._load_prop(pid)
        if replay:
            with open(replay) as f:
                w = json.load(f)
            w = w.get("witness", w)
            if not hasattr(mod, "replay"):
                ctx.set_inconclusive("no replay() for this property")
            else:
                mod.replay(ctx, w)
        else:
            if shard == 0 and hasattr(mod, "replay"):
                # pinned witnesses of recorded findings: replayed on every run so that a
                # listed finding is reported exactly when it still reproduces
                for k in core.load_known():
                    if k.get("property") == pid and k.get("witness") is not None:
                        try:
                            mod.replay(ctx, k["witness"])
                            ctx.count("pinned_witnesses_replayed")
                        except Exception:
                            ctx.note("pinned witness %s raised: %s" % (k.get("key"), traceback.format_exc()[-400:]))
            mod.run(ctx)
    except core.Stop:
        pass
    except BaseException:
        ctx.set_inconclusive("harness exception: " + traceback.format_exc()[-3000:])
    res = ctx.result()
    tmp = out + ".tmp"
    with open(tmp, "w") as f:
        json.dump(res, f)
    os.replace(tmp, out)
    sys.stdout.flush()
    sys.stderr.flush()
    os._exit(0)


if __name__ == "__main__":
    main(sys.argv[1:])
