"""Reference model of PMS package dependency specifications (shared by C03 and C04).

Written from the Package Manager Specification, not from pkgcore:

* names            PMS 3.1.1 category, 3.1.2 package, 3.1.3 slot, 3.1.4 USE flag, 3.1.5 repository
* versions         PMS 3.2 (syntax), 3.3 (comparison; delegated to vt/ref/pms_version.py for *valid* versions)
* dependency spec  PMS 8.3 (base formats), 8.3.1 operators, 8.3.2 block operator, 8.3.3 slot dependencies,
                   8.3.4 2-style and 4-style USE dependencies, tables 8.6 - 8.8 (EAPI feature gates)

`parse(s, eapi)` is the recogniser: -> Result(status, atom, rule) with status VALID / INVALID / UNSPEC.
`eapi` is "0".."9" or None (= no EAPI given: all features of the newest EAPI plus the ::repository extension).
`match_clauses(atom, pkg)` / `matches(atom, pkg)` is the matcher.

`relax` / `variant` arguments switch on ONE named *wrong* rule each; they are only used by the classifiers to
recognise a specific known defect mechanism ("the implementation answers like this particular wrong model").
"""

import re

from . import pms_version as pv

VALID, INVALID, UNSPEC = "valid", "invalid", "unspecified"
EAPIS = ("0", "1", "2", "3", "4", "5", "6", "7", "8", "9")
ALL_EAPIS = EAPIS + (None,)

A = re.ASCII
CATEGORY_RE = re.compile(r"[A-Za-z0-9_][A-Za-z0-9+_.-]*", A)
PKGCHARS_RE = re.compile(r"[A-Za-z0-9+_-]+", A)
SLOT_RE = re.compile(r"[A-Za-z0-9_][A-Za-z0-9+_.-]*", A)
SLOT_PLUS_RE = re.compile(r"[A-Za-z0-9_+][A-Za-z0-9+_.-]*", A)  # wrong model: leading '+' allowed
USE_RE = re.compile(r"[A-Za-z0-9][A-Za-z0-9+_@-]*", A)
REPO_RE = re.compile(r"[A-Za-z0-9_][A-Za-z0-9_-]*", A)

_SUF = r"(?:_(?:alpha|beta|pre|rc|p)[0-9]*)*"
VERSION_RE = re.compile(r"[0-9]+(?:\.[0-9]+)*[a-z]?" + _SUF, A)
REVISION_RE = re.compile(r"r[0-9]+", A)
# wrong models (classification only)
VERSION_UPPER_RE = re.compile(r"[0-9]+(?:\.[0-9]+)*[a-zA-Z]?" + _SUF, A)
VERSION_UNI_RE = re.compile(r"\d+(?:\.\d+)*[a-z]?(?:_(?:alpha|beta|pre|rc|p)\d*)*")  # \d = any unicode digit
REVISION_UNI_RE = re.compile(r"r\d+")

# '$' in a regex used with .match() also matches before a trailing newline (wrong model "newline_dollar")
VERSION_NL_RE = re.compile(r"[0-9]+(?:\.[0-9]+)*[a-z]?" + _SUF + r"\n?", A)
PKGCHUNK_NL_RE = re.compile(r"[A-Za-z0-9+_]+\n?", A)

RELAX_RULES = ("slot_leading_plus", "upper_version_letter", "unicode_digits", "newline_dollar")


def features(eapi):
    """PMS tables 8.6-8.8.  eapi None = unspecified (newest feature set + repository ids)."""
    n = 1000 if eapi is None else int(eapi)
    return {
        "slot": n >= 1,            # named slot dependencies
        "strong_block": n >= 2,    # !!
        "use": n >= 2,             # 2-style USE deps
        "use_defaults": n >= 4,    # 4-style (+)/(-)
        "subslot": n >= 5,         # :slot/subslot
        "slot_ops": n >= 5,        # :* := :slot=
        "repo": eapi is None,      # pkgcore extension, only without an EAPI
    }


class Result:
    __slots__ = ("status", "atom", "rule", "unspec")

    def __init__(self, status, atom=None, rule=None, unspec=()):
        self.status, self.atom, self.rule, self.unspec = status, atom, rule, tuple(unspec)

    def __repr__(self):
        return "Result(%s, rule=%r, unspec=%r, atom=%r)" % (self.status, self.rule, self.unspec, self.atom)


_vre_cache = {}


def _vre(relax):
    """(version regex, revision regex) of PMS 3.2, or of the named wrong models (compositional)."""
    key = frozenset(relax) & {"upper_version_letter", "unicode_digits", "newline_dollar"}
    got = _vre_cache.get(key)
    if got is None:
        uni = "unicode_digits" in key
        d = r"\d" if uni else "[0-9]"
        letter = "[a-zA-Z]?" if "upper_version_letter" in key else "[a-z]?"
        pat = d + r"+(?:\." + d + "+)*" + letter + "(?:_(?:alpha|beta|pre|rc|p)" + d + "*)*"
        if "newline_dollar" in key:
            pat += r"\n?"
        flags = 0 if uni else re.ASCII
        got = _vre_cache[key] = (re.compile(pat, flags), re.compile("r" + d + "+", flags))
    return got


def valid_version(v, relax=frozenset()):
    return _vre(relax)[0].fullmatch(v) is not None


def split_fullver(tail, relax=frozenset()):
    """'1.2-r3' -> ('1.2', '3'), '1.2' -> ('1.2', ''); None when `tail` is not PMS version syntax (3.2)."""
    vre, rre = _vre(relax)
    if vre.fullmatch(tail):
        return tail, ""
    i = tail.rfind("-")
    if i > 0 and rre.fullmatch(tail[i + 1:]) and vre.fullmatch(tail[:i]):
        return tail[:i], tail[i + 2:]
    return None


def _nl(relax, text):
    """under the newline_dollar wrong model one trailing newline of a regex-validated piece is invisible"""
    return text[:-1] if "newline_dollar" in relax and text.endswith("\n") else text


def valid_category(c, relax=frozenset()):
    return CATEGORY_RE.fullmatch(_nl(relax, c)) is not None


def valid_package_name(n, relax=frozenset()):
    """PMS 3.1.2: [A-Za-z0-9+_-]+, not starting with '-' or '+', and not ending in a hyphen followed by
    anything matching the version syntax (which includes an optional -rN)."""
    if "newline_dollar" in relax:
        if not n or n[0] in "-+" or not all(ch == "" or PKGCHUNK_NL_RE.fullmatch(ch) for ch in n.split("-")):
            return False
    elif not n or PKGCHARS_RE.fullmatch(n) is None or n[0] in "-+":
        return False
    for i, ch in enumerate(n):
        if ch == "-" and split_fullver(n[i + 1:], relax) is not None:
            return False
    return True


def valid_repo_chars(r):
    return REPO_RE.fullmatch(r) is not None


def split_pnv(pnv, relax=frozenset()):
    """'foo-bar-1.2-r3' -> ('foo-bar', '1.2', '3') or None.  Unique when it exists (see valid_package_name)."""
    found = None
    for i, ch in enumerate(pnv):
        if ch != "-":
            continue
        fv = split_fullver(pnv[i + 1:], relax)
        if fv is not None and valid_package_name(pnv[:i], relax):
            if found is None:
                found = (pnv[:i], fv[0], fv[1])
    return found


def parse_use(body, f, relax=frozenset()):
    """-> (list of deps, None) or (None, rule).  dep = (flag, negated, default, cond, cond_negated)."""
    deps = []
    if body == "":
        return None, "use-empty"
    for tok in body.split(","):
        t = tok
        cond = None
        cneg = False
        neg = False
        if t[-1:] in ("?", "="):
            cond = t[-1]
            t = t[:-1]
            if t[:1] == "!":
                cneg = True
                t = t[1:]
        elif t[:1] == "-":
            neg = True
            t = t[1:]
        default = None
        if t[-3:] in ("(+)", "(-)"):
            default = t[-2]
            t = t[:-3]
        if USE_RE.fullmatch(_nl(relax, t)) is None:
            return None, "use-flag-syntax"
        if default is not None and not f["use_defaults"]:
            return None, "use-default-eapi"
        deps.append((t, neg, default, cond, cneg))
    return deps, None


def parse(s, eapi, relax=frozenset()):
    """Recognise one package dependency specification under `eapi`."""
    f = features(eapi)
    unspec = []

    def bad(rule):
        return Result(INVALID, rule=rule)

    if not isinstance(s, str) or s == "":
        return bad("empty")
    a = {"text": s}
    rest = s
    # --- [use] suffix: at most one, last (8.3, 8.3.4)
    a["use"] = None
    if "[" in s or "]" in s:
        i = s.find("[")
        if i == -1 or not s.endswith("]"):
            return bad("use-brackets")
        body = s[i + 1:-1]
        if "[" in body or "]" in body:
            return bad("use-brackets")
        rest = s[:i]
        deps, rule = parse_use(body, f, relax)
        if deps is None:
            return bad(rule)
        if not f["use"]:
            return bad("use-deps-eapi")
        a["use"] = deps
    # --- ::repo (pkgcore extension)
    a["repo"] = None
    if "::" in rest:
        rest, repo = rest.split("::", 1)
        if repo == "" or not valid_repo_chars(repo) or repo[0] == "-":
            return bad("repo-syntax")
        if not f["repo"]:
            return bad("repo-with-eapi")
        if not valid_package_name(repo):
            # PMS 3.1.5 also wants a valid package name; whether the extension enforces it is not specified
            unspec.append("repo-not-a-package-name")
        a["repo"] = repo
    # --- :slot (8.3.3)
    a["slot"] = a["subslot"] = a["slot_op"] = None
    if ":" in rest:
        rest, sl = rest.split(":", 1)
        if sl == "":
            return bad("slot-empty")
        slot_re = SLOT_PLUS_RE if "slot_leading_plus" in relax else SLOT_RE
        if sl in ("*", "="):
            if not f["slot_ops"]:
                return bad("slot-operator-eapi")
            a["slot_op"] = sl
        else:
            if sl.endswith("="):
                if not f["slot_ops"]:
                    return bad("slot-operator-eapi")
                a["slot_op"] = "="
                sl = sl[:-1]
            if "/" in sl:
                sl, sub = sl.split("/", 1)
                if slot_re.fullmatch(sub) is None:
                    return bad("slot-leading-plus" if SLOT_PLUS_RE.fullmatch(sub) else "subslot-syntax")
                if not f["subslot"]:
                    return bad("subslot-eapi")
                a["subslot"] = sub
            if slot_re.fullmatch(sl) is None:
                return bad("slot-leading-plus" if SLOT_PLUS_RE.fullmatch(sl) else "slot-syntax")
            if not f["slot"]:
                return bad("slot-deps-eapi")
            a["slot"] = sl
    # --- blockers (8.3.2)
    nb = 0
    while rest[:1] == "!":
        nb += 1
        rest = rest[1:]
    if nb > 2:
        return bad("blocker-too-many")
    if nb == 2 and not f["strong_block"]:
        return bad("strong-blocker-eapi")
    a["blocks"] = nb
    # --- operator (8.3.1)
    op = ""
    for cand in ("<=", ">=", "<", ">", "=", "~"):
        if rest.startswith(cand):
            op = cand
            rest = rest[len(cand):]
            break
    if rest.endswith("*"):
        if op != "=":
            return bad("glob-without-equals")
        op = "=*"
        rest = rest[:-1]
    a["op"] = op
    # --- category/package[-version]
    if rest.count("/") != 1:
        return bad("cpv-slashes")
    cat, pnv = rest.split("/")
    if not valid_category(cat, relax):
        return bad("category-syntax")
    a["category"] = cat
    if op:
        sp = split_pnv(pnv, relax)
        if sp is None:
            if not relax:
                for rx in ("upper_version_letter", "unicode_digits"):
                    if split_pnv(pnv, frozenset([rx])) is not None:
                        return bad(rx.replace("_", "-"))
            return bad("operator-needs-name-version")
        a["package"], a["version"], a["revision"] = sp
        a["fullver_text"] = pnv[len(sp[0]) + 1:]
        if op == "~" and a["fullver_text"] != a["version"]:
            # PMS only says '~' ignores revisions; portage and pkgcore refuse a written revision
            unspec.append("tilde-with-revision")
    else:
        if not valid_package_name(pnv, relax):
            if pnv and PKGCHARS_RE.fullmatch(pnv) and pnv[0] not in "-+":
                return bad("version-like-name-tail")
            return bad("package-name-syntax")
        a["package"], a["version"], a["revision"], a["fullver_text"] = pnv, None, None, None
    if unspec:
        return Result(UNSPEC, a, unspec=unspec)
    return Result(VALID, a)


def verdict(s, eapi, relax=frozenset()):
    return parse(s, eapi, relax).status


# ---------------------------------------------------------------------------------------------------------
# matcher (PMS 8.3.1 - 8.3.4)

def _tokens(version, revision_text):
    """Version components in the sense of PMS 3.2/3.3: numbers, letter, suffix names, suffix integers, revision."""
    first, rest, letter, suffixes = pv.split_version(version)
    toks = [("num0", first)] + [("num", c) for c in rest]
    if letter:
        toks.append(("let", letter))
    for name, digits in suffixes:
        toks.append(("suf", name))
        if digits != "":
            toks.append(("sufnum", digits))
    if revision_text not in (None, ""):
        toks.append(("rev", revision_text))
    return toks


def _canon(toks):
    """Numeric reading of the components (what version comparison would call equal)."""
    out = []
    for kind, val in toks:
        if kind == "num0":
            out.append((kind, int(val)))
        elif kind == "num":
            out.append(("numz", val.rstrip("0")) if val[0] == "0" else ("numi", int(val)))
        elif kind in ("sufnum", "rev"):
            if int(val) != 0:
                out.append((kind, int(val)))
        else:
            out.append((kind, val))
    return out


def glob_match(aver, arev_text, pver, prev_text):
    """`=ver*`: the written components are a prefix of the package's components, on component boundaries.

    True / False when the textual and the numeric reading of "the same component" agree, None (unspecified)
    when they differ (=1.0* vs 1.00, =1-r0* vs 1, =1_p0* vs 1_p, =01* vs 1 ...)."""
    ta, tp = _tokens(aver, arev_text), _tokens(pver, prev_text)
    text = tp[:len(ta)] == ta
    ca, cp = _canon(ta), _canon(tp)
    num = cp[:len(ca)] == ca
    return text if text == num else None


def fullver_text(version, revision_text):
    return version if revision_text in (None, "") else "%s-r%s" % (version, revision_text)


VARIANTS = ("glob_string_prefix", "nand_static", "nand_default")


def use_clause(deps, iuse, use, variant=frozenset()):
    """True/False, or None when PMS leaves it open (conditional deps need the parent's USE; a flag outside IUSE
    without a (+)/(-) default is an error per 8.3.4)."""
    if not deps:
        return True
    verdicts = []
    for flag, neg, default, cond, _cneg in deps:
        if cond is not None:
            return None
        if flag in iuse:
            enabled = flag in use
        elif default is not None:
            enabled = default == "+"
        else:
            return None
        verdicts.append(enabled != neg)
    ok = all(verdicts)
    if not variant & {"nand_static", "nand_default"}:
        return ok
    # wrong models: a group of >= 2 negated flags is satisfied as soon as not ALL of them are enabled
    res = True
    groups = {}
    for flag, neg, default, _c, _n in deps:
        groups.setdefault((neg, default), []).append(flag)
    for (neg, default), flags in groups.items():
        if default is None:
            en = [fl in use for fl in flags]
            if neg:
                g = (not all(en)) if "nand_static" in variant else (not any(en))
            else:
                g = all(en)
        else:
            missing = [fl for fl in flags if fl not in iuse]
            present = [fl for fl in flags if fl in iuse]
            en = [fl in use for fl in present]
            if missing and ((default == "+") == neg):
                g = False
            elif neg:
                g = (not all(en) if en else True) if "nand_default" in variant else (not any(en))
            else:
                g = all(en)
        res = res and g
    return res


def match_clauses(a, pkg, variant=frozenset()):
    """Per-clause verdicts of 'atom a matches package pkg'.

    a: parsed atom (Result.atom); pkg: dict(category, package, version, revision (text or ''), slot, subslot,
    repo, iuse (set, stripped of +/-), use (set))."""
    c = {}
    c["name"] = a["category"] == pkg["category"] and a["package"] == pkg["package"]
    op = a["op"]
    if op == "":
        c["version"] = True
    elif op == "~":
        c["version"] = pv.ver_cmp(pkg["version"], "", a["version"], "") == 0
    elif op == "=*":
        if "glob_string_prefix" in variant:
            c["version"] = fullver_text(pkg["version"], pkg["revision"]).startswith(a["fullver_text"])
        else:
            c["version"] = glob_match(a["version"], a["revision"], pkg["version"], pkg["revision"])
    else:
        c["version"] = pv.OPS[op](pv.ver_cmp(pkg["version"], pkg["revision"], a["version"], a["revision"]))
    c["slot"] = a["slot"] is None or a["slot"] == pkg["slot"]
    c["subslot"] = a["subslot"] is None or a["subslot"] == pkg["subslot"]
    c["repo"] = a["repo"] is None or a["repo"] == pkg["repo"]
    deps = a["use"] or ()
    # the two kinds of USE dependency (8.3.4): 2-style (no default) and 4-style (with default)
    c["use-static"] = use_clause([d for d in deps if d[2] is None], pkg["iuse"], pkg["use"], variant)
    c["use-default"] = use_clause([d for d in deps if d[2] is not None], pkg["iuse"], pkg["use"], variant)
    return c


def combine(clauses):
    """AND of the clauses; None (unspecified) when an open clause could decide.  A USE-dependency *error*
    makes the whole application undefined."""
    if clauses["use-static"] is None or clauses["use-default"] is None:
        return None
    vals = list(clauses.values())
    if False in vals:
        return False
    if None in vals:
        return None
    return True


def matches(a, pkg, variant=frozenset()):
    return combine(match_clauses(a, pkg, variant))
