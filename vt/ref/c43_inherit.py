"""Reference model for config section inheritance (C43), written from the property statement.

Nothing from pkgcore is imported here.

Input
  sources: list (earliest first) of {section name: {key: value, ..., "inherit": [names]}}
  root:    name of the section to collapse

Statement: the collapsed value of a key is the value from the section itself if set, otherwise from the first inherited
section - breadth-first inheritance order, a name resolving to its definition in the *latest* source - that sets it.
A section inheriting its own name means "the next older definition of my own name".  Inheritance cycles and missing
targets are errors.

Result of resolve():
  ("error", reason)                  reason in cycle / missing-target / self-inherit-missing / missing-root
  ("unspecified", reason)            the graph is outside the statement's quantifier (diamond: a name reachable twice
                                     without being its own ancestor)
  ("ok", order)                      order = [(name, depth)] breadth-first, depth = index into the name's definition
                                     stack (0 = latest source)
"""

SPECIAL = ("inherit", "inherit-only", "class", "default")


def stacks(sources):
    st = {}
    for src in sources:
        for name, sec in src.items():
            st.setdefault(name, []).insert(0, sec)     # later sources override earlier ones
    return st


def resolve(sources, root, latest_first=True, strategy="bfs"):
    st = stacks(sources)
    if not latest_first:
        st = {k: list(reversed(v)) for k, v in st.items()}
    if root not in st:
        return ("error", "missing-root")
    if strategy == "dfs":
        return _resolve_dfs(st, root)
    order = [(root, 0)]
    parent = [None]
    seen = {root}
    i = 0
    while i < len(order):
        name, depth = order[i]
        sec = st[name][depth]
        for inh in sec.get("inherit", ()):
            if inh == name:
                if depth + 1 >= len(st[name]):
                    return ("error", "self-inherit-missing")
                order.append((name, depth + 1))
                parent.append(i)
                continue
            # is it an ancestor (=> cycle)?
            j = i
            anc = False
            while j is not None:
                if order[j][0] == inh:
                    anc = True
                    break
                j = parent[j]
            if anc:
                return ("error", "cycle")
            if inh not in st:
                return ("error", "missing-target")
            if inh in seen:
                return ("unspecified", "diamond")
            seen.add(inh)
            order.append((inh, 0))
            parent.append(i)
        i += 1
    return ("ok", order)


def _resolve_dfs(st, root):
    """Depth-first order; only used to measure whether a case separates BFS from DFS (never for verdicts)."""
    order = []

    def rec(name, depth, path):
        order.append((name, depth))
        for inh in st[name][depth].get("inherit", ()):
            if inh == name:
                if depth + 1 >= len(st[name]):
                    raise LookupError
                rec(name, depth + 1, path)
            else:
                if inh in path or inh not in st:
                    raise LookupError
                rec(inh, 0, path | {inh})

    try:
        rec(root, 0, {root})
    except (LookupError, RecursionError):
        return ("error", "x")
    return ("ok", order)


def collapse(sources, root, **kw):
    """-> ("error"|"unspecified", reason) or ("ok", {"config": {key: value}, "class": value|None, "default": value|None,
    "provider": {key: [name, depth]}})"""
    r = resolve(sources, root, **kw)
    if r[0] != "ok":
        return r
    st = stacks(sources)
    if kw.get("latest_first") is False:
        st = {k: list(reversed(v)) for k, v in st.items()}
    conf, prov = {}, {}
    for name, depth in r[1]:
        for k, v in st[name][depth].items():
            if k not in prov:
                prov[k] = [name, depth]
                conf[k] = v
    out = {"config": {k: v for k, v in conf.items() if k not in SPECIAL},
           "class": conf.get("class"), "default": conf.get("default"),
           "provider": prov, "order": [list(x) for x in r[1]]}
    return ("ok", out)
