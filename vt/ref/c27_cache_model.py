"""C27 reference model of an on-disk metadata cache entry (written from the property statement).

An entry *spec* is plain JSON:

    {"values": {KEY: str, ...},                 # metadata variables (known and unknown keys)
     "eclasses": {name: [path, chfval]} | None,  # inherited eclasses: eclass file path + mtime (flat) / md5 (md5-cache)
     "chf": int}                                 # validation datum of the ebuild: mtime (flat) / md5 (md5-cache)

What a reader must get back (statement: "the same known keys and values, inherited-eclass data and validation
checksum/mtime"):

    values      the stored values restricted to the cache's known keys
    eclasses    {name: (("eclassdir", dirname(path)), ("mtime", mtime))}   for the flat layout
                {name: (("md5", md5),)}                                    for the md5-cache layout
    chf         ("_mtime_" | "_md5_", the stored integer)

Nothing here imports pkgcore.
"""

import json

LAYOUTS = ("flat", "md5")
CHF_KEY = {"flat": "_mtime_", "md5": "_md5_"}

# PMS metadata variables kept by pkgcore's caches (ebuild.const.metadata_keys is compared against this at run time;
# a difference is reported as a note, the cache object's own configured key set is what "known keys" means).
DEFAULT_KEYS = (
    "BDEPEND", "DEPEND", "RDEPEND", "PDEPEND", "IDEPEND", "DEFINED_PHASES", "DESCRIPTION", "EAPI", "HOMEPAGE",
    "INHERIT", "INHERITED", "IUSE", "KEYWORDS", "LICENSE", "PROPERTIES", "REQUIRED_USE", "RESTRICT", "SLOT",
    "SRC_URI", "_eclasses_",
)

_LINE_BREAKS = set("\n\r\x0b\x0c\x1c\x1d\x1e\x85  ")


def is_single_line(v):
    return not (_LINE_BREAKS & set(v))


def is_plain_value(v):
    """Single-line value without leading/trailing white space (the domain the oracle judges)."""
    return isinstance(v, str) and is_single_line(v) and v == v.strip()


def posix_dirname(path):
    i = path.rfind("/")
    if i < 0:
        return ""
    head = path[: i + 1]
    if head and head != "/" * len(head):
        head = head.rstrip("/")
    return head


def expected_entry(layout, spec, known_keys):
    """-> {"values": {...}, "eclasses": {...}|None, "chf": [key, int]} in canonical JSON-able form."""
    known = set(known_keys) - {"_eclasses_", CHF_KEY[layout]}
    vals = {k: v for k, v in spec["values"].items() if k in known}
    ecl = None
    if spec.get("eclasses") is not None and "_eclasses_" in known_keys:
        ecl = {}
        for name, (path, chf) in spec["eclasses"].items():
            if layout == "flat":
                ecl[name] = [["eclassdir", posix_dirname(path)], ["mtime", int(chf)]]
            else:
                ecl[name] = [["md5", int(chf)]]
    return {"values": vals, "eclasses": ecl, "chf": [CHF_KEY[layout], int(spec["chf"])]}


def canon_read(layout, d):
    """Canonical form of what the cache returned (a mapping), or a description of why it is malformed."""
    d = dict(d.items())
    chf_key = CHF_KEY[layout]
    out = {"values": {}, "eclasses": None, "chf": [chf_key, None]}
    problems = []
    for k, v in d.items():
        if k == chf_key:
            out["chf"] = [chf_key, v if isinstance(v, int) and not isinstance(v, bool) else repr(v)]
        elif k == "_eclasses_":
            ecl = {}
            try:
                items = list(v.items()) if hasattr(v, "items") else list(v)
                for name, data in items:
                    if name in ecl:
                        problems.append("duplicate eclass %r" % (name,))
                    ecl[name] = [[c, x] for c, x in data]
            except Exception as e:  # not the documented (name, ((chf, value), ...)) shape
                problems.append("eclass data malformed: %r (%r)" % (v, e))
            out["eclasses"] = ecl
        else:
            out["values"][k] = v
    if problems:
        out["problems"] = problems
    return out


def entries_equal(expected, got):
    """Order-insensitive comparison of canonical forms (eclass order is not demanded by the statement)."""
    if "problems" in got:
        return False
    e_ecl = expected["eclasses"]
    g_ecl = got["eclasses"]
    # an entry stored without eclass data may come back without the key or with an empty collection
    if not e_ecl and not g_ecl:
        e_ecl = g_ecl = None
    # a key stored with an empty value may come back absent: dropping empty keys is a documented storage option
    # (base.cleanse_keys) and the real md5-cache format omits them
    ev = {k: v for k, v in expected["values"].items() if v != ""}
    gv = {k: v for k, v in got["values"].items() if v != ""}
    return ev == gv and e_ecl == g_ecl and expected["chf"] == got["chf"]


def describe_diff(expected, got):
    out = []
    ev, gv = expected["values"], got["values"]
    for k in sorted(set(ev) | set(gv)):
        if (ev.get(k) or "") != (gv.get(k) or ""):
            out.append("value %s: stored %r read %r" % (k, ev.get(k, "<absent>"), gv.get(k, "<absent>")))
    if (expected["eclasses"] or None) != (got["eclasses"] or None):
        out.append("eclasses: stored %s read %s" % (json.dumps(expected["eclasses"], sort_keys=True),
                                                    json.dumps(got["eclasses"], sort_keys=True)))
    if expected["chf"] != got["chf"]:
        out.append("chf: stored %r read %r" % (expected["chf"], got["chf"]))
    out.extend(got.get("problems", ()))
    return out


def keys_conflict(a, b):
    """Two cache keys that cannot coexist in a directory-per-category layout (one is a directory of the other)."""
    return a == b or a.startswith(b + "/") or b.startswith(a + "/")
