"""C36 reference: independent distfile verification and the per-run oracle.

Nothing here imports pkgcore or snakeoil.  A *state* is the content of the distfile (bytes) or None (absent).
The target is described by plain data: {"size": int|None, "sums": {"sha256": hex, ...}} computed by the generator
with hashlib from the intended content.
"""

import hashlib

HASHES = {
    "sha256": hashlib.sha256,
    "sha512": hashlib.sha512,
    "blake2b": hashlib.blake2b,
    "md5": hashlib.md5,
    "sha1": hashlib.sha1,
}


def expected(kind, good):
    """Target description for a target kind, from the intended content `good` (bytes)."""
    if kind == "full":
        return {"size": len(good), "sums": {h: HASHES[h](good).hexdigest() for h in ("sha256", "blake2b", "sha512")}}
    if kind == "size":
        return {"size": len(good), "sums": {}}
    if kind == "nosize":
        return {"size": None, "sums": {"sha256": hashlib.sha256(good).hexdigest()}}
    if kind == "none":
        return {"size": None, "sums": {}}
    raise ValueError(kind)


def classify_state(content, exp):
    """-> 'missing' | 'empty' | 'short' | 'toolong' | 'badsum' | 'ok'.

    'ok' = has the expected size and every required checksum (vacuous parts are true, but the file must exist).
    'empty' is reported only where no expected size exists (with a size, an empty file is just 'short')."""
    if content is None:
        return "missing"
    if exp["size"] is not None:
        if len(content) < exp["size"]:
            return "short"
        if len(content) > exp["size"]:
            return "toolong"
    elif not content and not exp["sums"]:
        return "empty"
    for h, want in exp["sums"].items():
        if HASHES[h](content).hexdigest() != want:
            return "badsum"
    return "ok"


def attempt_left_verified_file(inv, exp):
    """Did this executed invocation leave 'such a file'?  -> True | False | None (unspecified).

    Targets without any checksum: pkgcore documents (and its tests pin) that the exit status decides, so a
    non-zero exit or an empty file is outside what the statement fixes."""
    st = classify_state(inv["post"], exp)
    if exp["size"] is None and not exp["sums"]:
        if st == "missing":
            return False
        if inv["rc"] != 0 or st == "empty":
            return None
        return True
    return st == "ok"


def judge(scn, exp, good, invs, result, final, expected_path):
    """Judge one fetch() execution.

    scn: {"attempts", "uris", "pre", "resume_distinct", "seq"}; invs: executed invocations in order, each
    {"i", "kind", "uri", "pre", "post", "act", "rc"} with pre/post = bytes|None; result: {"path": str} or
    {"exc": name} or {"ret": repr}; final: bytes|None content at expected_path after the call.

    Returns (violations, facts): violations = [(kind, extra_dict)], facts = dict for counters/unspecified."""
    viol = []
    facts = {"unspecified": [], "states": []}
    L = min(scn["attempts"], scn["uris"])
    k = len(invs)
    returned = "path" in result
    # ---- safety: a returned path holds a verified file
    if returned:
        st = classify_state(final, exp)
        if result["path"] != expected_path:
            viol.append(("returned-unverified-file", {"rule": "wrong-path", "final_state": st}))
        elif st != "ok":
            viol.append(("returned-unverified-file", {"rule": st, "final_state": st}))
    # ---- liveness: some executed attempt left a verified file => a path is returned
    oks, unspec = [], []
    for inv in invs:
        v = attempt_left_verified_file(inv, exp)
        if v is True:
            oks.append(inv["i"])
        elif v is None:
            unspec.append(inv["i"])
    facts["ok_after"] = oks
    if oks and not returned:
        viol.append(("verified-file-not-returned", {"rule": "attempt-%s" % ("last-allowed" if oks[0] == scn["attempts"] else "earlier"),
                                                    "first_ok": oks[0], "ok_after": oks}))
    elif not oks and unspec and not returned:
        facts["unspecified"].append("target without checksums: non-zero exit / empty file, exit status decides (test-pinned)")
    pre_state = classify_state(scn["pre_content"], exp)
    if not k and pre_state == "ok" and not returned:
        facts["unspecified"].append("pre-existing verified file not returned (no attempt involved)")
    # ---- resumable partial files are kept for the resume command
    prev = scn["pre_content"]
    for inv in invs:
        if exp["size"] is not None and prev is not None and 0 < len(prev) < exp["size"] and good.startswith(prev):
            facts["resume_judged"] = facts.get("resume_judged", 0) + 1
            if inv["pre"] != prev:
                viol.append(("partial-not-kept", {"rule": "before-invocation", "invocation": inv["i"]}))
            elif scn["resume_distinct"] and inv["kind"] != "resume":
                viol.append(("partial-not-resumed", {"rule": "fetch-command-on-partial", "invocation": inv["i"]}))
        elif exp["size"] and prev is not None and len(prev) == 0:
            facts["unspecified"].append("empty file: whether it counts as a resumable partial is not stated")
        prev = inv["post"]
    if exp["size"] is not None and prev is not None and 0 < len(prev) < exp["size"] and good.startswith(prev) and not returned:
        facts["resume_judged"] = facts.get("resume_judged", 0) + 1
        if final != prev:
            viol.append(("partial-not-kept", {"rule": "at-exit", "invocation": k}))
    # ---- every allowed attempt is used (only where the statement fixes it)
    states = [pre_state] + [classify_state(i["post"], exp) for i in invs]
    facts["states"] = states
    if result.get("unexpected_exc"):
        facts["unspecified"].append("fetch() raised something that is not a fetch error")
    elif not returned and not oks and k < L and pre_state != "ok":
        if any(s in ("toolong", "badsum") for s in states):
            facts["unspecified"].append("checksum-failure state met: abort versus retry is not prescribed")
        elif unspec and exp["size"] is None and not exp["sums"] and states[-1] != "missing":
            facts["unspecified"].append("target without checksums: stop after an unjudgeable file")
        else:
            # every sequence sharing the consumed prefix behaves the same; one of them has 'correct' next
            viol.append(("gave-up-with-attempts-left", {"rule": "stopped-after-%d-of-%d" % (k, L), "invocations": k, "allowed": L}))
    if k > L:
        facts["unspecified"].append("more invocations than allowed attempts")
    return viol, facts
