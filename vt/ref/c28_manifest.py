"""C28 reference: what a Manifest2 file (GLEP 44 / GLEP 74 package Manifest) must say about a package directory.

Independent of pkgcore: digests come from hashlib, the text is parsed by a small strict parser written from the
GLEP 44 line format   TYPE SP filename SP size (SP HASHNAME SP hexdigest)+   .

A package-directory *spec* (plain JSON):

    {"files":    {relpath: content},      regular files that a thick Manifest covers (top level and files/ tree)
     "excluded": {relpath: content},      regular files below a CVS/.svn directory (version-control droppings)
     "symlinks": {relpath: target},       not judged (the statement speaks of files)
     "dist":     [{"filename": str, "chksums": {chf: int, "size": int}}],
     "chfs":     [chf, ...]               hash functions for the package files, always containing "size"
     "thin":     bool}

    content = ["lit", text] | ["rnd", seed, size]      (materialised deterministically)
"""

import hashlib
import random

TYPES = ("DIST", "AUX", "EBUILD", "MISC")

# pkgcore/snakeoil chf name -> hashlib constructor
HASHLIB = {
    "blake2b": lambda: hashlib.blake2b(),
    "blake2s": lambda: hashlib.blake2s(),
    "md5": lambda: hashlib.md5(),
    "rmd160": lambda: hashlib.new("ripemd160"),
    "sha1": lambda: hashlib.sha1(),
    "sha256": lambda: hashlib.sha256(),
    "sha3_256": lambda: hashlib.sha3_256(),
    "sha3_512": lambda: hashlib.sha3_512(),
    "sha512": lambda: hashlib.sha512(),
}
HEXLEN = {k: v().digest_size * 2 for k, v in HASHLIB.items()}


def content_bytes(c):
    if c[0] == "lit":
        return c[1].encode("utf-8")
    if c[0] == "rnd":
        return random.Random(c[1]).randbytes(c[2])
    raise ValueError(c)


def digests(data, chfs):
    out = {"size": len(data)}
    for chf in chfs:
        if chf == "size":
            continue
        h = HASHLIB[chf]()
        h.update(data)
        out[chf] = int(h.hexdigest(), 16)
    return out


def classify_path(rel):
    """GLEP 44: files/ tree -> AUX (name relative to files/), top-level *.ebuild -> EBUILD, other top-level -> MISC."""
    if rel.startswith("files/"):
        return "AUX", rel[len("files/"):]
    if "/" in rel:
        return None, rel
    if rel.endswith(".ebuild"):
        return "EBUILD", rel
    return "MISC", rel


def expected_maps(spec):
    """-> {TYPE: {name: {"size": n, chf: int}}} the Manifest must parse back to."""
    out = {t: {} for t in TYPES}
    for d in spec["dist"]:
        out["DIST"][d["filename"].rsplit("/", 1)[-1]] = {k: int(v) for k, v in d["chksums"].items()}
    if not spec["thin"]:
        for rel, c in spec["files"].items():
            t, name = classify_path(rel)
            if t is None:
                raise ValueError("spec has a file outside files/ below the top level: %r" % rel)
            out[t][name] = digests(content_bytes(c), spec["chfs"])
    return out


class RefParseError(Exception):
    pass


def parse_text(text):
    """Reference parser. -> ({TYPE: {name: {"size": n, chf: int}}}, hard[], soft[])

    hard: the text does not carry the right kind of datum (a digest whose length is not the hash's length);
    soft: spelling a lenient reader would accept and the statement does not forbid (case, blank lines, missing final
    newline) -- counted, never judged."""
    out = {t: {} for t in TYPES}
    hard, soft = [], []
    if text and not text.endswith("\n"):
        soft.append("last line is not newline-terminated")
    for ln, line in enumerate(text.split("\n"), 1):
        tok = line.split()
        if not tok:
            if line or ln != len(text.split("\n")):
                soft.append("line %d: blank line" % ln)
            continue
        if len(tok) < 3:
            raise RefParseError("line %d: not 'TYPE name size [HASH hex]...': %r" % (ln, line[:120]))
        t, name, size = tok[0], tok[1], tok[2]
        if t not in out:
            raise RefParseError("line %d: unknown type %r" % (ln, t))
        if name in out[t]:
            raise RefParseError("line %d: duplicate %s entry %r" % (ln, t, name))
        if not size.isascii() or not size.isdigit():
            raise RefParseError("line %d: size is not a decimal number: %r" % (ln, size))
        rest = tok[3:]
        if len(rest) % 2:
            raise RefParseError("line %d: odd number of hash tokens" % ln)
        ent = {"size": int(size)}
        for i in range(0, len(rest), 2):
            hname, hexd = rest[i], rest[i + 1]
            chf = hname.lower()
            if hname != hname.upper():
                soft.append("line %d: hash name %r is not upper case" % (ln, hname))
            if chf in ent:
                raise RefParseError("line %d: hash %s given twice" % (ln, hname))
            try:
                val = int(hexd, 16)
            except ValueError:
                raise RefParseError("line %d: %s digest is not hexadecimal: %r" % (ln, hname, hexd[:40]))
            if chf in HEXLEN and len(hexd) != HEXLEN[chf]:
                hard.append("line %d: %s digest has %d hex digits, a %s digest has %d" % (ln, hname, len(hexd), hname, HEXLEN[chf]))
            if hexd != hexd.lower():
                soft.append("line %d: %s digest is not lower-case hex" % (ln, hname))
            ent[chf] = val
        out[t][name] = ent
    return out, hard, soft


def maps_diff(expected, got):
    """Human-readable differences between two {TYPE: {name: {chf: int}}} structures."""
    out = []
    for t in TYPES:
        e, g = expected.get(t, {}), got.get(t, {})
        for name in sorted(set(e) | set(g)):
            if name not in g:
                out.append("%s %s: missing from the Manifest" % (t, name))
            elif name not in e:
                out.append("%s %s: listed but not expected" % (t, name))
            elif dict(e[name]) != dict(g[name]):
                bad = sorted(k for k in set(e[name]) | set(g[name]) if e[name].get(k) != g[name].get(k))
                out.append("%s %s: differs in %s" % (t, name, ",".join(bad)))
    return out
