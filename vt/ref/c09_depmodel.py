"""Reference model for dependency-style strings (PMS 8.2), written from the spec, independent of pkgcore.

AST (JSON-able lists):
    ["tok", text]                 leaf (atom / licence / restrict word / uri / REQUIRED_USE flag, "!flag")
    ["tok", uri, rename]          SRC_URI "uri -> rename"
    ["all", [children]]           ( ... )
    ["any", [children]]           || ( ... )
    ["xor", [children]]           ^^ ( ... )
    ["amo", [children]]           ?? ( ... )
    ["cond", flag, neg, [children]]   flag? ( ... ) / !flag? ( ... )
The top level is a list of nodes (implicit all-of).

Kinds (what operators exist, mirrors PMS table of which variables allow what):
    depend   : all any cond            tokens are package atoms
    license  : all any cond            tokens are words
    restrict : all cond                tokens are words     (RESTRICT / PROPERTIES)
    srcuri   : all cond + "->" renames tokens are uris
    requse   : all any xor amo cond    tokens are flag / !flag
"""

import itertools

GROUP_OPS = {
    "depend": {"||": "any"},
    "license": {"||": "any"},
    "restrict": {},
    "srcuri": {},
    "requse": {"||": "any", "^^": "xor", "??": "amo"},
}
OP_TEXT = {"any": "||", "xor": "^^", "amo": "??"}


# ---------------------------------------------------------------------------------------------
# rendering
def render_nodes(nodes, out=None):
    out = [] if out is None else out
    for n in nodes:
        k = n[0]
        if k == "tok":
            out.append(n[1])
            if len(n) > 2 and n[2] is not None:
                out.append("->")
                out.append(n[2])
        elif k == "all":
            out.append("(")
            render_nodes(n[1], out)
            out.append(")")
        elif k in OP_TEXT:
            out.append(OP_TEXT[k])
            out.append("(")
            render_nodes(n[1], out)
            out.append(")")
        elif k == "cond":
            out.append(("!" if n[2] else "") + n[1] + "?")
            out.append("(")
            render_nodes(n[3], out)
            out.append(")")
        else:
            raise ValueError(k)
    return out


def render(nodes):
    return " ".join(render_nodes(nodes))


# ---------------------------------------------------------------------------------------------
# token level classification of an arbitrary (possibly corrupted) string
VALID, MUST_REJECT, UNSPECIFIED = "valid", "must-reject", "unspecified"


class Reject(Exception):
    def __init__(self, verdict, why):
        Exception.__init__(self, why)
        self.verdict = verdict
        self.why = why


def _is_group_op(tok, kind):
    return tok in GROUP_OPS[kind]


def _is_cond(tok):
    return len(tok) >= 2 and tok[-1] == "?" and tok not in ("??",) and "(" not in tok and ")" not in tok


def classify_text(text, kind):
    """-> (verdict, reason).  Only what the property statement demands is MUST_REJECT:
    unbalanced standalone parentheses, or a group operator / use-conditional that is not followed by '('.
    Everything the statement is silent about (empty groups, '|' inside a word, glued parens, odd words,
    a '->' without proper operands that keeps the parentheses balanced) is UNSPECIFIED."""
    toks = text.split()
    depth = 0
    verdict, why = VALID, ""

    def worse(v, w):
        nonlocal verdict, why
        order = {VALID: 0, UNSPECIFIED: 1, MUST_REJECT: 2}
        if order[v] > order[verdict]:
            verdict, why = v, w

    i = 0
    n = len(toks)
    prev_open = False  # previous token opened a group (for empty-group detection)
    while i < n:
        t = toks[i]
        if t == "(":
            depth += 1
            prev_open = True
            i += 1
            continue
        if t == ")":
            if prev_open:
                worse(UNSPECIFIED, "empty group")
            depth -= 1
            if depth < 0:
                return MUST_REJECT, "close without open"
            prev_open = False
            i += 1
            continue
        prev_open = False
        if _is_group_op(t, kind) or (t[-1:] == "?" and t != "??") or (t == "??" and kind == "requse"):
            # operator / conditional: next token must be "("
            if i + 1 >= n or toks[i + 1] != "(":
                worse(MUST_REJECT, "dangling operator %s" % t)
            if not _is_group_op(t, kind):
                body = t[:-1]
                if body.startswith("!"):
                    body = body[1:]
                if not body or not _flag_ok(body):
                    worse(UNSPECIFIED, "odd conditional %r" % t)
            i += 1
            continue
        if t == "->" and kind == "srcuri":
            # a well-formed rename is consumed together with its left operand below; reaching here means
            # the arrow has no word on its left
            worse(UNSPECIFIED, "arrow without left operand")
            i += 1
            continue
        # plain word
        if not _word_ok(t, kind):
            worse(UNSPECIFIED, "odd word %r" % t)
        if kind == "srcuri" and i + 1 < n and toks[i + 1] == "->":
            if i + 2 >= n:
                worse(MUST_REJECT, "dangling operator ->")
                i += 2
                continue
            r = toks[i + 2]
            if r in ("(", ")"):
                # the parenthesis token stays a parenthesis for the balance count: handled by the loop
                worse(UNSPECIFIED, "arrow followed by parenthesis")
                i += 2
                continue
            if not _word_ok(r, kind) or r == "->" or r[-1:] == "?":
                worse(UNSPECIFIED, "odd rename target %r" % r)
            i += 3
            continue
        i += 1
    if depth != 0:
        return MUST_REJECT, "unclosed group"
    return verdict, why


_FLAGCH = set("abcdefghijklmnopqrstuvwxyzABCDEFGHIJKLMNOPQRSTUVWXYZ0123456789+_@-")


def _flag_ok(s):
    return bool(s) and s[0].isalnum() and set(s) <= _FLAGCH


def _word_ok(t, kind):
    if any(c in t for c in "()|") or t[-1] == "?" or t == "->":
        return False
    if kind == "requse":
        b = t[1:] if t.startswith("!") else t
        return _flag_ok(b)
    if kind == "depend":
        # the generator only emits atoms from its own pool; anything else is "odd" (left to the atom properties)
        return t in ATOM_POOL_SET
    return True


ATOM_POOL_SET = set()


def register_atoms(atoms):
    ATOM_POOL_SET.update(atoms)


# ---------------------------------------------------------------------------------------------
# reference parser for VALID text (used for rendered text and for replaying witnesses)
def parse(text, kind):
    toks = text.split()
    pos = 0
    ops = GROUP_OPS[kind]

    def group(closing):
        nonlocal pos
        out = []
        while pos < len(toks):
            t = toks[pos]
            if t == ")":
                if not closing:
                    raise Reject(MUST_REJECT, "close without open")
                pos += 1
                return out
            if t == "(":
                pos += 1
                out.append(["all", group(True)])
            elif t in ops:
                if pos + 1 >= len(toks) or toks[pos + 1] != "(":
                    raise Reject(MUST_REJECT, "dangling operator")
                pos += 2
                out.append([ops[t], group(True)])
            elif t[-1] == "?" and not (t == "??"):
                if pos + 1 >= len(toks) or toks[pos + 1] != "(":
                    raise Reject(MUST_REJECT, "dangling conditional")
                neg = t.startswith("!")
                flag = t[1:-1] if neg else t[:-1]
                pos += 2
                out.append(["cond", flag, neg, group(True)])
            else:
                if kind == "srcuri" and pos + 2 < len(toks) and toks[pos + 1] == "->":
                    out.append(["tok", t, toks[pos + 2]])
                    pos += 3
                else:
                    out.append(["tok", t])
                    pos += 1
        if closing:
            raise Reject(MUST_REJECT, "unclosed group")
        return out

    return group(False)


# ---------------------------------------------------------------------------------------------
# structure normalisation: what a faithful parser may do without changing the meaning
def collapse_single(nodes, collapse_amo=True):
    """Single-member all-of / any-of / exactly-one-of groups mean their member (PMS); pkgcore's parser also
    reduces a single-member ?? group to its member, which is recorded separately by the checks."""
    out = []
    for n in nodes:
        k = n[0]
        if k == "tok":
            out.append(list(n))
        elif k == "cond":
            out.append(["cond", n[1], n[2], collapse_single(n[3], collapse_amo)])
        else:
            ch = collapse_single(n[1], collapse_amo)
            if len(ch) == 1 and (k != "amo" or collapse_amo):
                out.append(ch[0])
            else:
                out.append([k, ch])
    return out


def has_single_amo(nodes):
    for n in nodes:
        k = n[0]
        if k == "tok":
            continue
        ch = n[3] if k == "cond" else n[1]
        if k == "amo" and len(ch) == 1:
            return True
        if has_single_amo(ch):
            return True
    return False


def has_kind(nodes, kinds):
    for n in nodes:
        k = n[0]
        if k == "tok":
            continue
        if k in kinds:
            return True
        if has_kind(n[3] if k == "cond" else n[1], kinds):
            return True
    return False


def flags_of(nodes, acc=None):
    acc = set() if acc is None else acc
    for n in nodes:
        k = n[0]
        if k == "cond":
            acc.add(n[1])
            flags_of(n[3], acc)
        elif k != "tok":
            flags_of(n[1], acc)
    return acc


def tokens_of(nodes, acc=None):
    acc = [] if acc is None else acc
    for n in nodes:
        k = n[0]
        if k == "tok":
            t = leaf_text(n)
            if t not in acc:
                acc.append(t)
        else:
            tokens_of(n[3] if k == "cond" else n[1], acc)
    return acc


def leaf_text(n):
    if len(n) > 2 and n[2] is not None:
        return n[1] + " -> " + n[2]
    return n[1]


def depth_of(nodes):
    d = 0
    for n in nodes:
        if n[0] != "tok":
            d = max(d, 1 + depth_of(n[3] if n[0] == "cond" else n[1]))
    return d


# ---------------------------------------------------------------------------------------------
# meaning of the ORIGINAL text under a flag set F and a token set T
#
# Reading B ("vanishing", what Portage's use_reduce does): a use-conditional whose condition is not met
# disappears; a group left without members disappears too; the top level left empty is satisfied.
# Reading A (PMS literal + the property statement): an unmet conditional is an unmatched child of an
# any-of/^^/?? group and a vacuously true member of an all-of group; a group that contains nothing but
# unmet conditionals (recursively) "is emptied" and counts as matched.
# The two differ only when an emptied group is nested inside an any-of/^^/?? group next to other members;
# the statement does not say which is meant, so the checks accept either (consistently for one string and
# flag set) and judge strictly wherever they agree.
def _leaf_true(n, T, requse):
    t = leaf_text(n)
    if requse:
        if t.startswith("!"):
            return t[1:] not in T
        return t in T
    return t in T


def reduce_B(nodes, F):
    out = []
    for n in nodes:
        k = n[0]
        if k == "tok":
            out.append(n)
        elif k == "cond":
            if (n[1] in F) != bool(n[2]):
                ch = reduce_B(n[3], F)
                if ch:
                    out.append(["all", ch])
        else:
            ch = reduce_B(n[1], F)
            if ch:
                out.append([k, ch])
    return out


def sat_plain(nodes, T, requse):
    """Satisfaction of a conditional-free node list (implicit all-of)."""
    return all(_sat_plain_node(n, T, requse) for n in nodes)


def _sat_plain_node(n, T, requse):
    k = n[0]
    if k == "tok":
        return _leaf_true(n, T, requse)
    vals = [_sat_plain_node(c, T, requse) for c in n[1]]
    if k == "all":
        return all(vals)
    if k == "any":
        return any(vals)
    if k == "xor":
        return sum(vals) == 1
    if k == "amo":
        return sum(vals) <= 1
    raise ValueError(k)


def sat_B(nodes, F, T, requse=False):
    return sat_plain(reduce_B(nodes, F), T, requse)


def _emptied(n, F):
    """node contains nothing but unmet conditionals (recursively)"""
    k = n[0]
    if k == "tok":
        return False
    if k == "cond":
        if (n[1] in F) == bool(n[2]):
            return True
        return all(_emptied(c, F) for c in n[3])
    return all(_emptied(c, F) for c in n[1])


def _sat_A_node(n, F, T, requse):
    """-> True / False / None (None = unmet conditional: vacuous in all-of, unmatched in any-of/^^/??)"""
    k = n[0]
    if k == "tok":
        return _leaf_true(n, T, requse)
    if k == "cond":
        if (n[1] in F) == bool(n[2]):
            return None
        return all(v is not False for v in (_sat_A_node(c, F, T, requse) for c in n[3]))
    if _emptied(n, F):
        return True
    vals = [_sat_A_node(c, F, T, requse) for c in n[1]]
    if k == "all":
        return all(v is not False for v in vals)
    cnt = sum(1 for v in vals if v is True)
    if k == "any":
        return cnt >= 1
    if k == "xor":
        return cnt == 1
    if k == "amo":
        return cnt <= 1
    raise ValueError(k)


def sat_A(nodes, F, T, requse=False):
    return all(v is not False for v in (_sat_A_node(n, F, T, requse) for n in nodes))


def subsets(items):
    items = list(items)
    for r in range(len(items) + 1):
        for c in itertools.combinations(items, r):
            yield frozenset(c)


# ---------------------------------------------------------------------------------------------
# transitive use dependencies (PMS 8.3.4): what one atom means under a flag set
def transitive_text(tok, F):
    """cat/pkg[flag?] / [!flag?] / [flag=] / [!flag=] -> the conditional-free spelling under F."""
    if "[" not in tok:
        return tok
    base, _, rest = tok.partition("[")
    dep = rest[:-1]
    out = []
    for d in dep.split(","):
        if d.endswith("?"):
            neg = d.startswith("!")
            f = d[1:-1] if neg else d[:-1]
            if not neg:
                if f in F:
                    out.append(f)
            else:
                if f not in F:
                    out.append("-" + f)
        elif d.endswith("="):
            neg = d.startswith("!")
            f = d[1:-1] if neg else d[:-1]
            on = (f in F) != neg
            out.append(f if on else "-" + f)
        else:
            out.append(d)
    return base + ("[" + ",".join(out) + "]" if out else "")


def transitive_flags(tok):
    if "[" not in tok:
        return set()
    dep = tok.partition("[")[2][:-1]
    s = set()
    for d in dep.split(","):
        if d[-1] in "?=":
            s.add(d.lstrip("!")[:-1])
    return s


def map_tokens(nodes, fn):
    out = []
    for n in nodes:
        k = n[0]
        if k == "tok":
            m = list(n)
            m[1] = fn(n[1])
            out.append(m)
        elif k == "cond":
            out.append(["cond", n[1], n[2], map_tokens(n[3], fn)])
        else:
            out.append([k, map_tokens(n[1], fn)])
    return out
