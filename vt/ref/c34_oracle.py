"""C34 oracle pieces, written from the property statement only (no pkgcore imports).

* pattern semantics: a name is selected by a pattern list iff at least one pattern matches the WHOLE name;
  blacklist mode removes the selected definitions, whitelist mode removes the others.
* textual clause ("no stray bytes"): the filter output must be the retained definitions, byte for byte as bash wrote
  them, in their original order, with nothing but blanks/newlines between them.
* semantic clause: decided by bash (state dumps of a subshell that sourced the text), parsed here.
"""

import re

# ------------------------------------------------------------------------------------------------ patterns

_META = set(".^$*+?{}[]\\|()")


def _esc(s):
    return "".join("\\" + c if c in _META else c for c in s)


def spec_regex(spec):
    kind, t = spec
    if kind == "exact":
        return _esc(t)
    if kind == "prefix":
        return _esc(t) + ".*"
    if kind == "suffix":
        return ".*" + _esc(t)
    if kind == "class":
        return "[" + t + "].*"
    if kind == "contains":
        return ".*" + _esc(t) + ".*"
    if kind == "alt":
        return "|".join(_esc(x) for x in t)
    raise ValueError(kind)


def spec_matches(spec, name):
    """Whole-name match, computed with plain string operations (no regex engine)."""
    kind, t = spec
    if kind == "exact":
        return t != "" and name == t
    if kind == "prefix":
        return name.startswith(t)
    if kind == "suffix":
        return name.endswith(t)
    if kind == "class":
        return name[:1] != "" and name[0] in t
    if kind == "contains":
        return t in name
    if kind == "alt":
        return name in t
    raise ValueError(kind)


def selected(specs, name):
    return any(spec_matches(s, name) for s in specs)


def effective(specs):
    """Empty tokens never reach the filter (documented: csv arguments drop empty items)."""
    return [s for s in specs if spec_regex(s) != ""]


def removed(specs, whitelist, name):
    """Does the statement demand removal of definition `name`?  None => statement silent (empty list)."""
    specs = effective(specs)
    if not specs:
        return False if not whitelist else None
    sel = selected(specs, name)
    return (not sel) if whitelist else sel


# ------------------------------------------------------------------------------------------------ dump parsing

def split_sections(text, marker):
    """-> list of (header words after the marker, body text) in order."""
    out = []
    cur = None
    pre = marker + " "
    lines = text.split("\n")
    if lines and lines[-1] == "":
        lines.pop()
    for line in lines:
        if line.startswith(pre):
            cur = (line[len(pre):].split(" "), [])
            out.append(cur)
        elif cur is not None:
            cur[1].append(line)
    return [(h, "".join(ln + "\n" for ln in b)) for h, b in out]


_DECL = re.compile(r"^declare (-[A-Za-z-]+) ([A-Za-z_][A-Za-z0-9_]*)(?:=(.*))?$", re.S)


def parse_state(sections, tag):
    """-> {"vars": {name: (flags, valuetext|None)}, "fnames": [..] | None, "ftext": str | None} or None when the
    state block of `tag` is missing or has an unexpected shape."""
    got = {}
    for h, b in sections:
        if len(h) == 2 and h[1] == tag and h[0] in ("STATE-V", "STATE-FL", "STATE-F", "STATE-END"):
            got[h[0]] = b
    if "STATE-V" not in got or "STATE-END" not in got:
        return None
    vars_ = {}
    lines = got["STATE-V"].split("\n")
    if lines and lines[-1] == "":
        lines.pop()
    for ln in lines:
        m = _DECL.match(ln)
        if not m:
            return None
        vars_[m.group(2)] = (m.group(1), m.group(3))
    fnames = None
    if "STATE-FL" in got:
        fnames = []
        for ln in got["STATE-FL"].split("\n"):
            if not ln:
                continue
            if not ln.startswith("declare -f"):
                return None
            fnames.append(ln.split(" ", 2)[2])
    return {"vars": vars_, "fnames": fnames, "ftext": got.get("STATE-F")}


def source_output(sections, tag):
    """What the `source` command itself printed (stdout+stderr); None when SRC-END never came (sourcing aborted)."""
    got = None
    ended = False
    for h, b in sections:
        if h[0] == "SRC" and h[1:] == [tag]:
            got = b
        if h[0] == "SRC-END" and h[1:] == [tag]:
            ended = True
    if got is None or not ended:
        return None
    return got.rstrip("\n")


def value_only(ent):
    """Variable state reduced to (array kind, value text): attributes other than a/A are not carried by plain
    assignments, bash itself drops them in `set` listings."""
    flags, val = ent
    kind = "A" if "A" in flags else ("a" if "a" in flags else "")
    return (kind, val)


# ------------------------------------------------------------------------------------------------ textual clause

_BLANK = " \t\n"


def textual_check(output, retained_chunks):
    """-> None when `output` is exactly the retained chunks (in order) separated/surrounded only by blanks, else a
    dict describing the first deviation."""
    pos = 0
    n = len(output)
    for idx, ch in enumerate(retained_chunks):
        body = ch.rstrip("\n")
        while pos < n and output[pos] in _BLANK:
            pos += 1
        if not output.startswith(body, pos):
            # where is it, if anywhere?
            at = output.find(body, pos)
            if at == -1:
                return {"why": "retained-definition-missing-or-altered", "chunk_index": idx, "at": pos}
            return {"why": "stray-bytes-before-retained-definition", "chunk_index": idx, "at": pos,
                    "stray": output[pos:at][:200]}
        pos += len(body)
    while pos < n and output[pos] in _BLANK:
        pos += 1
    if pos != n:
        return {"why": "stray-bytes-after-last-retained-definition", "chunk_index": len(retained_chunks), "at": pos,
                "stray": output[pos:][:200]}
    return None
