"""Reference reader/writer for the XPAK segment format (C26), written from the format description only:

    XPAKPACK IIII DDDD [index] [data] XPAKSTOP OOOO STOP          (all integers big-endian, 32 bit)

    IIII  length of the index block          DDDD  length of the data block
    index entry:  LLLL key(LLLL bytes)  data-offset(4, relative to the data block)  data-length(4)
    OOOO  = number of bytes from 'XPAKPACK' up to and including 'XPAKSTOP' = 8+4+4+IIII+DDDD+8
    the segment is the tail of the file: its trailer 'XPAKSTOP OOOO STOP' are the last 16 bytes.

Nothing from pkgcore is imported here.
"""

import struct

HEAD = b"XPAKPACK"
TPRE = b"XPAKSTOP"
TPOST = b"STOP"


class Malformed(Exception):
    pass


def build_segment(pairs):
    """pairs: [(key bytes, value bytes)] -> segment bytes (sequential data layout)."""
    index = b""
    data = b""
    for k, v in pairs:
        index += struct.pack(">L", len(k)) + k + struct.pack(">LL", len(data), len(v))
        data += v
    body = HEAD + struct.pack(">LL", len(index), len(data)) + index + data + TPRE
    return body + struct.pack(">L", len(body)) + TPOST


def parse_segment(buf, start):
    """Strict parse of the segment that starts at `start` and must extend exactly to the end of buf."""
    seg = buf[start:]
    if len(seg) < 32:
        raise Malformed("segment shorter than header+trailer (%d bytes)" % len(seg))
    if seg[:8] != HEAD:
        raise Malformed("header magic missing at offset %d" % start)
    index_len, data_len = struct.unpack(">LL", seg[8:16])
    total = 16 + index_len + data_len + 16
    if total != len(seg):
        raise Malformed("header says the segment is %d bytes but %d bytes follow its start" % (total, len(seg)))
    trailer = seg[16 + index_len + data_len:]
    if trailer[:8] != TPRE or trailer[12:] != TPOST:
        raise Malformed("trailer magic missing")
    (off,) = struct.unpack(">L", trailer[8:12])
    if off != 24 + index_len + data_len:
        raise Malformed("trailer offset %d, expected %d" % (off, 24 + index_len + data_len))
    index = seg[16:16 + index_len]
    data = seg[16 + index_len:16 + index_len + data_len]
    pairs = []
    pos = 0
    while pos < len(index):
        if pos + 4 > len(index):
            raise Malformed("truncated key length in index")
        (klen,) = struct.unpack(">L", index[pos:pos + 4])
        pos += 4
        if pos + klen + 8 > len(index):
            raise Malformed("truncated index entry")
        key = index[pos:pos + klen]
        pos += klen
        doff, dlen = struct.unpack(">LL", index[pos:pos + 8])
        pos += 8
        if doff + dlen > len(data):
            raise Malformed("value of key %r reaches beyond the data block" % (key,))
        pairs.append((key, data[doff:doff + dlen]))
    return pairs


def find_segment(buf):
    """Where does the segment at the tail of buf start?

    -> ("none", len(buf))       no segment: a writer has to append at the end of the file
       ("segment", start)       a well-formed segment occupies buf[start:]
       ("ambiguous", reason)    trailer and header magic are in place but the rest is inconsistent
    """
    n = len(buf)
    if n < 16:
        return ("none", n)
    if buf[n - 16:n - 8] != TPRE or buf[n - 4:] != TPOST:
        return ("none", n)
    (off,) = struct.unpack(">L", buf[n - 8:n - 4])
    start = n - (off + 8)
    if start < 0:
        return ("none", n)
    if buf[start:start + 8] != HEAD:
        return ("none", n)
    try:
        pairs = parse_segment(buf, start)
        for k, _ in pairs:
            k.decode("ascii")
    except (Malformed, UnicodeDecodeError, struct.error) as e:
        return ("ambiguous", str(e))
    return ("segment", start)


ENV_KEYS = ("environment", "environment.bz2")


def expected_read(items):
    """What reading back must return for the written items [(key str, value str|bytes)]:
    text values decoded (str), environment values as bytes."""
    out = []
    for k, v in items:
        if k in ENV_KEYS:
            out.append((k, v if isinstance(v, bytes) else v.encode("utf-8")))
        else:
            out.append((k, v if isinstance(v, str) else v.decode("utf-8")))
    return out


def expected_raw(items):
    return [(k.encode("ascii"), v if isinstance(v, bytes) else v.encode("utf-8")) for k, v in items]
