"""C29 oracle: observation of a package repository through a *fresh* view, and the old-or-new judgement.

The observation is what the statement names: a fresh repository object lists packages and their metadata is read.
In addition every file of a listed installed-package directory is hashed (the entry on disk *is* the package),
so a listed entry with a missing or short file cannot pass as complete.  The judgement itself only compares
observations recorded from uninjected runs (old = before the operation, new = after the completed operation);
it contains no knowledge of how pkgcore writes.
"""

import hashlib
import os
from os.path import join as pjoin

VOLATILE = ("COUNTER",)  # content is the wall clock at install time


def _sha(b):
    return hashlib.sha256(b).hexdigest()[:16]


def _raw_dir(d):
    out = {}
    try:
        names = sorted(os.listdir(d))
    except OSError as e:
        return {"<listdir>": repr(e)}
    for n in names:
        p = pjoin(d, n)
        try:
            if os.path.isdir(p) and not os.path.islink(p):
                out[n] = "<dir>"
                continue
            with open(p, "rb") as f:
                data = f.read()
        except OSError as e:
            out[n] = "<unreadable %s>" % type(e).__name__
            continue
        if n in VOLATILE:
            out[n] = "<digits>" if data.strip().isdigit() else "<bad:%s>" % _sha(data)
        else:
            out[n] = _sha(data)
    return out


def _read_pkg(p):
    """Metadata read through the package object of the fresh view; any exception is part of the observation."""
    o = {}

    def rd(name, fn):
        try:
            o[name] = fn()
        except Exception as e:  # noqa: BLE001 - an unreadable attribute is an observation, not a harness failure
            o[name] = "<exc %s>" % type(e).__name__

    rd("slot", lambda: str(p.slot))
    rd("subslot", lambda: str(p.subslot))
    rd("eapi", lambda: str(p.eapi))
    rd("description", lambda: str(p.description))
    rd("use", lambda: sorted(p.use))
    rd("depend", lambda: str(p.depend))
    rd("rdepend", lambda: str(p.rdepend))
    rd("contents", lambda: sorted("%s %s" % (type(x).__name__, x.location) for x in p.contents))
    rd("environment", lambda: _sha(p.environment.bytes_fileobj().read()))
    rd("ebuild", lambda: _sha(p.ebuild.bytes_fileobj().read()))
    return o


def observe_vdb(location):
    """-> {"listing_error": str|None, "pkgs": {cpvstr: {"meta": {...}, "files": {...}}}, "hidden": [names]}"""
    import logging

    from pkgcore.vdb import ondisk

    logging.getLogger("pkgcore").setLevel(logging.CRITICAL)
    out = {"listing_error": None, "pkgs": {}, "hidden": []}
    try:
        repo = ondisk.tree(location, disable_cache=True)
        pkgs = sorted(repo, key=lambda p: p.cpvstr)
    except Exception as e:  # noqa: BLE001
        out["listing_error"] = "%s: %s" % (type(e).__name__, str(e)[:200])
        return out
    for p in pkgs:
        d = pjoin(location, p.category, "%s-%s" % (p.package, p.fullver))
        out["pkgs"][p.cpvstr] = {"meta": _read_pkg(p), "files": _raw_dir(d)}
    # entries the listing is documented to skip (temp names); recorded for the witness only
    try:
        for cat in sorted(os.listdir(location)):
            cd = pjoin(location, cat)
            if os.path.isdir(cd):
                for n in sorted(os.listdir(cd)):
                    if n.startswith((".tmp.", "-MERGING-")) or n.endswith(".lockfile"):
                        out["hidden"].append("%s/%s" % (cat, n))
    except OSError:
        pass
    return out


XPAK_KEYS = ("DESCRIPTION", "SLOT", "USE", "IUSE", "DEPEND", "RDEPEND", "EAPI", "KEYWORDS", "LICENSE", "CFLAGS", "HOMEPAGE")


def _raw_xpak(path):
    """What the .tbz2 on disk itself says (xpak segment read directly from the file, no repository, no cache)."""
    out = {}
    try:
        from pkgcore.binpkg.xpak import Xpak

        x = Xpak(path)
        for k in XPAK_KEYS:
            try:
                v = x.get(k)
            except Exception as e:  # noqa: BLE001
                v = "<exc %s>" % type(e).__name__
            if isinstance(v, bytes):
                v = v.decode("utf-8", "replace")
            out["xpak:" + k] = None if v is None else str(v).strip()
    except Exception as e:  # noqa: BLE001
        out["xpak"] = "<unreadable %s>" % type(e).__name__
    return out


def observe_binpkg(location):
    import logging

    from pkgcore.binpkg import repository

    logging.getLogger("pkgcore").setLevel(logging.CRITICAL)
    out = {"listing_error": None, "pkgs": {}, "hidden": []}
    try:
        repo = repository.tree(location)
        pkgs = sorted(repo, key=lambda p: p.cpvstr)
    except Exception as e:  # noqa: BLE001
        out["listing_error"] = "%s: %s" % (type(e).__name__, str(e)[:200])
        return out
    for p in pkgs:
        path = pjoin(location, p.category, "%s-%s.tbz2" % (p.package, p.fullver))
        meta = _read_pkg(p)
        # more keys the Packages cache may serve instead of the file (a listed package must be ONE build)
        for attr in ("keywords", "iuse", "license", "defined_phases", "homepage", "cflags", "chost"):
            try:
                v = getattr(p, attr)
                meta[attr] = " ".join(sorted(map(str, v))) if isinstance(v, (tuple, list, set, frozenset)) else str(v)
            except Exception as e:  # noqa: BLE001
                meta[attr] = "<exc %s>" % type(e).__name__
        out["pkgs"][p.cpvstr] = {"meta": meta, "files": _raw_xpak(path)}
    try:
        for cat in sorted(os.listdir(location)):
            cd = pjoin(location, cat)
            if os.path.isdir(cd):
                for n in sorted(os.listdir(cd)):
                    if n.startswith(".tmp.") or n.endswith(".lockfile"):
                        out["hidden"].append("%s/%s" % (cat, n))
    except OSError:
        pass
    return out


def judge(obs, old, new, old_cpv, new_cpv):
    """Compare one post-fault observation with the old and the new reference observation.

    Returns a list of (rule, detail) failures; empty list = old-or-new holds.
      rule 'listing-failed'   the fresh view cannot list the repository at all
      rule 'partial-package'  a listed version of the subject package equals neither its old nor its new complete state
      rule 'neither'          no complete old and no complete new version of the subject package is listed
      rule 'bystander'        some other package differs from its pre-operation state / appeared / vanished
    Also returns the state label: 'old' | 'new' | 'both' | None.
    """
    fails = []
    if obs["listing_error"]:
        return [("listing-failed", obs["listing_error"])], None
    subj = {c: v for c, v in obs["pkgs"].items() if c in (old_cpv, new_cpv)}
    others = {c: v for c, v in obs["pkgs"].items() if c not in subj}
    ref_others = {c: v for c, v in old["pkgs"].items() if c not in (old_cpv, new_cpv)}
    if others != ref_others:
        bad = sorted(set(others) ^ set(ref_others)) or sorted(c for c in others if others[c] != ref_others.get(c))
        fails.append(("bystander", bad))
    have_old = have_new = False
    for c, v in subj.items():
        is_old = c == old_cpv and old["pkgs"].get(c) == v
        is_new = c == new_cpv and new["pkgs"].get(c) == v
        if not (is_old or is_new):
            fails.append(("partial-package", c))
        have_old |= is_old
        have_new |= is_new
    old_listed = old_cpv is not None
    new_listed = new_cpv is not None
    label = None
    if not fails:
        if old_listed and new_listed:
            if have_old and have_new:
                label = "both" if old_cpv != new_cpv else "new"
            elif have_old:
                label = "old"
            elif have_new:
                label = "new"
            else:
                fails.append(("neither", sorted(subj)))
        elif new_listed:  # install: old state = absent
            label = "new" if have_new else "old"
        else:  # uninstall: new state = absent
            label = "old" if have_old else "new"
    return fails, label
