"""Reference Bugzilla search interpreter for C37.

Two independent readings of a search that must agree:

* ``parse_params`` / ``eval_params``: what Bugzilla does with the *rendered* ``GET /rest/bug`` parameters
  (Bugzilla "custom search" a.k.a. boolean charts: ``f<N>``/``o<N>``/``v<N>`` conditions, ``n<N>=1`` negates,
  ``f<N>=OP`` opens a group joined by ``j<N>`` (default AND), ``f<N>=CP`` closes it, slots are read in numeric
  order, top level conditions are ANDed; plain ``field=value`` parameters are ORed within a field and ANDed
  across fields; ``resolution=---`` selects bugs without a resolution).
* ``Meaning``: what the query *should* mean, computed from the recipe that built it (constructor docstrings of
  pkgcore.bugzilla.query.BugQuery + the property statement), never from rendered output.

Nothing here imports pkgcore.
"""

import re

_SLOT = re.compile(r"^([fovnj])([0-9]+)$")
PAGING = ("limit", "offset", "order")


class Node:
    __slots__ = ("kind", "slot", "field", "op", "values", "negate", "join", "children", "close_slot")

    def __init__(self, kind, slot):
        self.kind = kind  # "cond" | "group"
        self.slot = slot
        self.field = self.op = None
        self.values = []
        self.negate = False
        self.join = "AND"
        self.children = []
        self.close_slot = None


class Parsed:
    def __init__(self):
        self.simple = {}  # key -> [values] in order
        self.paging = {}
        self.top = []  # top-level nodes in slot order
        self.errors = []  # structural defects (strings)
        self.nslots = 0
        self.nconds = 0
        self.ngroups = 0
        self.maxdepth = 0


def parse_params(params):
    """Interpret an ordered list of (key, value) pairs.  Structural rules of the statement are collected in
    ``errors``: every condition/marker has a slot of its own, slots are 1..N, OP/CP balanced and nested."""
    p = Parsed()
    slots = {}
    for key, value in params:
        m = _SLOT.match(key)
        if not m:
            if key in PAGING:
                if key in p.paging:
                    p.errors.append("paging-twice: paging parameter %s given twice" % key)
                p.paging[key] = value
            else:
                p.simple.setdefault(key, []).append(value)
            continue
        kind, n = m.group(1), int(m.group(2))
        if m.group(2) != str(n):
            p.errors.append("slot-spelling: slot number with leading zero %s" % key)
        slots.setdefault(n, {"f": [], "o": [], "v": [], "n": [], "j": []})[kind].append(value)
    if not slots:
        return p
    nums = sorted(slots)
    p.nslots = len(nums)
    if nums != list(range(1, len(nums) + 1)):
        p.errors.append("slots-not-contiguous: slots are not 1..N, got %s" % nums[:12])
    stack = []
    for n in nums:
        s = slots[n]
        if len(s["f"]) != 1:
            p.errors.append("slot-shared-or-missing-f: slot %d has %d f-parameters" % (n, len(s["f"])))
            if not s["f"]:
                continue
        f = s["f"][0]
        if f == "OP":
            if s["o"] or s["v"]:
                p.errors.append("marker-with-operands: slot %d OP marker carries o/v parameters" % n)
            if len(s["j"]) > 1:
                p.errors.append("several-joins: slot %d" % n)
            g = Node("group", n)
            g.join = s["j"][0] if s["j"] else "AND"
            if g.join not in ("AND", "OR", "AND_G"):
                p.errors.append("unknown-join: slot %d join %r" % (n, g.join))
            g.negate = s["n"] == ["1"]
            (stack[-1].children if stack else p.top).append(g)
            stack.append(g)
            p.ngroups += 1
            p.maxdepth = max(p.maxdepth, len(stack))
        elif f == "CP":
            if s["o"] or s["v"] or s["j"] or s["n"]:
                p.errors.append("marker-with-operands: slot %d CP marker carries other parameters" % n)
            if not stack:
                p.errors.append("unbalanced-close: slot %d CP without an open group" % n)
            else:
                stack.pop().close_slot = n
        else:
            if len(s["o"]) != 1:
                p.errors.append("operator-count: slot %d condition has %d operators" % (n, len(s["o"])))
            if s["j"]:
                p.errors.append("join-on-condition: slot %d" % n)
            if s["n"] not in ([], ["1"]):
                p.errors.append("odd-negation: slot %d %r" % (n, s["n"]))
            c = Node("cond", n)
            c.field, c.op, c.values = f, (s["o"][0] if s["o"] else None), list(s["v"])
            c.negate = s["n"] == ["1"]
            (stack[-1].children if stack else p.top).append(c)
            p.nconds += 1
    if stack:
        p.errors.append("unbalanced-open: %d group(s) never closed (OP without CP) starting at slot %s" % (
            len(stack), [g.slot for g in stack]))
    return p


# ---- leaf semantics (shared vocabulary of operators; structure is what the property is about) -------------

def field_items(bug, field):
    v = bug.get(field)
    if v is None:
        return []
    if isinstance(v, (list, tuple)):
        return [str(x) for x in v]
    return [str(v)]


def op_holds(op, values, items):
    if op == "equals":
        return any(i == values[0] for i in items) if values else False
    if op == "notequals":
        return not (any(i == values[0] for i in items) if values else False)
    if op == "substring" or op == "casesubstring":
        return any(values[0] in i for i in items) if values else False
    if op == "notsubstring":
        return not (any(values[0] in i for i in items) if values else False)
    if op == "anyexact":
        return any(i in values for i in items)
    if op == "anywords":
        return any(v in items for v in values)
    if op == "allwords":
        return all(v in items for v in values)
    if op == "nowords":
        return not any(v in items for v in values)
    if op == "anywordssubstr":
        return any(v in i for v in values for i in items)
    if op == "allwordssubstr":
        return all(any(v in i for i in items) for v in values)
    if op == "nowordssubstr":
        return not any(v in i for v in values for i in items)
    raise KeyError(op)


KNOWN_OPS = ("equals", "notequals", "substring", "notsubstring", "anyexact", "anywords", "allwords", "nowords",
             "anywordssubstr", "allwordssubstr", "nowordssubstr")

# rendered chart field name -> attribute of the model bug
CHART_FIELD = {
    "keywords": "keywords", "flagtypes.name": "flags", "tag": "tags", "cf_stabilisation_atoms": "atoms",
    "product": "product", "component": "component", "bug_status": "bug_status", "cc": "cc",
    "assigned_to": "assigned_to", "status_whiteboard": "whiteboard", "bug_id": "id",
}
SIMPLE_FIELD = {
    "id": "id", "product": "product", "component": "component", "resolution": "resolution",
    "bug_status": "bug_status", "cc": "cc", "assigned_to": "assigned_to",
}


def eval_node(node, bug):
    if node.kind == "cond":
        r = op_holds(node.op, node.values, field_items(bug, CHART_FIELD[node.field]))
    else:
        rs = [eval_node(c, bug) for c in node.children]
        r = any(rs) if node.join == "OR" else all(rs)
    return (not r) if node.negate else r


def simple_holds(key, values, bug):
    items = field_items(bug, SIMPLE_FIELD[key])
    for v in values:
        if key == "resolution" and v == "---":
            if items in ([], [""]):
                return True
        elif v in items:
            return True
    return False


def eval_params(parsed, bug):
    for key, values in parsed.simple.items():
        if not simple_holds(key, values, bug):
            return False
    return all(eval_node(n, bug) for n in parsed.top)


# ---- meaning of a recipe ---------------------------------------------------------------------------------

class Meaning:
    """simple: key -> ordered list of accepted values (ORed); formulas: list of ANDed chart formulas, one per
    top-level chart of the query in order; split: per formula, the value list if that chart may be spread over
    batches else None."""

    def __init__(self):
        self.simple = {}
        self.formulas = []
        self.split = []
        self.limit = self.offset = self.order = None
        self.shared_keys = 0
        self.anyof_multi = 0  # any_of() operands that were conjunctions of several charts


GENTOO_LINUX = "Gentoo Linux"


def meaning_of(recipe, any_of_keeps_conjunction=True):
    """Recipe -> Meaning, following the BugQuery constructor docstrings.

    ``&`` is the conjunction of both operands' constraints, except that constraints of two operands on the same
    plain field are merged into one ORed list (documented in pkgcore.bugzilla.query and pinned by its tests).
    ``any_of(q1, ..)`` holds when at least one ``qi`` holds; with ``any_of_keeps_conjunction=False`` the wrong
    model "every chart of every operand is ORed" is computed instead (used only to classify a known finding)."""
    m = Meaning()
    kind = recipe[0]
    if kind in ("ids", "product", "component", "resolution", "status", "cc", "assigned_to"):
        key = {"ids": "id", "status": "bug_status"}.get(kind, kind)
        m.simple[key] = _dedup([str(x) for x in recipe[1]])
    elif kind == "category":
        m.simple["product"] = [GENTOO_LINUX]
        m.simple["component"] = _dedup(list(recipe[1]))
    elif kind == "unresolved":
        m.simple["resolution"] = ["---"]
    elif kind == "keywords":
        m.formulas.append(("has_any", "keywords", list(recipe[1])))
        m.split.append(None)
    elif kind == "flag":
        m.formulas.append(("has_any", "flags", [recipe[1] + s for s in recipe[2]]))
        m.split.append(None)
    elif kind == "without_tags":
        m.formulas.append(("has_none", "tags", list(recipe[1])))
        m.split.append(None)
    elif kind == "package_list_any":
        m.formulas.append(("has_any", "atoms", [str(x) for x in recipe[1]]))
        m.split.append([str(x) for x in recipe[1]])
    elif kind == "chart":
        m.formulas.append(_chart_formula(recipe[1]))
        c = recipe[1]
        m.split.append(list(c[3]) if c[0] == "crit" and c[5] else None)
    elif kind == "order":
        m.order = recipe[1]
    elif kind == "empty":
        pass
    elif kind == "paged":
        m = meaning_of(recipe[1], any_of_keeps_conjunction)
        m.limit, m.offset = recipe[2], recipe[3]
    elif kind == "and":
        for sub in recipe[1]:
            s = meaning_of(sub, any_of_keeps_conjunction)
            for key, values in s.simple.items():
                if key in m.simple:
                    m.shared_keys += 1
                    m.simple[key] = _dedup(m.simple[key] + values)
                else:
                    m.simple[key] = list(values)
            m.formulas.extend(s.formulas)
            m.split.extend(s.split)
            m.shared_keys += s.shared_keys
            m.anyof_multi += s.anyof_multi
            if s.limit is not None:
                m.limit = s.limit
            if s.offset is not None:
                m.offset = s.offset
            if s.order:
                m.order = s.order
    elif kind == "any_of":
        alts = []
        for sub in recipe[1]:
            s = meaning_of(sub, any_of_keeps_conjunction)
            if s.simple:
                raise ValueError("any_of over plain parameters is refused by the API")
            m.shared_keys += s.shared_keys
            m.anyof_multi += s.anyof_multi + (1 if len(s.formulas) > 1 else 0)
            if any_of_keeps_conjunction:
                alts.append(("and", list(s.formulas)) if len(s.formulas) != 1 else s.formulas[0])
            else:
                alts.extend(s.formulas)
        m.formulas.append(("or", alts))
        m.split.append(None)
    else:
        raise ValueError("unknown recipe %r" % (kind,))
    return m


def _chart_formula(c):
    if c[0] == "crit":
        _, field, op, values, negate, _split = c
        return ("op", field, op, list(values), bool(negate))
    _, join, children = c
    return ("or" if join == "OR" else "and", [_chart_formula(x) for x in children])


def _dedup(seq):
    out = []
    for x in seq:
        if x not in out:
            out.append(x)
    return out


def eval_formula(f, bug):
    k = f[0]
    if k == "has_any":
        return any(v in bug[f[1]] for v in f[2])
    if k == "has_none":
        return not any(v in bug[f[1]] for v in f[2])
    if k == "op":
        r = op_holds(f[2], f[3], field_items(bug, CHART_FIELD[f[1]]))
        return (not r) if f[4] else r
    if k == "and":
        return all(eval_formula(x, bug) for x in f[1])
    if k == "or":
        return any(eval_formula(x, bug) for x in f[1])
    raise ValueError(k)


def eval_meaning(m, bug):
    for key, values in m.simple.items():
        attr = SIMPLE_FIELD[key]
        have = bug[attr]
        have = [str(x) for x in have] if isinstance(have, (list, tuple)) else [str(have)]
        ok = False
        for v in values:
            if key == "resolution" and v == "---":
                ok = ok or have == [""]
            else:
                ok = ok or v in have
        if not ok:
            return False
    return all(eval_formula(f, bug) for f in m.formulas)


def compile_conjunction(recipe):
    """bug -> bool under the plain reading of the statement: & is the conjunction of its operands even when they
    constrain the same plain field, any_of is the disjunction of its operands."""
    kind = recipe[0]
    if kind == "and":
        subs = [compile_conjunction(x) for x in recipe[1]]
        return lambda bug: all(f(bug) for f in subs)
    if kind == "any_of":
        subs = [compile_conjunction(x) for x in recipe[1]]
        return lambda bug: any(f(bug) for f in subs)
    if kind == "paged":
        return compile_conjunction(recipe[1])
    if kind in ("order", "empty"):
        return lambda bug: True
    m = meaning_of(recipe)
    return lambda bug: eval_meaning(m, bug)


def count_leaves(f):
    if f[0] in ("and", "or"):
        return sum(count_leaves(x) for x in f[1])
    return 1


def depth(f):
    if f[0] in ("and", "or"):
        return 1 + max([depth(x) for x in f[1]] or [0])
    return 0
