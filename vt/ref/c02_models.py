"""Models used by C02 *only to classify* witnesses (the oracle of C02 is the set of coherence laws, not these models).

Each function describes, on the generator's field dicts, one specific way the implementation is known to decide
equality / ordering / hashing.  A witness gets a known-finding key only when what was observed is exactly what the
named wrong model predicts; anything else stays an unclassified violation.

Does not import pkgcore.
"""

from ..gen import c02_pairs as g
from . import pms_version as pms


def _use_key(f):
    return None if f.get("use") is None else tuple(sorted(f["use"]))


def atom_eq_attrs(f):
    """What atom.__eq__ compares today (text of cat/pkg-fullver, no blocker strength)."""
    return {
        "cpvstr": g.cpv_str(f),
        "op": f["op"],
        "blocks": bool(f["blocker"]),
        "negate_vers": bool(f.get("negate_vers")),
        "use": _use_key(f),
        "slot": f.get("slot"),
        "subslot": f.get("subslot"),
        "slotop": f.get("slotop"),
        "repo": f.get("repo"),
    }


def same_version(a, b):
    if a.get("ver") is None or b.get("ver") is None:
        return a.get("ver") is None and b.get("ver") is None
    return pms.ver_cmp(a["ver"], a.get("rev") or "", b["ver"], b.get("rev") or "") == 0


def atom_cmp_is_zero(a, b):
    """What atom.__cmp__ looks at today (numeric version, blocker strength; no sub-slot, no slot operator)."""
    return (
        a["cat"] == b["cat"] and a["pkg"] == b["pkg"] and a["op"] == b["op"] and same_version(a, b)
        and bool(a["blocker"]) == bool(b["blocker"]) and (a["blocker"] == "!!") == (b["blocker"] == "!!")
        and bool(a.get("negate_vers")) == bool(b.get("negate_vers")) and a.get("slot") == b.get("slot")
        and _use_key(a) == _use_key(b) and a.get("repo") == b.get("repo")
    )


def cpv_norm_text(f):
    """Text CPV hashes today: revision normalised (-r0 dropped, leading zeros dropped), version text as written."""
    s = "%s/%s" % (f["cat"], f["pkg"])
    if f.get("ver") is not None:
        s += "-" + f["ver"]
        r = int(f.get("rev") or "0")
        if r:
            s += "-r%d" % r
    return s


def classify(w):
    kind = w.get("kind")
    a, b = w.get("a"), w.get("b")
    obs = w.get("obs") or {}
    if not isinstance(a, dict) or not isinstance(b, dict):
        return None
    if w.get("type") == "cpv":
        if kind == "equal-hash-differs" and a["cat"] == b["cat"] and a["pkg"] == b["pkg"] \
                and a.get("ver") is not None and b.get("ver") is not None and same_version(a, b) \
                and cpv_norm_text(a) != cpv_norm_text(b):
            return "C02:cpv-hash-of-spelling"
        return None
    if w.get("type") != "atom":
        return None
    ea, eb = atom_eq_attrs(a), atom_eq_attrs(b)
    diff = {k for k in ea if ea[k] != eb[k]}
    if kind == "equal-hash-differs":
        # hash(original string): equal atoms written differently (USE order, ! vs !!)
        if not diff and g.atom_str(a) != g.atom_str(b):
            return "C02:atom-hash-of-spelling"
        return None
    if kind == "equal-but-ordered":
        # == ignores blocker strength, the ordering does not
        if not diff and {a["blocker"], b["blocker"]} == {"!", "!!"} and obs.get("lt_xy") != obs.get("lt_yx"):
            return "C02:atom-eq-ignores-blocker-strength"
        return None
    if kind == "unequal-not-strictly-ordered":
        if not diff or not atom_cmp_is_zero(a, b) or obs.get("lt_xy") or obs.get("lt_yx"):
            return None
        if not diff <= {"cpvstr", "subslot", "slotop"}:
            return None
        if "cpvstr" in diff:
            return "C02:atom-eq-version-spelling"
        if "subslot" in diff:
            return "C02:atom-order-ignores-subslot"
        return "C02:atom-order-ignores-slot_operator"
    return None
