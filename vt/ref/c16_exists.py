"""Independent resolvability oracle for small resolver universes (C16).

Question answered: does ANY final set exist that

  * is the installed set with some source packages merged over it (a merged package replaces the installed
    package of the same name and slot; nothing is ever just removed - pkgcore's resolver cannot do that either),
  * contains a member matching the target whose version equals the required version H (and matches every
    other target),
  * holds at most one member per (name, slot),
  * satisfies every dependency clause (all five classes) of every merged member AND of every kept installed
    member that the plan leans on (transitively: any kept installed package matching an atom of an active
    member is active too - the resolver verifies the dependencies of installed packages it uses),
  * is hit by no top-level blocker of an active member (strict: not even the member itself),
  * is build-orderable: iteratively, a merged member becomes available once each of its DEPEND/BDEPEND
    clauses has an alternative whose atoms are all matched by kept installed members or already available
    merged members (RDEPEND/IDEPEND/PDEPEND only need membership).

Every condition is on the strict side (a provider that the plan later replaces never counts, not even at
build time), so a "yes" is a plan nobody can object to.  Complete search over the subsets of the source
repository (<= 12 packages => <= 4096 subsets), organised as a depth-first repair search with memoisation.
Never imports pkgcore.
"""

from . import c15_plan as ref
from . import pms_version as pv

BUILD = ("DEPEND", "BDEPEND")
ALL = tuple(ref.DEP_CLASSES)
INSTALLED_CLASSES = ("RDEPEND", "IDEPEND", "PDEPEND")    # an installed package is a built one: no build-time classes


def _alts(c):
    """clause -> list of alternatives, each a list of atoms"""
    if "any" in c:
        return [(a["all"] if "all" in a else [a]) for a in c["any"]]
    return [[c]]


class Search:
    def __init__(self, problem, target, hver, max_nodes=20000, order_classes=BUILD):
        self.order_classes = order_classes
        self.p = problem
        self.src = problem["source"]
        self.inst = problem["installed"]
        self.target = target
        self.hver = hver
        self.max_nodes = max_nodes
        self.nodes = 0
        self.seen = set()
        self.exhausted = False     # True when the node budget ran out (answer unknown)

    # -- the final set of a choice M (frozenset of source indexes) -----------------------------------
    def members(self, M):
        taken = {(self.src[i]["name"], self.src[i]["slot"]) for i in M}
        ms = [dict(name=s["name"], ver=s["ver"], slot=s["slot"], origin="vdb", spec=s)
              for s in self.inst if (s["name"], s["slot"]) not in taken]
        ms += [dict(name=self.src[i]["name"], ver=self.src[i]["ver"], slot=self.src[i]["slot"], origin="src",
                    spec=self.src[i], idx=i) for i in sorted(M)]
        return ms

    def active(self, ms):
        """merged members + target providers + every kept installed member an active member's atoms match"""
        act = [m for m in ms if m["origin"] == "src"]
        ids = {id(m) for m in act}
        for t in self.p["targets"]:
            for m in ms:
                if id(m) not in ids and ref.atom_matches(t, m):
                    act.append(m)
                    ids.add(id(m))
        i = 0
        while i < len(act):
            a = act[i]
            i += 1
            for cls, atom in _spec_atoms(a["spec"]):
                if atom.get("blk") or (a["origin"] == "vdb" and cls not in INSTALLED_CLASSES):
                    continue
                for m in ms:
                    if id(m) not in ids and ref.atom_matches(atom, m):
                        act.append(m)
                        ids.add(id(m))
        return act

    # -- candidates that could repair something ---------------------------------------------------------
    def addable(self, M, atoms):
        taken = {(self.src[i]["name"], self.src[i]["slot"]) for i in M}
        out = []
        for j, s in enumerate(self.src):
            if j in M or (s["name"], s["slot"]) in taken:
                continue
            if any(not a.get("blk") and ref.atom_matches(a, s) for a in atoms):
                out.append(j)
        return out

    def replacers(self, M, member):
        taken = {(self.src[i]["name"], self.src[i]["slot"]) for i in M}
        if (member["name"], member["slot"]) in taken:
            return []
        return [j for j, s in enumerate(self.src)
                if j not in M and s["name"] == member["name"] and s["slot"] == member["slot"]]

    # -- one node ------------------------------------------------------------------------------------
    def defect(self, M):
        """None if F(M) is a valid final set, else a list of source indexes worth adding (may be empty)."""
        ms = self.members(M)
        # targets
        for t in self.p["targets"]:
            if not any(ref.atom_matches(t, m) for m in ms):
                return self.addable(M, [t])
        if not any(ref.atom_matches(self.target, m) and pv.cmp_fullver(m["ver"], self.hver) == 0 for m in ms):
            # the required version is missing (only possible when an installed H was replaced): dead end
            return [j for j in self.addable(M, [self.target]) if pv.cmp_fullver(self.src[j]["ver"], self.hver) == 0]
        act = self.active(ms)
        for a in act:
            for cls in (ref.DEP_CLASSES if a["origin"] == "src" else INSTALLED_CLASSES):
                for c in a["spec"]["deps"].get(cls, ()):
                    if "any" not in c and c.get("blk"):
                        # strict: a package whose blocker matches the package itself is unusable here (PMS lets a
                        # package ignore its own blocker, pkgcore's slot table does not - nothing is claimed then)
                        hit = [m for m in ms if ref.atom_matches(c, m)]
                        if hit:
                            fix = []
                            for m in hit:
                                if m["origin"] == "vdb" and m is not a:
                                    # replace the blocked installed package by something the blocker spares
                                    fix += [j for j in self.replacers(M, m) if not ref.atom_matches(c, self.src[j])]
                            if a["origin"] == "vdb":
                                fix += self.replacers(M, a)
                            return fix
                        continue
                    if not _clause_ok(c, ms, a):
                        atoms = [x for alt in _alts(c) for x in alt]
                        fix = self.addable(M, atoms)
                        if a["origin"] == "vdb":
                            fix += self.replacers(M, a)
                        # a blocker inside an alternative cannot be repaired by adding; ignored (not generated)
                        return fix
        # build order
        avail = [m for m in ms if m["origin"] == "vdb"]
        todo = [m for m in ms if m["origin"] == "src"]
        if self.order_classes is ALL:
            # the strict notion: an installed package the plan leans on only counts as a provider once its own
            # (runtime) dependencies are in place - an installed database may be inconsistent
            actids = {id(a) for a in act}
            todo += [m for m in avail if id(m) in actids]
            avail = [m for m in avail if id(m) not in actids]
        progress = True
        while todo and progress:
            progress = False
            for m in list(todo):
                ok = True
                for cls in self.order_classes:
                    if m["origin"] == "vdb" and cls not in INSTALLED_CLASSES:
                        continue
                    for c in m["spec"]["deps"].get(cls, ()):
                        if "any" not in c and c.get("blk"):
                            continue
                        if not _clause_ok(c, avail, m):
                            ok = False
                            break
                    if not ok:
                        break
                if ok:
                    avail.append(m)
                    todo.remove(m)
                    progress = True
        if todo:
            atoms = []
            for m in todo:
                for cls in self.order_classes:
                    if m["origin"] == "vdb" and cls not in INSTALLED_CLASSES:
                        continue
                    for c in m["spec"]["deps"].get(cls, ()):
                        if not ("any" not in c and c.get("blk")) and not _clause_ok(c, avail, m):
                            atoms += [x for alt in _alts(c) for x in alt]
            return self.addable(M, atoms)
        return None

    def dfs(self, M):
        if M in self.seen:
            return None
        self.seen.add(M)
        self.nodes += 1
        if self.nodes > self.max_nodes:
            self.exhausted = True
            return None
        fix = self.defect(M)
        if fix is None:
            return M
        for j in dict.fromkeys(fix):
            r = self.dfs(M | {j})
            if r is not None:
                return r
            if self.exhausted:
                return None
        return None

    def solve(self):
        starts = [frozenset()]
        for j, s in enumerate(self.src):
            if ref.atom_matches(self.target, s) and pv.cmp_fullver(s["ver"], self.hver) == 0:
                starts.append(frozenset([j]))
        for st in starts:
            r = self.dfs(st)
            if r is not None:
                return r
            if self.exhausted:
                return None
        return None


def _spec_atoms(spec):
    for cls in ref.DEP_CLASSES:
        for c in spec["deps"].get(cls, ()):
            for alt in _alts(c):
                for a in alt:
                    yield cls, a


def _clause_ok(c, members, owner):
    own = owner["spec"] if owner["origin"] == "src" else None
    return ref.clause_satisfied(c, members, own)


def plan_exists(problem, target, hver, max_nodes=20000, acyclic=False):
    """-> (answer, plan) with answer True / False / None (search budget exhausted);
    plan = the merged source packages of one valid final set [(name, ver, slot), ...].
    acyclic=True asks for more: a merge order in which EVERY dependency clause of every class (not only the
    build-time ones) is already satisfied when its owner is merged, i.e. a plan that leans on no dependency
    cycle at all."""
    s = Search(problem, target, hver, max_nodes, ALL if acyclic else BUILD)
    r = s.solve()
    if r is not None:
        return True, [ref.ident(problem["source"][i]) for i in sorted(r)]
    if s.exhausted:
        return None, None
    return False, None
