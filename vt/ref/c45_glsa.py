"""Reference evaluator of the GLSA `<affected>` format (property C45).

Written from the property statement and the GLSA DTD description; version comparison comes from the PMS reference
(vt/ref/pms_version.py).  Does not import pkgcore.

Data model (plain JSON):

    node    = {"name": "cat/pkg", "arch": None | "*" | "x86 amd64",
               "vulnerable": [range, ...], "unaffected": [range, ...]}
    range   = {"op": "lt|le|eq|ge|gt|rlt|rle|rge|rgt", "ver": "1.2-r1" | "1.2*", "slot": "" | "2"}
    package = {"name": "cat/pkg", "ver": "1.2", "rev": "" | "1", "slot": "0", "keywords": ["x86", "~amd64"]}

Answers are three valued: True / False / None, None meaning "the statement does not decide" (Kleene logic).

`rules` (a frozenset) switches on *wrong* rules; it exists only so that the classifier of the check can recognise one
specific recorded mechanism ("implementation == reference with exactly this rule altered"):

    glob-string-prefix      eq V* is `fullver.startswith(V)` on the spelling
    unaffected-glob-kept    an unaffected eq V* range is used un-negated, i.e. as an additional *requirement*
                            (and is dropped altogether when the same glob is also listed as vulnerable)
    glob-slot-ignored       the slot attribute of an eq V* range is ignored
    r0-slot-ignored         the slot attribute of an rle / rge range on a version written without revision is ignored
"""

import functools

from . import pms_version as pv

PLAIN_OPS = {"lt": "<", "le": "<=", "eq": "=", "ge": ">=", "gt": ">"}
R_OPS = {"rlt": "<", "rle": "<=", "rge": ">=", "rgt": ">"}
ALL_OPS = tuple(PLAIN_OPS) + tuple(R_OPS)

RULES = ("glob-string-prefix", "unaffected-glob-kept", "glob-slot-ignored", "r0-slot-ignored")


# --------------------------------------------------------------------------------------------------------------
# Kleene connectives

def k_not(a):
    return None if a is None else (not a)


def k_and(*xs):
    if any(x is False for x in xs):
        return False
    if any(x is None for x in xs):
        return None
    return True


def k_or(*xs):
    if any(x is True for x in xs):
        return True
    if any(x is None for x in xs):
        return None
    return False


# --------------------------------------------------------------------------------------------------------------
# versions

def is_glob(rng):
    return rng["ver"].endswith("*")


def range_base(rng):
    """(version, revision-text) written in the range (without the trailing *)."""
    text = rng["ver"][:-1] if is_glob(rng) else rng["ver"]
    return pv.split_fullver(text)


def well_formed(rng):
    if rng["op"] not in ALL_OPS:
        return False
    v, r = range_base(rng)
    return pv.valid_version(v) and pv.valid_revision(r)


def _tokens(version, rev):
    """Version components (PMS 3.2): numbers, letter, suffix names, suffix integers, revision."""
    first, rest, letter, suffixes = pv.split_version(version)
    toks = [("num0", first)] + [("num", c) for c in rest]
    if letter:
        toks.append(("let", letter))
    for name, digits in suffixes:
        toks.append(("suf", name))
        if digits != "":
            toks.append(("sufnum", digits))
    if rev not in (None, ""):
        toks.append(("rev", rev))
    return toks


def _canon(toks):
    """Numeric reading of the components (what version comparison calls equal)."""
    out = []
    for kind, val in toks:
        if kind == "num0":
            out.append((kind, int(val)))
        elif kind == "num":
            out.append(("numz", val.rstrip("0")) if val[0] == "0" else ("numi", int(val)))
        elif kind in ("sufnum", "rev"):
            if int(val) != 0:
                out.append((kind, int(val)))
        else:
            out.append((kind, val))
    return out


def component_prefix(gver, grev, pver, prev):
    """`eq V*`: the written components of V are a prefix of the package's components.

    True / False when the textual and the numeric reading of "the same component" agree; None (not decided by the
    statement) when they differ (1.0* against 1.00, 1-r0* against 1, 1_p0* against 1_p, 01* against 1 ...)."""
    ta, tp = _tokens(gver, grev), _tokens(pver, prev)
    text = tp[:len(ta)] == ta
    ca, cp = _canon(ta), _canon(tp)
    num = cp[:len(ca)] == ca
    return text if text == num else None


def fullver(v, r):
    return v if r in (None, "") else "%s-r%s" % (v, r)


# --------------------------------------------------------------------------------------------------------------
# ranges

def denotes_nothing(rng):
    """`rlt` on a version written without a revision: no revision is lower than -r0."""
    return rng["op"] == "rlt" and range_base(rng)[1] == ""


def outside_format(rng):
    """Ranges the GLSA format does not define (a glob on anything but eq)."""
    return is_glob(rng) and rng["op"] != "eq"


def range_contains(rng, pkg, rules=frozenset()):
    """Does (version, slot) of `pkg` lie in the range?  True / False / None."""
    return _range_contains(rng["op"], rng["ver"], rng.get("slot") or "", pkg["ver"], pkg["rev"] or "", pkg["slot"],
                           rules if isinstance(rules, frozenset) else frozenset(rules))


@functools.lru_cache(maxsize=400000)
def _cmp(pver, prev, bver, brev):
    return pv.ver_cmp(pver, prev, bver, brev)


@functools.lru_cache(maxsize=400000)
def _range_contains(op, ver, slot, pver, prev, pslot, rules):
    glob = ver.endswith("*")
    bver, brev = pv.split_fullver(ver[:-1] if glob else ver)
    slot_ok = True if not slot else (pslot == slot)
    if glob:
        if op != "eq":
            raise ValueError("glob on %s is outside the format" % op)
        if "glob-string-prefix" in rules:
            ver_ok = fullver(pver, prev).startswith(fullver(bver, brev))
        else:
            ver_ok = component_prefix(bver, brev, pver, prev)
        if "glob-slot-ignored" in rules:
            slot_ok = True
        return k_and(ver_ok, slot_ok)
    if op in PLAIN_OPS:
        c = _cmp(pver, prev, bver, brev)
        return k_and(pv.OPS[PLAIN_OPS[op]](c), slot_ok)
    # r-forms: same version, revisions compared
    same = _cmp(pver, "", bver, "") == 0
    p_rev, r_rev = int(prev or "0"), int(brev or "0")
    c = (p_rev > r_rev) - (p_rev < r_rev)
    rev_ok = pv.OPS[R_OPS[op]](c)
    if "r0-slot-ignored" in rules and brev == "" and op in ("rle", "rge"):
        slot_ok = True
    return k_and(same, rev_ok, slot_ok)


def arch_ok(node, pkg):
    """An entry that names arches only concerns packages carrying one of them."""
    arch = node.get("arch")
    if arch is None:
        return True
    names = arch.split()
    if not names or "*" in names:
        return True
    kw = set(pkg["keywords"])
    if any(a in kw for a in names):
        return True
    if any("~" + a in kw for a in names):
        return None  # does a testing keyword "carry" the arch?  not stated
    return False


def node_unspecified(node):
    """Reason the statement does not decide this entry as a whole, or None."""
    for rng in node["vulnerable"] + node["unaffected"]:
        if outside_format(rng):
            return "glob on a non-eq range (outside the GLSA format)"
        if denotes_nothing(rng):
            return "rlt on a version without revision (empty range; fate of the sibling ranges not stated)"
    if not node["vulnerable"]:
        return "entry without a vulnerable range"
    return None


def node_affected(node, pkg, rules=frozenset()):
    """Is `pkg` affected according to this <package> entry?  True / False / None."""
    if pkg["name"] != node["name"]:
        return False
    vuln = k_or(*[range_contains(r, pkg, rules) for r in node["vulnerable"]])
    if "unaffected-glob-kept" in rules:
        vul_globs = {(fullver(*range_base(r))) for r in node["vulnerable"] if is_glob(r)}
        extra = []
        unaff = []
        for r in node["unaffected"]:
            if is_glob(r):
                if fullver(*range_base(r)) in vul_globs:
                    continue  # identical restriction object: filtered out as "already vulnerable"
                extra.append(range_contains(r, pkg, rules))
            else:
                unaff.append(range_contains(r, pkg, rules))
        return k_and(vuln, arch_ok(node, pkg), k_not(k_or(*unaff)), *extra)
    unaff = k_or(*[range_contains(r, pkg, rules) for r in node["unaffected"]])
    return k_and(vuln, arch_ok(node, pkg), k_not(unaff))


def explain(observed, fn):
    """Smallest set of wrong rules (in RULES order) under which fn(rules) == observed; None if no combination of the
    recorded wrong rules explains the observation.  A combination under which the altered model no longer decides the
    case (None: the answer then hinges on something the statement leaves open) is accepted only if no combination
    gives the observed answer outright."""
    import itertools

    undecided = None
    for n in range(1, len(RULES) + 1):
        for combo in itertools.combinations(RULES, n):
            got = fn(frozenset(combo))
            if got is observed:
                return list(combo)
            if got is None and undecided is None:
                undecided = list(combo)
    return undecided
