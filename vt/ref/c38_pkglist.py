"""Reference byte-level line model for C38 (package-list parsing / sentinel expansion).

Written from the module docstring of pkgcore.bugzilla.pkglist and the property statement:

    the field is a newline separated list of ``<package spec> [keyword...]`` lines with ``#``
    comments (a ``#`` starts a comment at the start of the line or after whitespace); ``*`` expands
    to the suggested keywords (``-`` if there are none), ``^`` repeats the previous package line's
    keywords, ``-`` means none.

It does not import pkgcore.  Domain: lines end in ``\\n`` or ``\\r\\n`` (or the text just ends) and the only
in-line whitespace is space / tab; anything else is reported as outside the domain.
"""

import re

WS = " \t"
_TOKEN = re.compile(r"[^ \t]+")
# characters str.splitlines() also breaks on, or other whitespace: outside the model's domain
_FOREIGN = re.compile("[\\x0b\\x0c\\x1c-\\x1f\\x85\\xa0\\u1680\\u2000-\\u200a\\u2028\\u2029\\u202f\\u205f\\u3000]")


def in_domain(text):
    if _FOREIGN.search(text):
        return False
    # a carriage return that is not part of \r\n would be a line break of its own
    return re.search(r"\r(?!\n)", text) is None


def split_lines(text):
    """-> [(raw, eol)], eol in {"\\n", "\\r\\n", ""}; concatenation reproduces text."""
    out = []
    pos = 0
    n = len(text)
    while pos < n:
        i = text.find("\n", pos)
        if i < 0:
            out.append((text[pos:], ""))
            break
        if i > pos and text[i - 1] == "\r":
            out.append((text[pos:i - 1], "\r\n"))
        else:
            out.append((text[pos:i], "\n"))
        pos = i + 1
    return out


def comment_start(raw):
    for i, ch in enumerate(raw):
        if ch == "#" and (i == 0 or raw[i - 1] in WS):
            return i
    return len(raw)


def parse_line(raw):
    """Split a line into the pieces the statement names."""
    c = comment_start(raw)
    body, comment = raw[:c], raw[c:]
    toks = list(_TOKEN.finditer(body))
    if not toks:
        return {"blank": True, "raw": raw, "comment": comment, "keywords": []}
    d = {
        "blank": False, "raw": raw, "comment": comment,
        "lead": body[: toks[0].start()],
        "spec": toks[0].group(),
        "keywords": [t.group() for t in toks[1:]],
    }
    if len(toks) > 1:
        d["gap"] = body[toks[0].end(): toks[1].start()]
        d["tail"] = body[toks[-1].end():] + comment
    else:
        d["gap"] = None
        d["tail"] = body[toks[0].end():] + comment
    return d


def canonical_spec(tok):
    """str() of the atom a spec token names: a bare versioned cat/pkg-1.2 means =cat/pkg-1.2.

    Only valid for the generator's package names (no name segment starts with a digit)."""
    if tok[:1] in "<>=~":
        return tok
    base = tok.split(":", 1)[0]
    return "=" + tok if re.search(r"-\d", base.split("/", 1)[-1]) else tok


class ExpandError(Exception):
    def __init__(self, why, lineno):
        Exception.__init__(self, why)
        self.why = why
        self.lineno = lineno


def expand(lines, suggest):
    """lines: [parse_line dict]; suggest: canonical spec -> list of keywords (KeyError if unknown).

    Returns (new_keywords_per_line, unsettled): new_keywords_per_line[i] is None for blank lines, else the
    expected keyword list; unsettled[i] is a list of reasons why the statement does not settle the keyword
    field of line i (inherited by the lines that copy it with '^').
    Raises ExpandError where the docstring of expand() says it refuses."""
    out = []
    unsettled = []
    prev = None
    prev_why = []
    for i, ln in enumerate(lines):
        if ln["blank"]:
            out.append(None)
            unsettled.append([])
            continue
        new = []
        inserted = []
        why = []
        kws = ln["keywords"]
        for kw in kws:
            if kw == "*":
                s = list(suggest(canonical_spec(ln["spec"])))
                if not s and len(kws) > 1:
                    why.append("'*' with no suggestion next to other keywords")
                new.extend(s or ["-"])
                inserted.extend(s or ["-"])
            elif kw == "^":
                if prev is None:
                    raise ExpandError("no-line-above", i + 1)
                if not prev and len(kws) > 1:
                    raise ExpandError("copies-empty-line", i + 1)
                new.extend(prev)
                inserted.extend(prev)
                why.extend(w for w in prev_why if w not in why)
            else:
                new.append(kw)
        if any(new.count(v) > 1 for v in inserted):
            why.append("expansion repeats a keyword")
        if any(k in ("*", "^") for k in inserted):
            why.append("a suggestion or copied line itself contains a sentinel")
        if "-" in inserted and len(new) > 1:
            why.append("'-' ends up next to other keywords")
        prev, prev_why = new, why
        out.append(new)
        unsettled.append(why)
    return out, unsettled


def render_expected(lines, eols, new):
    """Expected text after expansion (single spaces between the rewritten keywords)."""
    parts = []
    for ln, eol, kws in zip(lines, eols, new):
        if ln["blank"] or kws == ln["keywords"]:
            parts.append(ln["raw"] + eol)
        elif ln["keywords"]:
            parts.append(ln["lead"] + ln["spec"] + ln["gap"] + " ".join(kws) + ln["tail"] + eol)
        else:  # cannot happen through expand (a line without keywords has no sentinel)
            parts.append(ln["lead"] + ln["spec"] + (" " if kws else "") + " ".join(kws) + ln["tail"] + eol)
    return "".join(parts)
