"""Interpreter for a tiny ebuild/eclass dialect implementing PMS metadata accumulation (PMS 10.2, 7.3).

A program is {"eapi": "7", "ebuild": [stmt...], "eclasses": {name: [stmt...]}} with statements

    ["set", VAR, "text"]       VAR="text"
    ["append", VAR, "text"]    VAR+=" text"
    ["unset", VAR]             unset VAR            (only generated in the ebuild itself)
    ["inherit", [names]]       inherit a b
    ["func", name]             name() { :; }
    ["export", [phase_funcs]]  EXPORT_FUNCTIONS src_compile ...   (eclass only; the eclass defines <ECLASS>_<phase> first)

No pkgcore import.
"""

ACC_ALWAYS = ["IUSE", "REQUIRED_USE", "DEPEND", "RDEPEND", "PDEPEND", "BDEPEND", "IDEPEND"]
ACC_EAPI8 = ["PROPERTIES", "RESTRICT"]
PLAIN = ["SLOT", "KEYWORDS", "LICENSE", "DESCRIPTION", "HOMEPAGE", "SRC_URI", "PROPERTIES", "RESTRICT"]

PHASES_BASE = ["pkg_setup", "pkg_nofetch", "src_unpack", "src_compile", "src_test", "src_install", "pkg_preinst",
               "pkg_postinst", "pkg_prerm", "pkg_postrm", "pkg_config", "pkg_info"]


def phases_for(eapi):
    e = int(eapi)
    p = list(PHASES_BASE)
    if e >= 2:
        p += ["src_prepare", "src_configure"]
    if e >= 4:
        p += ["pkg_pretend"]
    return p


def metadata_keys_for(eapi):
    e = int(eapi)
    keys = ["DEPEND", "RDEPEND", "PDEPEND", "IUSE", "SLOT", "KEYWORDS", "LICENSE", "DESCRIPTION", "HOMEPAGE", "SRC_URI",
            "RESTRICT", "PROPERTIES"]
    if e >= 4:
        keys.append("REQUIRED_USE")
    if e >= 7:
        keys.append("BDEPEND")
    if e >= 8:
        keys.append("IDEPEND")
    return keys


def acc_vars(eapi):
    return ACC_ALWAYS + (ACC_EAPI8 if int(eapi) >= 8 else [])


class Interp:
    def __init__(self, prog):
        self.prog = prog
        self.eapi = prog["eapi"]
        self.acc = set(acc_vars(self.eapi))
        self.glob = {}           # plain shell variables (name -> str); absent = unset
        self.contrib = {v: [] for v in self.acc}   # eclass contributions in order
        self.inherited = []      # every eclass sourced, in order of completion
        self.funcs = set()
        self.sourced_count = 0

    def _run(self, stmts, scope, eclass):
        """scope: dict holding this file's own values of the accumulated variables."""
        for st in stmts:
            op = st[0]
            if op in ("set", "append", "unset"):
                var = st[1]
                store = scope if var in self.acc else self.glob
                if op == "set":
                    store[var] = st[2]
                elif op == "append":
                    store[var] = store.get(var, "") + " " + st[2]
                else:
                    store.pop(var, None)
            elif op == "inherit":
                for name in st[1]:
                    sub = {}
                    self.sourced_count += 1
                    self._run(self.prog["eclasses"][name], sub, name)
                    for v in self.acc:
                        if sub.get(v):
                            self.contrib[v].append(sub[v])
                    self.inherited.append(name)
            elif op == "func":
                self.funcs.add(st[1])
            elif op in ("export", "export_early"):
                # EXPORT_FUNCTIONS may legally precede the definition of <eclass>_<phase> (older eclasses do that)
                for ph in st[1]:
                    self.funcs.add(eclass + "_" + ph)
                    self.funcs.add(ph)
            else:
                raise ValueError(st)

    def run(self):
        own = {}
        self._run(self.prog["ebuild"], own, None)
        e = int(self.eapi)
        res = {}
        for v in self.acc:
            base = own.get(v)
            if v == "RDEPEND" and e <= 3 and "RDEPEND" not in own:
                base = own.get("DEPEND", "")
            toks = (base or "").split()
            for c in self.contrib[v]:
                toks += c.split()
            res[v] = toks
        for v in PLAIN:
            if v not in self.acc:
                res[v] = self.glob.get(v, "").split()
        res["_inherited"] = list(self.inherited)
        ph = sorted(p[p.index("_") + 1:] for p in phases_for(self.eapi) if p in self.funcs)
        res["DEFINED_PHASES"] = ph if ph else ["-"]
        return res


def render(stmts, eclass=None):
    out = []
    for st in stmts:
        op = st[0]
        if op == "set":
            out.append('%s="%s"' % (st[1], st[2]))
        elif op == "append":
            out.append('%s+=" %s"' % (st[1], st[2]))
        elif op == "unset":
            out.append("unset %s" % st[1])
        elif op == "inherit":
            out.append("inherit " + " ".join(st[1]))
        elif op == "func":
            out.append("%s() { :; }" % st[1])
        elif op == "export":
            for ph in st[1]:
                out.append("%s_%s() { :; }" % (eclass, ph))
            out.append("EXPORT_FUNCTIONS " + " ".join(st[1]))
        elif op == "export_early":
            out.append("EXPORT_FUNCTIONS " + " ".join(st[1]))
            for ph in st[1]:
                out.append("%s_%s() { :; }" % (eclass, ph))
    return "\n".join(out) + "\n"
