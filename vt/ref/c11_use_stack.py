"""Reference model for C11: stacked flag configuration = ordered fold of the applicable entries.

Written from the property statement only; shares no code with pkgcore.

Entry (JSON-able dict):  {"r": <restriction spec>, "neg": [flags], "pos": [flags]}
    r = "*"            global entry (applies to every package)
        "c/*"          category glob
        "c/p"          unversioned package atom
        "=c/p-1"       exact version atom (no revisions are generated)
        "c/p:1"        slot atom
    neg may contain "*" (clear everything earlier) and "PREFIX_*" (clear earlier flags starting with "PREFIX_").
    One entry is the pair (neg, pos) the API takes: negatives are applied before positives.

Package (JSON-able dict): {"cpv": "c/p-1", "slot": "1"}
"""


def pkg_parts(pkg):
    cat, rest = pkg["cpv"].split("/", 1)
    name, ver = rest.rsplit("-", 1)
    return cat, name, ver, pkg.get("slot", "0")


def applies(r, pkg):
    """Does restriction spec `r` select `pkg`?  (only the shapes the generators emit)"""
    cat, name, ver, slot = pkg_parts(pkg)
    if r == "*":
        return True
    if r.endswith("/*"):
        return r[:-2] == cat
    key = "%s/%s" % (cat, name)
    if r.startswith("="):
        rkey, rver = r[1:].rsplit("-", 1)
        return rkey == key and rver == ver
    if ":" in r:
        rkey, rslot = r.split(":", 1)
        return rkey == key and rslot == slot
    return r == key


def apply_entry(flags, neg, pos):
    """Apply one entry in place: -* clears, -P_* drops flags with that prefix, -f removes, f adds."""
    for n in neg:
        if n == "*":
            flags.clear()
    for n in neg:
        if n != "*" and n.endswith("_*"):
            pre = n[:-1]  # "foo_"
            for f in [f for f in flags if f.startswith(pre)]:
                flags.discard(f)
    for n in neg:
        flags.discard(n)
    for p in pos:
        flags.add(p)
    return flags


def fold(entries, pkg, pre=()):
    """Expected flag set for pkg: every applicable entry, in the order given, over the initial set `pre`."""
    flags = set(pre)
    for e in entries:
        if applies(e["r"], pkg):
            apply_entry(flags, e["neg"], e["pos"])
    return flags


def fold_tokens(entries, pkg, pre=()):
    """Same, for token-payload entries {"r":, "toks": ["-a", "b", "-*"]} processed token by token."""
    flags = set(pre)
    for e in entries:
        if not applies(e["r"], pkg):
            continue
        for t in e["toks"]:
            if t == "-*":
                flags.clear()
            elif t.startswith("-"):
                flags.discard(t[1:])
            else:
                flags.add(t)
    return flags


def has_reset(e):
    return any(n == "*" or n.endswith("_*") for n in e.get("neg", ()))


# ------------------------------------------------------------------------------------------------ layer 2 (files)
def parse_use_line(tokens):
    """Flag tokens of one package.use line -> list of elementary tokens, left to right.

    Plain tokens: "flag", "-flag", "-*".  "NAME:" switches to USE_EXPAND mode: the following tokens are values of NAME
    ("x" -> "name_x", "-x" -> "-name_x", "-*" -> "-name_*") until the next "OTHER:".
    """
    out = []
    prefix = None
    for t in tokens:
        if t.endswith(":"):
            prefix = t[:-1].lower() + "_"
            continue
        if prefix is None:
            out.append(t)
        elif t == "-*":
            out.append("-" + prefix + "*")
        elif t.startswith("-"):
            out.append("-" + prefix + t[1:])
        else:
            out.append(prefix + t)
    return out


def apply_tokens(flags, tokens):
    """Strict left-to-right application of elementary tokens."""
    for t in tokens:
        if t.startswith("-"):
            apply_entry(flags, [t[1:]], [])
        else:
            flags.add(t)
    return flags


def line_entry(r, tokens):
    """-> (entry, ambiguous).  entry = the (neg, pos) pair with exactly the strict left-to-right meaning of the line.

    ambiguous: the line sets and unsets the same flag, or clears a prefix that an earlier token of the line outside the
    same "NAME:" group had set -- such lines are not judged (an entry is a (neg, pos) pair: order inside one is not given).
    """
    toks = []
    group = None
    gid = 0
    for t in tokens:
        if t.endswith(":"):
            gid += 1
            group = (gid, t[:-1].lower() + "_")
            continue
        if group is None:
            toks.append((t, 0))
        elif t == "-*":
            toks.append(("-" + group[1] + "*", group[0]))
        elif t.startswith("-"):
            toks.append(("-" + group[1] + t[1:], group[0]))
        else:
            toks.append((group[1] + t, group[0]))
    ambiguous = False
    seen = {}
    reset_all = False
    prefixes = []
    state = {}
    for t, g in toks:
        name = t.lstrip("-")
        if t == "-*":
            reset_all = True
            prefixes = []
            state = {}
            seen = {}
            continue
        if t.startswith("-") and name.endswith("_*"):
            pre = name[:-1]
            for f, fg in list(seen.items()):
                if f.startswith(pre):
                    if fg != g:
                        ambiguous = True
                    state.pop(f, None)
            if name not in prefixes:
                prefixes.append(name)
            continue
        if name in seen:
            ambiguous = True
        seen[name] = g
        state[name] = not t.startswith("-")
    neg = (["*"] if reset_all else []) + prefixes + [f for f, on in state.items() if not on]
    pos = [f for f, on in state.items() if on]
    return {"r": r, "neg": neg, "pos": pos}, ambiguous
