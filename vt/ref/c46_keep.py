"""C46 reference: which removals does the property statement forbid?  (safety only; never imports pkgcore)

Everything is computed from the scenario data (vt/gen/c46_scen.py) with plain string operations:
package/pattern matching by field equality, need-sets by flattening the distfile lists, file filters from the
documented meaning of the option arguments (generous at every ambiguity), target attribution by a deliberately
generous upper bound that does not reuse the tool's regular expressions.
"""

import re

UNIT_MIN_SECONDS = {"s": 1, "min": 60, "h": 3600, "d": 86400, "w": 7 * 86400, "m": 28 * 86400, "y": 365 * 86400}
UNIT_MAX_BYTES = {"B": 1, "K": 1024, "M": 1024 ** 2, "G": 1024 ** 3}
TIME_MARGIN = 120.0


def flat(x):
    out = []
    for y in x or ():
        if isinstance(y, str):
            out.append(y)
        else:
            out.extend(flat(y))
    return out


def matches(pat, pk):
    k = pat["kind"]
    if k == "cp":
        return pk["cat"] == pat["cat"] and pk["pn"] == pat["pn"]
    if k == "pn":
        return pk["pn"] == pat["pn"]
    if k == "cpv":
        return pk["cat"] == pat["cat"] and pk["pn"] == pat["pn"] and pk["ver"] == pat["ver"]
    if k == "cat":
        return pk["cat"] == pat["cat"]
    raise ValueError(k)


def parse_time_arg(text):
    m = re.fullmatch(r"(\d+)(s|min|h|d|w|m|y)", text)
    return int(m.group(1)) * UNIT_MIN_SECONDS[m.group(2)]


def parse_size_arg(text):
    m = re.fullmatch(r"(\d+)([BKMG])", text)
    return int(m.group(1)) * UNIT_MAX_BYTES[m.group(2)]


def norm(s):
    return re.sub(r"[^a-z0-9_]", "-", s.lower())


def stem(name):
    """Leading run of non-digit word characters of a distfile name ('' when the name starts with a digit or
    punctuation: then every prefix test is vacuous and target attribution cannot be judged)."""
    m = re.match(r"[A-Za-z_]*", name)
    return norm(m.group(0))


def repo_pkgs(scn):
    return [pk for r in scn["repos"] for pk in r["pkgs"]]


def need(pk):
    """Distfiles of the *configured* package (SRC_URI evaluated against the active USE flags): what an installed
    package needs (pclean documents that -I uses the USE-bound list)."""
    return set(flat(pk["distfiles"]))


def need_raw(pk):
    """Every distfile the ebuild lists, including those behind `flag? ( )` / `!flag? ( )` groups that the current USE
    setting disables: a package *in the repositories* needs all of them (the tree, its Manifest and every other USE
    setting refer to them), so this is the need-set for -E, -f and -x."""
    return set(flat(pk["raw_distfiles"] or pk["distfiles"]))


def judge(scn, before, after, outside_before, outside_after, t_end):
    """before/after: {name: {"size": int, "mtime": float}} of the regular files directly in the distdir.
    -> (violations [(kind, extra)], facts)"""
    o = scn["opts"]
    removed = sorted(set(before) - set(after))
    viol, facts = [], {"removed": removed, "unspecified": [], "guards": {}}
    pkgs = repo_pkgs(scn)
    excluded = [pk for pk in pkgs if any(matches(p, pk) for p in o["excludes"])]
    targeted = [pk for pk in pkgs if o["targets"] and any(matches(p, pk) for p in o["targets"])
                and not any(matches(p, pk) for p in o["excludes"])]
    keep = {
        "keep-installed": set().union(*[need(pk) for pk in scn["installed"]]) if o["I"] else set(),
        "keep-exists": set().union(*[need_raw(pk) for pk in pkgs]) if o["E"] else set(),
        "keep-fetch-restricted": set().union(*[need_raw(pk) for pk in pkgs if "fetch" in pk["restrict"]]) if o["f"] else set(),
        "keep-excluded": set().union(*[need_raw(pk) for pk in excluded]) if o["excludes"] else set(),
    }
    raw_only = set().union(*[need_raw(pk) - need(pk) for pk in pkgs]) if pkgs else set()
    facts["conditional_guarded"] = sorted(raw_only & set(before) & set().union(*[keep[g] for g in keep if g != "keep-installed"]))
    inst_only_fetch = set().union(*[need(pk) for pk in scn["installed"] if "fetch" in pk["restrict"]]) if o["f"] else set()
    for g, s in keep.items():
        facts["guards"][g] = sorted(s & set(before))
    if o["pretend"] or not o["tty"]:
        for f in removed:
            viol.append(("removed-without-permission", {"rule": "pretend" if o["pretend"] else "no-tty", "file": f}))
    if set(outside_before) - set(outside_after):
        viol.append(("removed-outside-distdir", {"rule": "outside", "files": sorted(set(outside_before) - set(outside_after))}))
    need_targeted = set().union(*[need_raw(pk) for pk in targeted]) if targeted else set()
    # upper bound for "selected by the cleaning targets"
    prefixes, vacuous = set(), False
    if o["targets"]:
        for pk in targeted:
            prefixes.add(norm(pk["pn"]))
            for d in need_raw(pk):
                s = stem(d)
                if s:
                    prefixes.add(s)
                else:
                    vacuous = True
    for f in removed:
        b = before[f]
        for g, s in keep.items():
            if f in s:
                viol.append((g, {"rule": g, "file": f, "needed_by": sorted(
                    "%s/%s-%s" % (pk["cat"], pk["pn"], pk["ver"]) for pk in (scn["installed"] if g == "keep-installed" else pkgs)
                    if f in (need(pk) if g == "keep-installed" else need_raw(pk))),
                    "behind_disabled_use_conditional": g != "keep-installed" and f in raw_only and not any(
                        f in need(pk) for pk in pkgs),
                    "needed_by_targeted": f in need_targeted, "with_targets": bool(o["targets"]),
                    "attributable_to_targets": (None if not o["targets"] or vacuous else
                                                any(norm(f).startswith(p) for p in prefixes))}))
        if f in inst_only_fetch and f not in keep["keep-fetch-restricted"]:
            facts["unspecified"].append("removed file belongs to a fetch-restricted package that is only installed")
        if o["size"]:
            lim = parse_size_arg(o["size"][0])
            if b["size"] > lim:
                viol.append(("filter-size", {"rule": "bigger-than-limit", "file": f, "size": b["size"], "limit": lim}))
        if o["modified"]:
            thr = parse_time_arg(o["modified"][0])
            age = t_end - b["mtime"]
            if age < thr - TIME_MARGIN:
                viol.append(("filter-modified", {"rule": "modified-since", "file": f, "age": age, "threshold": thr}))
            elif age < thr * 1.11 + TIME_MARGIN:
                facts["unspecified"].append("file age within the margin / unit approximation of --modified")
        if o["targets"]:
            if vacuous:
                facts["unspecified"].append("a targeted package has a distfile whose name starts with a digit: any name is attributable")
            elif not (f in need_targeted or any(norm(f).startswith(p) for p in prefixes)):
                viol.append(("not-selected-by-targets", {"rule": "unattributable", "file": f, "prefixes": sorted(prefixes)}))
    # measured non-triviality: something was removed while an active guard / filter / target had something to protect
    facts["protected_present"] = sorted(set().union(*keep.values()) & set(before))
    facts["survivors"] = sorted(set(after))
    return viol, facts
