"""Reference implementation of PMS version syntax and comparison (PMS 3.2, Algorithm 3.1-3.7).

Written from the specification; does not import pkgcore.
"""

import re

VERSION_RE = re.compile(r"^([0-9]+)((?:\.[0-9]+)*)([a-z]?)((?:_(?:alpha|beta|pre|rc|p)[0-9]*)*)\Z")
SUFFIX_RE = re.compile(r"_(alpha|beta|pre|rc|p)([0-9]*)")
SUFFIX_RANK = {"alpha": 0, "beta": 1, "pre": 2, "rc": 3, "p": 5}
NO_SUFFIX_RANK = 4


def valid_version(v):
    return isinstance(v, str) and VERSION_RE.match(v) is not None


def valid_revision(r):
    """r is the digits after '-r', or ''/None for absent."""
    return r is None or r == "" or (isinstance(r, str) and r.isascii() and r.isdigit())


def split_version(v):
    m = VERSION_RE.match(v)
    if not m:
        raise ValueError(v)
    first = m.group(1)
    rest = m.group(2).split(".")[1:] if m.group(2) else []
    letter = m.group(3)
    suffixes = [(n, d) for n, d in SUFFIX_RE.findall(m.group(4))]
    return first, rest, letter, suffixes


def _cmp(a, b):
    return (a > b) - (a < b)


def cmp_component(a, b, first):
    """Algorithm 3.3: compare one numeric component."""
    if first:
        return _cmp(int(a), int(b))
    if a.startswith("0") or b.startswith("0"):
        return _cmp(a.rstrip("0"), b.rstrip("0"))
    return _cmp(int(a), int(b))


def ver_cmp(v1, r1, v2, r2):
    """sign of PMS comparison of (v1, -r r1) and (v2, -r r2); revisions are digit strings or ''/None."""
    f1, rest1, l1, s1 = split_version(v1)
    f2, rest2, l2, s2 = split_version(v2)
    # numeric components (Algorithm 3.2)
    c = cmp_component(f1, f2, True)
    if c:
        return c
    for a, b in zip(rest1, rest2):
        c = cmp_component(a, b, False)
        if c:
            return c
    c = _cmp(len(rest1), len(rest2))
    if c:
        return c
    # letter (3.4): absent letter sorts before any letter
    c = _cmp(l1, l2)
    if c:
        return c
    # suffixes (3.5, 3.6)
    for (n1, d1), (n2, d2) in zip(s1, s2):
        c = _cmp(SUFFIX_RANK[n1], SUFFIX_RANK[n2])
        if c:
            return c
        c = _cmp(int(d1 or "0"), int(d2 or "0"))
        if c:
            return c
    if len(s1) > len(s2):
        n, _d = s1[len(s2)]
        return 1 if n == "p" else -1
    if len(s2) > len(s1):
        n, _d = s2[len(s1)]
        return -1 if n == "p" else 1
    # revision (3.7)
    return _cmp(int(r1 or "0"), int(r2 or "0"))


def deciding_rule(v1, r1, v2, r2):
    """Name the rule that decides the comparison (for non-triviality bookkeeping)."""
    f1, rest1, l1, s1 = split_version(v1)
    f2, rest2, l2, s2 = split_version(v2)
    if cmp_component(f1, f2, True):
        return "first-lz" if (f1[0] == "0" and len(f1) > 1) or (f2[0] == "0" and len(f2) > 1) else "first"
    for a, b in zip(rest1, rest2):
        if cmp_component(a, b, False):
            return "component-lz" if a[0] == "0" or b[0] == "0" else "component-int"
    if len(rest1) != len(rest2):
        return "length"
    if l1 != l2:
        return "letter"
    for (n1, d1), (n2, d2) in zip(s1, s2):
        if n1 != n2:
            return "suffix-rank"
        if int(d1 or "0") != int(d2 or "0"):
            return "suffix-number"
    if len(s1) != len(s2):
        return "suffix-extra"
    if int(r1 or "0") != int(r2 or "0"):
        return "revision"
    return "equal-spelled-differently" if (v1, r1 or "") != (v2, r2 or "") else "identical"


def split_fullver(fv):
    """'1.2-r3' -> ('1.2', '3'); '1.2' -> ('1.2', '')."""
    m = re.match(r"^(.*)-r(\d+)$", fv)
    if m:
        return m.group(1), m.group(2)
    return fv, ""


def cmp_fullver(a, b):
    v1, r1 = split_fullver(a)
    v2, r2 = split_fullver(b)
    return ver_cmp(v1, r1, v2, r2)


OPS = {
    "<": lambda c: c < 0,
    "<=": lambda c: c <= 0,
    "=": lambda c: c == 0,
    ">=": lambda c: c >= 0,
    ">": lambda c: c > 0,
}
