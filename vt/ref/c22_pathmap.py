"""Reference model for C22: a contents set is a map  normalised-path -> entry.

Written from the property statement only; no pkgcore (and no os.path) code is used.

An *entry value* in the model is the tuple (type, ident, target):
    type    one of "file" "dir" "sym" "dev" "fifo"
    ident   the serial number the generator gave the entry (carried by the real object in `mtime`)
    target  symlink target or None
"""

TYPES = ("file", "dir", "sym", "dev", "fifo")


class Unspecified(Exception):
    """The statement does not define the operation on this input."""


def norm(path):
    """Lexical normalisation of an absolute path: collapse '//' and '/./', strip trailing '/', resolve 'x/..'.

    POSIX leaves a path starting with exactly two slashes implementation-defined, so such spellings are
    outside the model (the generator never emits them)."""
    if not isinstance(path, str) or not path.startswith("/"):
        raise Unspecified("relative or non-string path")
    if path.startswith("//") and not path.startswith("///"):
        raise Unspecified("exactly two leading slashes")
    out = []
    for comp in path.split("/"):
        if comp in ("", "."):
            continue
        if comp == "..":
            if out:
                out.pop()
            continue
        out.append(comp)
    return "/" + "/".join(out)


def ancestors(key):
    """Proper ancestors of a normalised key, excluding '/'."""
    res = []
    parts = key.split("/")[1:]
    for i in range(1, len(parts)):
        res.append("/" + "/".join(parts[:i]))
    return res


class PathMap:
    """dict keyed by normalised path.  Values: (type, ident, target)."""

    def __init__(self, items=()):
        self.d = {}
        for k, v in items:
            self.d[k] = v

    def copy(self):
        return PathMap(self.d.items())

    # -- single-key operations (argument already reduced to a key by key_of) ------
    def put(self, key, val):
        self.d[key] = val

    def has(self, key):
        return key in self.d

    def get(self, key):
        return self.d[key]  # KeyError if absent

    def remove(self, key):
        del self.d[key]  # KeyError if absent

    def discard(self, key):
        self.d.pop(key, None)

    def keys(self):
        return set(self.d)

    # -- binary operations: result keys + for every key the set of admissible values ----------
    def _admissible(self, other, keys):
        adm = {}
        for k in keys:
            vals = []
            if k in self.d:
                vals.append(self.d[k])
            if k in other.d:
                vals.append(other.d[k])
            adm[k] = vals
        return adm

    def union(self, other):
        return self._admissible(other, set(self.d) | set(other.d))

    def intersection(self, other):
        return self._admissible(other, set(self.d) & set(other.d))

    def difference(self, other):
        return self._admissible(PathMap(), set(self.d) - set(other.d))

    def symmetric_difference(self, other):
        return self._admissible(other, set(self.d) ^ set(other.d))

    def issubset(self, other):
        return set(self.d) <= set(other.d)

    def issuperset(self, other):
        return set(self.d) >= set(other.d)

    def isdisjoint(self, other):
        return not (set(self.d) & set(other.d))

    # -- relocation ---------------------------------------------------------------
    def relocate(self, old, new):
        """Every key old/x becomes new/x.  `old` may carry trailing slashes; otherwise it must be normalised,
        and every key must lie at or under it (else the statement does not say what happens)."""
        stripped = old.rstrip("/") or "/"
        if stripped != "/" and norm(stripped) != stripped:
            raise Unspecified("old offset not normalised")
        if stripped == "/" and old.strip("/") != "":
            raise Unspecified("old offset not normalised")
        if old.startswith("//") and not old.startswith("///"):
            raise Unspecified("exactly two leading slashes")
        oldn = stripped
        newn = norm(new)
        res = {}
        for k, v in self.d.items():
            if oldn == "/":
                rest = k[1:]
            elif k == oldn:
                rest = ""
            elif k.startswith(oldn + "/"):
                rest = k[len(oldn) + 1:]
            else:
                raise Unspecified("entry outside the old offset")
            nk = norm(("" if newn == "/" else newn) + "/" + rest)
            if nk in res:  # cannot happen (injective), kept as a guard
                raise Unspecified("relocation collision")
            res[nk] = v
        return res

    # -- directory completion ---------------------------------------------------------
    def missing_directories(self):
        miss = set()
        for k in self.d:
            for a in ancestors(k):
                if a not in self.d:
                    miss.add(a)
        return miss
