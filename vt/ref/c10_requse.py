"""Reference for REQUIRED_USE solving: brute-force enumeration over the flag universe.

Trees use the AST of vt/ref/c09_depmodel.py (tok "f"/"!f", all, any, xor, amo, cond).  `on` is the set of enabled
flags; conditions and leaves read the same assignment.

What a use-conditional means as a *member of an any-of / ^^ / ?? group* when its condition is unmet is not fixed by the
property statement, and the three obvious sources disagree:
    implication   the conditional is a satisfied member            (pkgcore's required_use.__condition)
    vanishing     the conditional, and any group left empty, disappears   (Portage check_required_use / use_reduce)
    pms-literal   the conditional is an unmatched member; a group holding nothing but unmet conditionals is matched
All three coincide on trees where no conditional sits (directly or through emptied groups) inside such a group.
"""

import itertools

from . import c09_depmodel as M

READINGS = ("implication", "vanishing", "pms-literal")


def _leaf(n, on):
    t = n[1]
    if t.startswith("!"):
        return t[1:] not in on
    return t in on


def sat_implication_node(n, on):
    k = n[0]
    if k == "tok":
        return _leaf(n, on)
    if k == "cond":
        if (n[1] in on) == bool(n[2]):
            return True
        return all(sat_implication_node(c, on) for c in n[3])
    if k == "not":
        return not sat_implication_node(n[1], on)
    vals = [sat_implication_node(c, on) for c in n[1]]
    if k == "all":
        return all(vals)
    if k == "any":
        return any(vals)
    if k == "xor":
        return sum(vals) == 1
    if k == "amo":
        return sum(vals) <= 1
    raise ValueError(k)


def sat(nodes, on, reading):
    if reading == "implication":
        return all(sat_implication_node(n, on) for n in nodes)
    if reading == "vanishing":
        return M.sat_B(nodes, on, on, requse=True)
    if reading == "pms-literal":
        return M.sat_A(nodes, on, on, requse=True)
    raise ValueError(reading)


def mentioned(nodes, acc=None):
    acc = set() if acc is None else acc
    for n in nodes:
        k = n[0]
        if k == "tok":
            acc.add(n[1].lstrip("!"))
        elif k == "cond":
            acc.add(n[1])
            mentioned(n[3], acc)
        elif k == "not":
            mentioned([n[1]], acc)
        else:
            mentioned(n[1], acc)
    return acc


def candidates(variables, iuse, force_true, force_false):
    """All assignments (as frozensets of enabled flags) allowed by the statement's side conditions:
    forced-on flags on, forced-off flags and flags outside IUSE off."""
    fixed_on = set(force_true) & set(iuse)
    free = sorted((set(iuse) & set(variables)) - set(force_true) - set(force_false))
    for r in range(len(free) + 1):
        for c in itertools.combinations(free, r):
            yield frozenset(c) | fixed_on


def expected(nodes, variables, iuse, force_true, force_false, reading):
    return {on for on in candidates(variables, iuse, force_true, force_false) if sat(nodes, on, reading)}


def preferred(iuse, force_true, force_false, prefer_true):
    """preferred flags on, every other unforced flag off (forced-on flags on)."""
    iuse = set(iuse)
    return frozenset(((set(prefer_true) & iuse) - set(force_false)) | (set(force_true) & iuse))
