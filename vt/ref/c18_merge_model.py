"""Reference oracle for "merge a contents set into a live root" (C18) and its crash variant (C19).

Written from the property statements only; works on vt.fssnap snapshots of the scenario directory W
(keys = paths relative to W: "src/...", "root/...", "outside/...").  Never imports pkgcore.

Vocabulary
  L(e)  location of set entry e, root/<path of e>, with the symlinked directory components *above* it resolved
  P(e)  physical location: L(e) with every symlinked *directory component* (and, for directory entries, the
        last component too) resolved against the snapshot taken BEFORE the merge; components that do not exist
        yet are literal (they will be created as real directories).
"""

import os

MTIME_TOL_NS = 1000   # the recorded mtime travels as a float (about 240 ns granularity today)


class Plan:
    """Where every set entry lands, computed from the `before` snapshot alone."""

    def __init__(self, W, before, set_paths, src_prefix="src", root="root"):
        self.W = W
        self.before = before
        self.root = root
        self.entries = []          # (srcpath, type, L, P or None, status)
        self.replaced_dangling = set()   # physical paths of dangling symlinks that a set directory replaces
        self.problems = []         # reasons why a failure of the merge is an acceptable outcome
        self.residue = []
        self.unspecified = []      # reasons why per-entry judgement is not defined by the statement
        dirs = sorted(p for p in set_paths if before[src_prefix + "/" + p]["type"] == "dir")
        nondirs = [p for p in set_paths if before[src_prefix + "/" + p]["type"] != "dir"]
        self.dir_phys = {}
        self.created = set()       # physical paths of set directories processed so far (exist from then on)
        for p in dirs:
            L = root + "/" + p
            P, st = self.resolve(L, follow_last=True, for_set_dir=True)
            if st != "ok":
                self.problems.append("dir %r: %s" % (p, st))
            elif P in before and before[P]["type"] != "dir" and P not in self.replaced_dangling:
                self.problems.append("dir %r over existing %s" % (p, before[P]["type"]))
                st = "clash"
            if st == "ok":
                par = os.path.dirname(P)
                if par and par not in before and par not in self.dir_phys.values():
                    self.problems.append("dir %r: parent is neither in the set nor on the filesystem" % p)
            Lp, st2 = self.resolve(L, follow_last=False)     # physical path of the set path itself
            self.entries.append((p, "dir", Lp if st2 == "ok" else None, P, st))
            if st == "ok":
                self.dir_phys[p] = P
                self.created.add(P)
        for p in nondirs:
            L = root + "/" + p
            P, st = self.resolve(L, follow_last=False)
            t = before[src_prefix + "/" + p]["type"]
            if st != "ok":
                self.problems.append("%s %r: %s" % (t, p, st))
            elif P in before and before[P]["type"] == "dir":
                st = "over-dir"
                self.problems.append("%s %r over existing directory" % (t, p))
            elif os.path.dirname(P) and os.path.dirname(P) not in before and os.path.dirname(P) not in self.dir_phys.values():
                # statement: missing parent directories MAY be created; refusing is not forbidden
                self.problems.append("%s %r: parent directory is neither in the set nor on the filesystem" % (t, p))
            elif (P + "#new") in before and P in before:
                # leftover '<path>#new' of an earlier interrupted merge: refusing is acceptable, succeeding is judged
                self.problems.append("%s %r: leftover %s at '#new' sibling" % (t, p, before[P + "#new"]["type"]))
                self.residue.append(p)
            self.entries.append((p, t, P, P, st))
        # aliasing: two set entries with the same physical location -> "which one wins" is not specified
        seen = {}
        for (p, t, L, P, st) in self.entries:
            if P is not None:
                seen.setdefault(P, []).append(p)
        self.aliased = {P for P, ps in seen.items() if len(ps) > 1}
        # a physical location that lies below another non-directory set entry, etc.
        if self.aliased:
            self.unspecified.append("two set entries share one physical location")

    # -- path resolution against the before-snapshot ---------------------------------------------------
    def _exists(self, rel, depth=0):
        """Does rel (W-relative, fully followed) resolve to an existing object?  -> entry or None"""
        P, st = self.resolve(rel, follow_last=True, depth=depth + 1, lenient=True)
        if st != "ok" or P is None:
            return None
        if P == "" or P in self.created:
            return {"type": "dir"}
        return self.before.get(P)

    def resolve(self, rel, follow_last, for_set_dir=False, depth=0, lenient=False):
        if depth > 8:
            return None, "symlink loop"
        todo = [c for c in rel.split("/")]
        cur = []
        hops = 0
        while todo:
            c = todo.pop(0)
            if c in ("", "."):
                continue
            if c == "..":
                if not cur:
                    return None, "escapes the scenario directory"
                cur.pop()
                continue
            cand = "/".join(cur + [c])
            e = self.before.get(cand)
            last = not any(x not in ("", ".") for x in todo)
            if e is None:
                cur.append(c)
                continue
            if e["type"] == "link" and (not last or follow_last) and cand not in self.replaced_dangling:
                hops += 1
                if hops > 40:
                    return None, "symlink loop"
                tgt = e["target"]
                if tgt.startswith("/"):
                    if tgt == self.W or tgt.startswith(self.W + "/"):
                        trel = tgt[len(self.W):].lstrip("/")
                        full = trel
                    else:
                        return None, "symlink %r leaves the scenario directory" % cand
                else:
                    full = "/".join(cur + [tgt]) if cur else tgt
                ex = self._exists(full, depth)
                if ex is None:
                    # dangling
                    if last and for_set_dir:
                        self.replaced_dangling.add(cand)
                        cur.append(c)
                        continue
                    if lenient:
                        return None, "dangling"
                    return None, "dangling symlink %r on the path" % cand
                if tgt.startswith("/"):
                    cur = []
                    todo = full.split("/") + todo
                else:
                    todo = tgt.split("/") + todo
                continue
            if not last and e["type"] != "dir" and not (e["type"] == "link" and cand in self.replaced_dangling):
                return None, "non-directory %r on the path" % cand
            cur.append(c)
        return "/".join(cur), "ok"

    # -- derived sets ----------------------------------------------------------------------------------
    def allowed(self):
        """Paths the merge may create/change: physical entry locations and the resolved directories."""
        s = set()
        for (p, t, L, P, st) in self.entries:
            if P is not None:
                s.add(P)
            if t == "dir" and L is not None and L in self.before and self.before[L]["type"] == "link":
                s.add(L)        # the set path itself (a symlink standing in for the directory)
        return s

    def parents_of_entries(self):
        s = set()
        for (p, t, L, P, st) in self.entries:
            if P is not None:
                s.add(os.path.dirname(P))
        return s

    def may_be_created_dir(self, path):
        """A path that did not exist before and is a proper ancestor of some physical entry location."""
        if path in self.before:
            return False
        pre = path + "/"
        for (p, t, L, P, st) in self.entries:
            if P is not None and P.startswith(pre):
                return True
        return path == self.root or (self.root + "/").startswith(pre)


FRAME_FIELDS = ("type", "mode", "uid", "gid", "mtime_ns", "size", "sha", "target", "ino")


def frame_violations(plan, before, after, new_siblings="ignore"):
    """Paths outside the (resolved) set must be untouched.  -> list of (rule, path, detail)

    new_siblings: "ignore"      '<P>#new' next to a physical entry location may be in any state (interrupted or
                                failed merge: the temporary sibling is explicitly exempted by C19's statement)
                  "no-residue"  a '<P>#new' that did not exist before must not exist afterwards; one that did
                                exist before (leftover of an earlier interrupted merge) may be consumed"""
    out = []
    allowed = plan.allowed()
    parents = plan.parents_of_entries()
    sib = {P + "#new" for P in allowed}
    for q in sorted(set(before) | set(after)):
        if q in allowed:
            continue
        b, a = before.get(q), after.get(q)
        if q in sib:
            if new_siblings == "ignore" or b is not None:
                continue
            out.append(("new-residue", q, {"after": _b(a)}))
            continue
        if b is None:
            if a["type"] == "dir" and plan.may_be_created_dir(q):
                continue
            # anything below a path that is itself not allowed was already reported with its top-most parent
            out.append(("created-outside-set", q, {"after": _b(a)}))
            continue
        if a is None:
            out.append(("removed-outside-set", q, {"before": _b(b)}))
            continue
        fields = [f for f in FRAME_FIELDS if b.get(f) != a.get(f)]
        if b["type"] == "dir" and a["type"] == "dir" and (q in parents or _has_created_child(plan, q, before, after)):
            fields = [f for f in fields if f != "mtime_ns"]
        if fields:
            out.append(("changed-outside-set", q, {"fields": fields, "before": _b(b), "after": _b(a)}))
    return out


def _has_created_child(plan, q, before, after):
    pre = q + "/"
    for x in after:
        if x.startswith(pre) and "/" not in x[len(pre):] and x not in before and plan.may_be_created_dir(x):
            return True
    return False


def _b(e):
    if e is None:
        return None
    d = {k: v for k, v in e.items() if k != "ino"}
    if "sha" in d:
        d["sha"] = d["sha"][:16]
    if "mode" in d:
        d["mode"] = oct(d["mode"])
    return d


def expected_new(src_entry):
    """What a freshly placed non-directory entry must look like (from the snapshot of the source image)."""
    t = src_entry["type"]
    d = {"type": t, "uid": src_entry["uid"], "gid": src_entry["gid"]}
    if t == "link":
        d["target"] = src_entry["target"]
    else:
        d["mode"] = src_entry["mode"]
        d["mtime_ns"] = src_entry["mtime_ns"]
    if t == "file":
        d["size"] = src_entry["size"]
        d["sha"] = src_entry["sha"]
    if t == "dev":
        d["rdev"] = src_entry.get("rdev")
    return d


def matches(entry, exp, ignore=()):
    """-> list of fields of `entry` that differ from the expectation"""
    bad = []
    if entry is None:
        return ["missing"]
    for k, v in exp.items():
        if k in ignore:
            continue
        if k == "mtime_ns":
            if abs(entry.get(k, -10**30) - v) > MTIME_TOL_NS:
                bad.append(k)
        elif entry.get(k) != v:
            bad.append(k)
    return bad


def judge_success(plan, before, after, src_prefix="src"):
    """Post-conditions of a merge that reported success.  -> (violations, stats)

    violations: list of (rule, set path, detail)."""
    out = []
    stats = {"entries": 0, "created": 0, "replaced": 0, "preexisting_dirs": 0, "leaf_dir_mtime": 0,
             "hardlink_groups": 0, "skipped_aliased": 0}
    parents = plan.parents_of_entries()
    # aliased locations, plus every member of a source hard-link group that has an aliased member: the group's
    # first merged member may be overwritten by the other aliased entry before the rest is linked to it
    tainted = set(plan.aliased)
    by_ino = {}
    for (p, t, L, P, st) in plan.entries:
        if t == "file":
            by_ino.setdefault(tuple(before[src_prefix + "/" + p]["ino"]), []).append(P)
    for members in by_ino.values():
        if any(P in plan.aliased for P in members):
            tainted.update(P for P in members if P is not None)
    for (p, t, L, P, st) in plan.entries:
        src = before[src_prefix + "/" + p]
        if P in tainted:
            stats["skipped_aliased"] += 1
            continue
        stats["entries"] += 1
        a = after.get(P)
        b = before.get(P)
        det = {"set_path": p, "phys": P, "before": _b(b), "after": _b(a), "src": _b(src)}
        if t == "dir":
            if a is None or a["type"] != "dir":
                out.append(("dir-missing", p, det))
                continue
            if b is not None and b["type"] == "dir":
                stats["preexisting_dirs"] += 1
                if a["mode"] != b["mode"]:
                    out.append(("preexisting-dir-mode-changed", p, det))
            else:
                stats["created"] += 1
                bad = matches(a, {"mode": src["mode"], "uid": src["uid"], "gid": src["gid"]})
                if bad:
                    out.append(("created-dir-" + "+".join(bad), p, det))
            # the literal location must still lead to the directory (a symlink to it stays a symlink)
            la, lb = after.get(L), before.get(L)
            if L is not None and lb is not None and lb["type"] == "link" and L not in plan.replaced_dangling and P != L:
                if la is None or la["type"] != "link" or la["target"] != lb["target"]:
                    out.append(("dir-symlink-replaced", p, dict(det, literal_before=_b(lb), literal_after=_b(la))))
            # recorded mtime: only observable when nothing was placed inside afterwards
            if P not in parents and not any(x.startswith(P + "/") and x not in before for x in after):
                stats["leaf_dir_mtime"] += 1
                if abs(a["mtime_ns"] - src["mtime_ns"]) > MTIME_TOL_NS:
                    out.append(("leaf-dir-mtime", p, det))
            continue
        exp = expected_new(src)
        if t == "dev":
            exp.pop("rdev", None)
        bad = matches(a, exp)
        if b is None:
            stats["created"] += 1
        else:
            stats["replaced"] += 1
        if bad:
            out.append((t + "-" + "+".join(bad), p, dict(det, bad=bad)))
    # hard-link groups of the source
    groups = {}
    for (p, t, L, P, st) in plan.entries:
        if t == "file" and P not in tainted:
            groups.setdefault(tuple(before[src_prefix + "/" + p]["ino"]), []).append((p, P))
    for ino, members in groups.items():
        if len(members) < 2:
            continue
        stats["hardlink_groups"] += 1
        inos = {tuple(after[P]["ino"]) for _, P in members if P in after}
        if len(inos) > 1:
            out.append(("hardlink-group-split", members[0][0], {"members": [m[0] for m in members],
                                                                 "distinct_inodes_after": len(inos)}))
    return out, stats
