"""C14 reference models (no pkgcore imports).

1. `leaves(ast, use)`: which leaves of a USE-conditional metadata AST survive under a USE set (PMS 8.2: `flag? ( )`
   groups are kept iff the flag is enabled, `!flag? ( )` iff disabled; 8.3.4: the `[flag?]`, `[!flag?]`, `[flag=]`,
   `[!flag=]` USE-dependency forms).  Used as a second, code-independent opinion on every attribute read.
2. `Trail`: what `rollback(point)` must restore, computed from *observations* only.
"""

GROUP_OPS = ("or", "xor", "most", "all")


def leaves(nodes, use):
    """Multiset (sorted list) of leaf texts that remain after USE evaluation."""
    out = []
    _leaves(nodes, use, out)
    return sorted(out)


def _leaves(nodes, use, out):
    for n in nodes:
        k = n[0]
        if k == "leaf":
            out.append(leaf_name(n[1]))
        elif k == "tleaf":
            base, flag, form = n[1], n[2], n[3]
            on = flag in use
            if form == "?":
                out.append("%s[%s]" % (base, flag) if on else base)
            elif form == "!?":
                out.append(base if on else "%s[-%s]" % (base, flag))
            elif form == "=":
                out.append("%s[%s%s]" % (base, "" if on else "-", flag))
            else:
                out.append("%s[%s%s]" % (base, "-" if on else "", flag))
        elif k == "cond":
            if (n[1] in use) != bool(n[2]):
                _leaves(n[3], use, out)
        elif k in GROUP_OPS:
            _leaves(n[1], use, out)
        else:
            raise ValueError("bad node %r" % (n,))


def leaf_name(text):
    """SRC_URI leaves are identified by the file name they produce; everything else by its text."""
    if " -> " in text:
        return text.split(" -> ", 1)[1]
    if "://" in text:
        return text.rsplit("/", 1)[1]
    return text


def rendered_leaves(rendered):
    """Leaves of a rendered (dependency-syntax) value: every token that is not grouping syntax."""
    return sorted(t for t in rendered.split() if t not in ("||", "^^", "??", "(", ")"))


def depends_on(nodes):
    """Flags an AST's value can depend on."""
    out = set()
    for n in nodes:
        if n[0] == "tleaf":
            out.add(n[2])
        elif n[0] == "cond":
            out.add(n[1])
            out |= depends_on(n[3])
        elif n[0] in GROUP_OPS:
            out |= depends_on(n[1])
    return out


class Trail:
    """USE sets observed at change counts of the current transaction.

    `points[c]` is the USE set that was observed when changes_count() == c and that prefix of the change stack has not
    been popped since (tracked through the lowest rollback point seen during each step)."""

    def __init__(self, count, use):
        self.points = {count: frozenset(use)}

    def after_step(self, low, count, use):
        for c in [c for c in self.points if c > low]:
            del self.points[c]
        self.points[count] = frozenset(use)

    def committed(self, count, use):
        self.points = {count: frozenset(use)}

    def known(self):
        return sorted(self.points)
