"""Reference model for C21 (config protection), written from the property statement.

    Merging never overwrites an existing file under CONFIG_PROTECT (and not under CONFIG_PROTECT_MASK or
    COLLISION_IGNORE) whose content differs from the incoming file; the incoming file is written as
    ._cfgNNNN_<name> beside it, reusing the number of an identical pending update or else exceeding every existing
    number, while the recorded contents keep the real name.  Unmerging never removes such a protected file whose
    content differs from what the package recorded.

Settings are the structured values the scenario generator wrote into <root>/etc/env.d (paths relative to the
root the engine works on, i.e. without the offset).
"""

import fnmatch
import hashlib
import posixpath
import re

IDENT = ("type", "mode", "uid", "gid", "size", "sha", "target")


def ident(e):
    return None if e is None else tuple(e.get(f) for f in IDENT)


def sha(text):
    return hashlib.sha256(text.encode("utf-8")).hexdigest()


def _norm(d):
    return posixpath.normpath(d).rstrip("/")


def under(path, d):
    d = _norm(d)
    return path.startswith(d + "/")


def ignored(path, patterns, live_dirs):
    """COLLISION_IGNORE: fnmatch globs; an entry naming an existing directory (or ending in /*) covers its subtree."""
    for pat in patterns:
        if pat.endswith("/*"):
            if under(path, pat[:-2]):
                return True
            continue
        if _norm(pat).lstrip("/") in live_dirs:
            if under(path, pat):
                return True
            continue
        if fnmatch.fnmatchcase(path, pat):
            return True
    return False


def protected(path, cfg, live_dirs, extras=True):
    """True / False / None (None = the statement does not decide)."""
    base = posixpath.basename(path)
    if base == ".keep" or base.startswith(".keep_"):
        return None
    prot = list(cfg.get("protect", ()))
    mask = list(cfg.get("mask", ()))
    if extras:
        prot += list(cfg.get("extra_protects", ()))
        mask += list(cfg.get("extra_disables", ()))
    is_prot = any(under(path, d) for d in prot)
    if not is_prot:
        if under(path, "/etc"):
            return None  # pkgcore always adds /etc; the statement only speaks of CONFIG_PROTECT
        if not extras and any(under(path, d) for d in cfg.get("extra_protects", ())):
            return None  # uninstall trigger cannot be given the extra settings
        return False
    if any(under(path, d) for d in mask):
        return False
    if not extras and any(under(path, d) for d in cfg.get("extra_disables", ())):
        return None
    if ignored(path, cfg.get("ignore", ()), live_dirs):
        return False
    return True


_CFG = re.compile(r"^\._cfg(\d{4,})_(.+)$")


def pending_updates(snapshot, rel):
    """{number: relpath} of well-formed pending updates ._cfgNNNN_<name> beside `rel` (regular files)."""
    d, name = posixpath.split(rel)
    out = {}
    prefix = d + "/" if d else ""
    for p, e in snapshot.items():
        if not p.startswith(prefix) or "/" in p[len(prefix):]:
            continue
        m = _CFG.match(p[len(prefix):])
        if m and m.group(2) == name and e["type"] == "file":
            out.setdefault(int(m.group(1)), p)
    return out


def judge_incoming(rel, incoming_sha, before, after, merged):
    """Oracle for one incoming regular file over an existing, protected, differing regular file.
    Returns [(rule, detail)]."""
    out = []
    b, a = before[rel], after.get(rel)
    if ident(a) != ident(b):
        out.append(("protected-file-overwritten", {"before": b, "after": a}))
    pend_b = pending_updates(before, rel)
    pend_a = pending_updates(after, rel)
    identical = sorted(n for n, p in pend_b.items() if before[p].get("sha") == incoming_sha)
    created = sorted(n for n, p in pend_a.items() if p not in before)
    info = {"pending_before": sorted(pend_b), "identical_pending": identical, "created": created}
    if not out:
        if identical:
            if created:
                out.append(("identical-pending-not-reused", info))
            elif not any(after.get(pend_b[n], {}).get("sha") == incoming_sha for n in identical):
                out.append(("identical-pending-lost", info))
        else:
            if not created:
                out.append(("no-cfg-update-written", info))
            else:
                if len(created) > 1:
                    out.append(("several-cfg-updates-written", info))
                n = created[0]
                if pend_b and n <= max(pend_b):
                    out.append(("cfg-number-not-above-existing", info))
                if after[pend_a[n]].get("sha") != incoming_sha:
                    out.append(("cfg-update-wrong-content", info))
        for n, p in pend_b.items():
            if n in identical:
                continue
            if ident(after.get(p)) != ident(before[p]):
                out.append(("pending-update-clobbered", dict(info, clobbered=p)))
    if merged is not None:
        locs = {m[0]: m[1] for m in merged}
        d, name = posixpath.split(rel)
        bad = [loc for loc in locs if posixpath.dirname(loc) == "/" + d and _CFG.match(posixpath.basename(loc))
               and _CFG.match(posixpath.basename(loc)).group(2) == name]
        if locs.get("/" + rel) != "f" or bad:
            out.append(("recorded-contents-name", {"recorded_real": locs.get("/" + rel), "recorded_cfg": bad}))
    return out, info
