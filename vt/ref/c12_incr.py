"""Reference model for C12: incremental token streams, written from the property statement.

    fold(tokens, prior)                     left-to-right expansion of a USE/FEATURES-like stream
    fold_license(tokens, licenses, groups)  left-to-right expansion of an ACCEPT_LICENSE-like stream
    apply_condensed(C, prior)               how a condensed *set* of tokens is consumed: negatives (incl. -*) first,
                                            then positives (order inside a set cannot matter)

Shares no code with pkgcore.
"""


class Reject(Exception):
    """The stream contains an incomplete negation and must be rejected."""


def fold(tokens, prior=()):
    s = set(prior)
    for t in tokens:
        if t == "-":
            raise Reject("-")
        if t == "-*":
            s.clear()
        elif t.startswith("-"):
            s.discard(t[1:])
        else:
            s.add(t)
    return s


def first_incomplete(tokens, license=False):
    """Index of the first incomplete negation / group token, or None."""
    for i, t in enumerate(tokens):
        if t == "-" or (license and t in ("-@", "@")):
            return i
    return None


def fold_license(tokens, licenses, groups):
    """groups: name -> iterable of licenses, already flattened.  An unknown group contributes nothing."""
    s = set()
    for t in tokens:
        if t in ("-", "-@", "@"):
            raise Reject(t)
        if t == "-*":
            s.clear()
        elif t.startswith("-@"):
            s.difference_update(groups.get(t[2:], ()))
        elif t.startswith("-"):
            s.discard(t[1:])
        elif t.startswith("@"):
            s.update(groups.get(t[1:], ()))
        elif t == "*":
            s.update(licenses)
        else:
            s.add(t)
    return s


def apply_condensed(cset, prior=()):
    s = set(prior)
    cset = set(cset)
    if "-*" in cset:
        s.clear()
    for t in cset:
        if t != "-*" and t.startswith("-"):
            s.discard(t[1:])
    for t in cset:
        if not t.startswith("-"):
            s.add(t)
    return s


def condensed_is_consistent(cset):
    """A condensed set must not contain both x and -x (its meaning would depend on iteration order).
    "-*" is the reset marker, not the negation of a token "*"."""
    cset = set(cset)
    return not any(("-" + t) in cset for t in cset if not t.startswith("-") and t != "*")


def flatten_groups(raw):
    """raw: name -> list of tokens (licenses or @refs).  Transitive expansion; unknown refs contribute nothing."""
    out = {}

    def go(name, stack):
        if name in out:
            return out[name]
        res = set()
        for t in raw.get(name, ()):
            if t.startswith("@"):
                ref = t[1:]
                if ref in raw and ref not in stack:
                    res |= go(ref, stack | {ref})
            else:
                res.add(t)
        if len(stack) == 1:
            out[name] = res
        return res

    for k in raw:
        go(k, frozenset([k]))
    return out


def condense(tokens):
    """Classifier helper (not part of the oracle): the un-finalized token SET of a stream -- last mention of every flag,
    "-*" kept as a marker, everything before the last "-*" dropped."""
    s = set()
    for t in tokens:
        if t == "-*":
            s.clear()
            s.add(t)
        elif t.startswith("-"):
            s.discard(t[1:])
            s.add(t)
        else:
            s.discard("-" + t)
            s.add(t)
    return s
