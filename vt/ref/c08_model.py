"""C08 helpers that do not touch pkgcore: multiset comparison and the structural analysis used to recognise the
recorded candidate-pruning mechanism.

"Polarity-blind pruning": before scanning, the repository narrows the (category, package) space using every
category/package value matcher it can collect from the query, reading each of them as a positive constraint.
A matcher is *misread* when the query does not use it positively:
  * its PackageRestriction has negate=True                       (leaf-negate)
  * it sits below a negated all-of/any-of node                    (negated-node)
  * it sits below an exactly-one-of / at-most-one-of node         (counting-node)
  * it sits below a negated / counting value-level node           (value-node)
  * the query itself is a *negated* exactly-one-of / at-most-one-of node: the root's negate flag is applied to the
    collected (non-exact) matchers wholesale, i.e. each of them is read as "must NOT match"  (negated-counting-root)
Matchers below a restriction.Negate wrapper are invisible to the collector and therefore never misread.
"""

from collections import Counter

from . import c06_prop as ref


def multiset_diff(impl, expected):
    ci, ce = Counter(impl), Counter(expected)
    missing = sorted((ce - ci).elements())
    extra = sorted((ci - ce).elements())
    return missing, extra


def _elementary(vspec, reason, attr, out):
    k = vspec["k"]
    if k in ref.VNODE_KINDS:
        r = reason
        if r is None and vspec["neg"]:
            r = "value-node"
        if r is None and k in ("vone", "vamo"):
            r = "value-node"
        for c in vspec["xs"]:
            _elementary(c, r, attr, out)
    elif k == "vconst":
        return  # iterates as empty when flattened: contributes no matcher at all
    elif reason is not None:
        # elementary matcher, or a restriction.Negate wrapper (collected as one opaque matcher)
        out.append((attr, vspec, reason))


def misread_matchers(spec, reason=None, out=None):
    """[(attr, elementary value spec, reason)] for the category/package matchers the query uses non-positively."""
    top = out is None
    out = [] if out is None else out
    k = spec["k"]
    if top and k in ("one", "amo") and spec["neg"]:
        for c in spec["xs"]:
            misread_matchers(c, "negated-counting-root", out)
        return [m for m in out if m[1]["k"] != "exact" or m[1]["neg"]]  # plain exact matchers are discarded
    if k in ("and", "or"):
        r = reason or ("negated-node" if spec["neg"] else None)
        for c in spec["xs"]:
            misread_matchers(c, r, out)
    elif k in ("one", "amo"):
        for c in spec["xs"]:
            misread_matchers(c, reason or "counting-node", out)
    elif k == "atom":
        if reason is not None:
            a = spec["s"].lstrip("<>=~")
            cat, rest = a.split("/", 1)
            out.append(("category", {"k": "exact", "s": cat, "neg": False}, reason))
            # (package name: everything before a trailing -<version>; enough to know it is an exact matcher)
            out.append(("package", {"k": "exact", "s": rest, "neg": False, "approx": True}, reason))
    elif k == "pr" and spec["attr"] in ("category", "package"):
        r = reason or ("leaf-negate" if spec["neg"] else None)
        if r is not None and spec["v"]["k"] not in ("exact", "glob", "re", "has"):
            out.append((spec["attr"], spec["v"], r))  # the value restriction as a whole is what gets collected
        _elementary(spec["v"], r, spec["attr"], out)
    return out


def rejects(matcher, cp):
    """Does the positive reading of one collected matcher reject this (category, package)?"""
    attr, vspec, _reason = matcher
    val = cp[0] if attr == "category" else cp[1]
    if _reason == "negated-counting-root":
        try:
            return bool(ref.eval_v(vspec, val))  # inverted reading: the pair is dropped where the matcher accepts
        except ref.Unspecified:
            return False
    if vspec.get("approx"):
        return not (vspec["s"] == val or vspec["s"].startswith(val + "-"))
    try:
        return not ref.eval_v(vspec, val)
    except ref.Unspecified:
        return False


def explained_by_polarity_blind_pruning(spec, missed_cps):
    """Every missed (category, package) is rejected by the positive reading of some misread matcher."""
    ms = misread_matchers(spec)
    if not ms or not missed_cps:
        return None
    reasons = set()
    for cp in missed_cps:
        hit = [m for m in ms if rejects(m, cp)]
        if not hit:
            return None
        reasons.update(m[2] for m in hit)
    return sorted(reasons)


def has_always_true_cp_value(spec):
    """The query contains a category/package PackageRestriction whose value matcher is (or contains) the constant
    "always true" matcher, reachable by the collector (not below a restriction.Negate wrapper)."""
    k = spec["k"]
    if k in ref.NODE_KINDS:
        return any(has_always_true_cp_value(c) for c in spec["xs"])
    if k == "pr" and spec["attr"] in ("category", "package"):
        def inside(v):
            if v["k"] == "vconst":
                return bool(v["val"])
            if v["k"] in ref.VNODE_KINDS:
                return any(inside(c) for c in v["xs"])
            return False
        return inside(spec["v"])
    return False
