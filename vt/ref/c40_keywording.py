"""Reference invariants for keywording / stabilization requests (property C40).

Written from the property statement; pure Python over JSON data, does not import pkgcore.

    repo    = {"arches": [known arch names], "pkgs": [{"cpv": "a/b-1", "name": "a/b", "ver": "1", "slot": "0",
                                                       "keywords": ["amd64", "~x86", "-ppc"], "live": bool}]}
    line    = {"spec": {"op": ""|"="|">="|..., "name": "a/b", "ver": "1"|"" , "glob": bool, "slot": ""|"1"},
               "written": ["amd64", " ~x86", "*", "^", "-"]}
    options = {"stable": bool, "cc_arches": [...], "only_new": bool, "filter_arch": [...], "allarches": bool}
    trace   = {"yields": [{"line": i, "cpv": "a/b-1", "keywords": [...]}],
               "exc": None | {"type": "PackageInvalid", "match_exception": bool, "pkgcore_exception": bool, "line": i}}

`check(...)` returns a list of (clause, detail-dict) for every clause of the statement the observed trace breaks.
Only upper bounds are checked ("names only ..."): yielding fewer arches is never a violation.
"""

ALL, SAME, NONE = "*", "^", "-"
SENTINELS = (ALL, SAME, NONE)


def is_prefix(arch):
    """Prefix keywords are spelled arch-platform (amd64-linux, x86-macos, *-fbsd)."""
    return "-" in arch


def spec_text(spec):
    s = spec["op"] + spec["name"]
    if spec["ver"]:
        s += "-" + spec["ver"]
    if spec.get("glob"):
        s += "*"
    if spec.get("slot"):
        s += ":" + spec["slot"]
    return s


def stabilization_can_act_on(spec):
    """A stabilization names one exact version: `=cat/pkg-ver`, nothing else."""
    return spec["op"] == "=" and not spec.get("glob") and not spec.get("slot")


def written_tokens(line):
    """Arch names written on the line (sentinels removed, ~ and whitespace stripped)."""
    toks = [w.strip().lstrip("~") for w in line["written"]]
    return [t for t in toks if t not in SENTINELS]


def has_sentinel(line, s):
    return s in [w.strip().lstrip("~") for w in line["written"]]


def pkg_by_cpv(repo, cpv):
    for p in repo["pkgs"]:
        if p["cpv"] == cpv:
            return p
    return None


def testing_here(pkg):
    return {k[1:] for k in pkg["keywords"] if k.startswith("~")}


def stable_on_another_version(repo, pkg):
    out = set()
    for q in repo["pkgs"]:
        if q["name"] == pkg["name"] and q["cpv"] != pkg["cpv"]:
            out.update(k for k in q["keywords"] if k and k[0] not in "~-")
    return out


def stabilization_candidates(repo, pkg):
    """Upper bound for what a stabilization may suggest for `pkg`."""
    return {a for a in testing_here(pkg) & stable_on_another_version(repo, pkg) if not is_prefix(a)}


def carried(pkg, arch, stable):
    """only-new: an arch the package already carries (stabilizing: already stable; keywording: stable or testing)."""
    kws = set(pkg["keywords"])
    return arch in kws or (not stable and "~" + arch in kws)


def check_suggestion(repo, pkg, stable, result):
    """Clauses on one suggested_keywords() answer."""
    out = []
    bad = sorted(a for a in result if is_prefix(a))
    if bad:
        out.append(("prefix-keyword-suggested", {"arches": bad}))
    if stable:
        extra = sorted(set(result) - (testing_here(pkg) & stable_on_another_version(repo, pkg)))
        if extra:
            out.append(("stable-suggestion-not-testing-here-and-stable-elsewhere",
                        {"arches": extra, "testing_here": sorted(testing_here(pkg)),
                         "stable_elsewhere": sorted(stable_on_another_version(repo, pkg))}))
    return out


def check(repo, lines, options, trace):
    known = set(repo["arches"])
    stable = bool(options["stable"])
    cc = list(options.get("cc_arches") or ())
    flt = list(options.get("filter_arch") or ())
    only_new = bool(options.get("only_new"))
    readd_active = bool(options.get("allarches")) and stable and bool(flt)
    out = []

    first_invalid = None
    if stable:
        for i, ln in enumerate(lines):
            if not stabilization_can_act_on(ln["spec"]):
                first_invalid = i
                break

    explicit_so_far = set(cc)
    seen_upto = -1
    for y in trace["yields"]:
        li = y["line"]
        for j in range(seen_upto + 1, min(li, len(lines) - 1) + 1):
            explicit_so_far.update(written_tokens(lines[j]))
        seen_upto = max(seen_upto, li)
        pkg = pkg_by_cpv(repo, y["cpv"])
        base = {"line": li, "cpv": y["cpv"], "keywords": y["keywords"]}
        if pkg is None:
            out.append(("yielded-package-not-in-repo", base))
            continue
        if first_invalid is not None and li >= first_invalid:
            out.append(("request-yielded-at-or-after-unusable-stabilization-spec",
                        dict(base, invalid_line=first_invalid, spec=spec_text(lines[first_invalid]["spec"]))))
        readd = stabilization_candidates(repo, pkg) if readd_active else set()
        raw_readd = (testing_here(pkg) & stable_on_another_version(repo, pkg)) if readd_active else set()
        line = lines[li] if 0 <= li < len(lines) else {"written": [], "spec": None}
        for a in y["keywords"]:
            d = dict(base, arch=a)
            if a not in known:
                origin = "other"
                if a in cc and a not in written_tokens(line):
                    origin = "cc_arches"
                elif a in raw_readd:
                    origin = "allarches-readd"
                out.append(("unknown-arch", dict(d, origin=origin)))
            if cc and a not in cc and a not in readd:
                out.append(("outside-cc-arches", d))
            if flt and a not in flt and a not in readd:
                out.append(("outside-filter-arch", d))
            if only_new and carried(pkg, a, stable):
                out.append(("only-new-names-carried-arch", dict(d, pkg_keywords=pkg["keywords"])))
            if has_sentinel(line, ALL) and not has_sentinel(line, SAME) and a not in explicit_so_far:
                # can only have come from this line's suggestion (or the all-arches re-add, covered above); with ^ on
                # the same line the arch may be an earlier line's suggestion, which the statement allows
                if is_prefix(a):
                    out.append(("prefix-keyword-suggested", d))
                if stable and a not in (testing_here(pkg) & stable_on_another_version(repo, pkg)):
                    out.append(("stable-suggestion-not-testing-here-and-stable-elsewhere", d))

    exc = trace.get("exc")
    if first_invalid is not None:
        d = {"invalid_line": first_invalid, "spec": spec_text(lines[first_invalid]["spec"]), "exc": exc}
        if exc is None:
            out.append(("unusable-stabilization-spec-accepted", d))
        elif exc.get("line") is not None and exc["line"] >= first_invalid and not exc.get("match_exception"):
            out.append(("unusable-stabilization-spec-not-rejected-as-request-error", d))
    return out


def applicable_clauses(repo, lines, options):
    """Which clauses this case can exercise at all (for non-triviality bookkeeping): names of the boundaries present."""
    feats = set()
    known = set(repo["arches"])
    stable = bool(options["stable"])
    cc = set(options.get("cc_arches") or ())
    flt = set(options.get("filter_arch") or ())
    names = {ln["spec"]["name"] for ln in lines}
    pkgs = [p for p in repo["pkgs"] if p["name"] in names]
    for ln in lines:
        toks = set(written_tokens(ln))
        if cc and toks - cc:
            feats.add("cc-narrows")
        if cc and not toks and not any(has_sentinel(ln, s) for s in SENTINELS):
            feats.add("cc-inherited")
        if flt and toks - flt:
            feats.add("filter-narrows")
        if options.get("only_new") and any(carried(p, a, stable) for p in pkgs if p["name"] == ln["spec"]["name"]
                                           for a in toks):
            feats.add("only-new-narrows")
        if has_sentinel(ln, ALL):
            for p in pkgs:
                if p["name"] != ln["spec"]["name"]:
                    continue
                others = [q for q in repo["pkgs"] if q["name"] == p["name"] and q["cpv"] != p["cpv"]]
                kws = {k.lstrip("~") for q in others for k in q["keywords"] if not k.startswith("-")}
                if any(is_prefix(k) for k in kws):
                    feats.add("star-with-prefix-keyword-around")
                if stable and stable_on_another_version(repo, p) - testing_here(p):
                    feats.add("star-stable-elsewhere-not-testing-here")
                if kws - known:
                    feats.add("star-with-unknown-keyword-around")
        if stable and not stabilization_can_act_on(ln["spec"]):
            feats.add("unusable-stabilization-spec")
    if options.get("allarches") and stable and flt:
        feats.add("allarches-readd")
    if cc - known:
        feats.add("cc-has-unknown-arch")
    return feats
