"""Sequential reference model for profiles/updates (C42), written from the property statement / PMS 4.4.4.

Nothing from pkgcore is imported here.

Input: {filename: text}.  Output: {qualified package name: [commands]} where a command is
("move", "cat/src", "cat/trg") or ("slotmove", "<spec>:<slot1>", "<slot2>").

Semantics (statement C42):
* update files are the files named [1-4]Q-YYYY; they are read in chronological order (year, then quarter), lines top
  to bottom; every other file is ignored;
* a malformed line is skipped: blank line, unknown directive, wrong number of fields, versioned operand of a move,
  slotted operand of a slotmove, operand that is not a package dependency specification at all, invalid slot name;
* a move whose source name has already been moved (by an earlier accepted move) is redundant and ignored;
* the commands for a name are obtained by following the package that carries this name through the accepted commands
  from the first line to the last: a command applies when its source name is the package's current name; a move
  changes the current name to its target.

Two points the statement leaves open are parameters, and the oracle accepts every combination:
* `slotmove_on_moved`: a slotmove whose name has already been moved away is "ignore"d (like a redundant move) or
  "apply"-ed to a package that currently carries that name (only differs after a cycle / a move onto a moved name);
* `ws_lines`: a line with leading/trailing white space is "process"ed after stripping or "skip"ped as malformed.
"""

import re

UPDATE_FILE_RE = re.compile(r"^([1-4])Q-(\d{4})$")

_CAT = r"[A-Za-z0-9_][A-Za-z0-9+_.-]*"
# a package name must not end in a hyphen followed by something that looks like a version
_PN = r"[A-Za-z0-9_][A-Za-z0-9+_]*(?:-(?:[A-Za-z+_][A-Za-z0-9+_]*|[0-9]+[A-Za-z+_][A-Za-z0-9+_]*))*"
_VER = r"[0-9]+(?:\.[0-9]+)*[a-z]?(?:_(?:alpha|beta|pre|rc|p)[0-9]*)*(?:-r[0-9]+)?"
_SLOT = r"[A-Za-z0-9_][A-Za-z0-9+_.-]*"
PLAIN_RE = re.compile(r"^(%s)/(%s)$" % (_CAT, _PN))
VERSIONED_RE = re.compile(r"^(?:>=|<=|=|<|>|~)(%s)/(%s)-%s$" % (_CAT, _PN, _VER))
SLOTTED_RE = re.compile(r"^(?:(?:>=|<=|=|<|>|~)(%s)/(%s)-%s|(%s)/(%s)):%s$" % (_CAT, _PN, _VER, _CAT, _PN, _SLOT))
SLOT_RE = re.compile(r"^%s$" % _SLOT)


def chrono_key(fn):
    m = UPDATE_FILE_RE.match(fn)
    return (int(m.group(2)), int(m.group(1)))


def update_files(names):
    return [n for n in names if UPDATE_FILE_RE.match(n)]


def file_order(names, order="chrono"):
    names = update_files(names)
    if order == "chrono":
        return sorted(names, key=chrono_key)
    if order == "lex":
        return sorted(names)
    raise ValueError(order)


def classify_spec(tok):
    """-> ("plain"|"versioned"|"slotted"|"invalid", key or None)"""
    m = PLAIN_RE.match(tok)
    if m:
        return "plain", tok
    m = VERSIONED_RE.match(tok)
    if m and tok.startswith("~") and re.search(r"-r[0-9]+$", tok):
        return "invalid", None          # PMS: the ~ operator takes no revision
    if m:
        return "versioned", "%s/%s" % (m.group(1), m.group(2))
    m = SLOTTED_RE.match(tok)
    if m:
        return "slotted", None
    return "invalid", None


def parse_line(raw):
    """-> (status, event) ; status in ok / blank / ws-ok (valid but has outer white space) / malformed / invalid-atom.

    invalid-atom lines are malformed lines too; they are distinguished because the implementation is known to treat
    them differently from the other malformed lines."""
    line = raw.strip()
    if not line:
        return "blank", None
    ws = line != raw
    t = line.split()
    ev = None
    if t[0] == "move":
        if len(t) != 3:
            return "malformed", None
        (k1, key1), (k2, key2) = classify_spec(t[1]), classify_spec(t[2])
        if "invalid" in (k1, k2):
            return "invalid-atom", None
        if k1 != "plain" or k2 != "plain":
            # versioned operands are what the statement's "malformed" covers; slotted operands of a move are
            # not something the generator emits (unspecified) -- treat as malformed
            return "malformed", None
        ev = ("move", key1, key2)
    elif t[0] == "slotmove":
        if len(t) != 4:
            return "malformed", None
        k1, key1 = classify_spec(t[1])
        if k1 == "invalid":
            return "invalid-atom", None
        if k1 == "slotted":
            return "malformed", None
        if not SLOT_RE.match(t[2]) or not SLOT_RE.match(t[3]):
            return "invalid-atom", None
        ev = ("slotmove", key1, "%s:%s" % (t[1], t[2]), t[3])
    else:
        return "malformed", None
    return ("ws-ok" if ws else "ok"), ev


def split_lines(text):
    lines = text.split("\n")
    if lines and lines[-1] == "":
        lines.pop()
    return lines


def events(files, order="chrono", ws_lines="process"):
    out = []
    for fn in file_order(files, order):
        for raw in split_lines(files[fn]):
            st, ev = parse_line(raw)
            if st == "ok" or (st == "ws-ok" and ws_lines == "process"):
                out.append(ev)
    return out


def has_status(files, status):
    return any(parse_line(raw)[0] == status for fn in update_files(files) for raw in split_lines(files[fn]))


def strip_status(files, status):
    """Same files without the lines of that status."""
    out = {}
    for fn, text in files.items():
        if not UPDATE_FILE_RE.match(fn):
            out[fn] = text
            continue
        keep = [raw for raw in split_lines(text) if parse_line(raw)[0] != status]
        out[fn] = "".join(l + "\n" for l in keep)
    return out


def expected(files, order="chrono", slotmove_on_moved="ignore", ws_lines="process"):
    evs = events(files, order, ws_lines)
    # pass 1: which commands are accepted (redundancy is a property of the name, not of a tracked package)
    moved = set()
    accepted = []
    for ev in evs:
        if ev[0] == "move":
            if ev[1] in moved:
                continue
            moved.add(ev[1])
            accepted.append(ev)
        else:
            if ev[1] in moved and slotmove_on_moved == "ignore":
                continue
            accepted.append(ev)
    # pass 2: follow each name
    names = []
    for ev in evs:
        for n in ((ev[1], ev[2]) if ev[0] == "move" else (ev[1],)):
            if n not in names:
                names.append(n)
    res = {}
    for n in names:
        cur = n
        chain = []
        for ev in accepted:
            if ev[1] != cur:
                continue
            if ev[0] == "move":
                chain.append(("move", ev[1], ev[2]))
                cur = ev[2]
            else:
                chain.append(("slotmove", ev[2], ev[3]))
        if chain:
            res[n] = chain
    return res


def variants(files, order="chrono"):
    """All readings the statement allows; list of (params, mapping), de-duplicated."""
    out = []
    for smm in ("ignore", "apply"):
        for ws in ("process", "skip"):
            m = expected(files, order, smm, ws)
            if all(m != o for _p, o in out):
                out.append(({"slotmove_on_moved": smm, "ws_lines": ws}, m))
    return out


def features(files):
    """What the case exercises (for non-triviality accounting)."""
    evs = events(files)
    moved = {}
    f = set()
    targets = set()
    for ev in evs:
        if ev[0] == "move":
            if ev[1] in moved:
                f.add("redundant-move")
                continue
            if ev[1] in targets:
                f.add("chain")          # a name that was a target moves on
            if ev[2] in moved:
                f.add("move-onto-moved-name")
            moved[ev[1]] = ev[2]
            targets.add(ev[2])
        else:
            if ev[1] in moved:
                f.add("slotmove-on-moved-name")
            elif ev[1] in targets:
                f.add("command-after-target")
    # cycle: following moved[] from a name returns to it
    for n in moved:
        cur, seen = n, set()
        while cur in moved and cur not in seen:
            seen.add(cur)
            cur = moved[cur]
        if cur in seen:
            f.add("cycle")
            break
    names = update_files(files)
    if file_order(names, "chrono") != file_order(names, "lex"):
        f.add("chrono!=lex")
    for st in ("malformed", "invalid-atom", "ws-ok", "blank"):
        if has_status(files, st):
            f.add("line:" + st)
    if any(not UPDATE_FILE_RE.match(n) for n in files):
        f.add("badly-named-file")
    return f
