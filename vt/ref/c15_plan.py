"""Reference judgement of a resolver plan (C15) and of the choice policy (C16).

Written from the property statements and PMS (dependency specification semantics, version
comparison from vt/ref/pms_version.py).  Works on the generator's data model
(vt/gen/c15_problems.py) only; never imports pkgcore.

Package identity here is ``(name, ver, slot)``; a *member* additionally carries where it comes from
(``"vdb"`` = installed instance kept by the plan, ``"src"`` = merged by the plan).
"""

from . import pms_version as pv

DEP_CLASSES = ["DEPEND", "BDEPEND", "RDEPEND", "IDEPEND", "PDEPEND"]


def atom_matches(a, pkg):
    """Does atomspec `a` (ignoring its blocker prefix) match pkg = {"name","ver","slot"}?"""
    if a["name"] != pkg["name"]:
        return False
    if a.get("slot") is not None and a["slot"] != pkg["slot"]:
        return False
    op = a.get("op") or ""
    if not op:
        return True
    pver, prev = pv.split_fullver(pkg["ver"])
    aver, arev = pv.split_fullver(a["ver"])
    if op == "~":
        return pv.ver_cmp(pver, "", aver, "") == 0
    c = pv.ver_cmp(pver, prev, aver, arev)
    return pv.OPS[op](c)


def ident(p):
    return (p["name"], p["ver"], p["slot"])


def final_members(problem, ops):
    """Apply the reported operations to the installed set.

    ops: [{"desc": "add"|"replace"|"remove", "pkg": {"name","ver","slot","livefs"}, "old": {...}|None}]
    Returns (members, merged, problems, before) where members = [{"name","ver","slot","origin"}],
    merged = the pkgspecs (from problem["source"]) the plan merges, problems = list of
    structural complaints about the op list itself (unknown packages, double removal...),
    before = {ident: members present immediately before that package's merge operation}."""
    complaints = []
    before = {}

    def snapshot():
        ms = [dict(name=s["name"], ver=s["ver"], slot=s["slot"], origin="vdb") for s in present_vdb.values()]
        ms += [dict(name=s["name"], ver=s["ver"], slot=s["slot"], origin="src") for s in added.values()]
        return ms

    inst = {ident(s): s for s in problem["installed"]}
    src = {ident(s): s for s in problem["source"]}
    present_vdb = dict(inst)       # installed packages still present
    added = {}                      # merged source packages
    for i, op in enumerate(ops):
        p = op["pkg"]
        pid = ident(p)
        if op["desc"] in ("add", "replace") and not p["livefs"] and pid not in before:
            before[pid] = snapshot()
        if op["desc"] == "add":
            if p["livefs"]:
                if pid not in inst:
                    complaints.append("op %d keeps a package the installed database does not have: %r" % (i, pid))
                elif pid not in present_vdb:
                    complaints.append("op %d keeps an installed package an earlier op removed: %r" % (i, pid))
            else:
                if pid not in src:
                    complaints.append("op %d merges a package the source repository does not have: %r" % (i, pid))
                elif pid in added:
                    complaints.append("op %d merges %r a second time" % (i, pid))
                else:
                    added[pid] = src[pid]
        elif op["desc"] == "replace":
            old = op["old"]
            oid = ident(old) if old else None
            if old is None:
                complaints.append("op %d is a replace without an old package" % i)
            elif old["livefs"]:
                if oid not in present_vdb:
                    complaints.append("op %d replaces %r which is not (any longer) installed" % (i, oid))
                else:
                    del present_vdb[oid]
            else:
                if oid not in added:
                    complaints.append("op %d replaces %r which the plan did not merge" % (i, oid))
                else:
                    del added[oid]
            if p["livefs"]:
                complaints.append("op %d replaces with an installed package %r" % (i, pid))
            elif pid not in src:
                complaints.append("op %d merges a package the source repository does not have: %r" % (i, pid))
            elif pid in added:
                complaints.append("op %d merges %r a second time" % (i, pid))
            else:
                added[pid] = src[pid]
        elif op["desc"] == "remove":
            if p["livefs"]:
                if pid not in present_vdb:
                    complaints.append("op %d removes %r which is not (any longer) installed" % (i, pid))
                else:
                    del present_vdb[pid]
            else:
                if pid not in added:
                    complaints.append("op %d removes %r which the plan did not merge" % (i, pid))
                else:
                    del added[pid]
        else:
            complaints.append("op %d has unknown kind %r" % (i, op["desc"]))
    return snapshot(), list(added.values()), complaints, before


def alt_satisfied(alt, members, owner):
    if "all" in alt:
        return all(atom_satisfied(a, members, owner) for a in alt["all"])
    return atom_satisfied(alt, members, owner)


def atom_satisfied(a, members, owner):
    if a.get("blk"):
        return not any(atom_matches(a, m) for m in members if not _same(m, owner))
    return any(atom_matches(a, m) for m in members)


def _same(m, owner):
    return owner is not None and ident(m) == ident(owner) and m.get("origin") == "src"


def clause_satisfied(c, members, owner):
    if "any" in c:
        return any(alt_satisfied(alt, members, owner) for alt in c["any"])
    return atom_satisfied(c, members, owner)


BUILD_TIME = ("DEPEND", "BDEPEND")


def judge_plan(problem, ops, stats=None):
    """Returns a list of violations: [{"rule": ..., ...}] (empty = the plan is valid).

    stats (optional dict) receives counts: "checks" (oracle evaluations made) and
    "buildtime_before_only" (build-time clauses satisfied by the packages present immediately before
    the owner is merged but not by the final set -- PMS only asks for the former, the property
    statement speaks about the final set: left unjudged)."""
    out = []
    if stats is None:
        stats = {}
    stats.setdefault("checks", 0)
    stats.setdefault("buildtime_before_only", 0)
    members, merged, complaints, before = final_members(problem, ops)
    for c in complaints:
        out.append({"rule": "malformed-ops", "what": c})
    # (1) targets
    for t in problem["targets"]:
        stats["checks"] += 1
        if not any(atom_matches(t, m) for m in members):
            out.append({"rule": "target-unmatched", "target": t})
    # (2) dependency closure of merged packages; (4) blockers of merged packages
    for spec in merged:
        for cls in DEP_CLASSES:
            for c in spec["deps"].get(cls, ()):
                stats["checks"] += 1
                if "any" not in c and c.get("blk"):
                    hit = [m for m in members if atom_matches(c, m) and not _same(m, spec)]
                    if hit:
                        out.append({"rule": "blocked-member", "dep_class": cls, "owner": ident(spec),
                                    "blocker": c, "blocked": [ident(m) + (m["origin"],) for m in hit]})
                elif not clause_satisfied(c, members, spec):
                    if cls in BUILD_TIME and clause_satisfied(c, before.get(ident(spec), []), spec):
                        stats["buildtime_before_only"] += 1
                        continue
                    out.append({"rule": "unsatisfied-" + cls, "dep_class": cls, "owner": ident(spec), "clause": c})
    # (3) at most one member per (name, slot)
    seen = {}
    for m in members:
        seen.setdefault((m["name"], m["slot"]), []).append(m)
    for k, ms in sorted(seen.items()):
        stats["checks"] += 1
        if len(ms) > 1:
            out.append({"rule": "slot-collision", "name_slot": list(k),
                        "members": [ident(m) + (m["origin"],) for m in ms]})
    return out


# ---------------------------------------------------------------------------------------------- C16

def highest_matching(problem, target, include_installed=True):
    """The highest version (PMS order) any repository offers for the target, as a list of the
    candidates holding that version: [("src"|"vdb", pkgspec), ...]; [] when nothing matches."""
    cands = [("src", s) for s in problem["source"] if atom_matches(target, s)]
    if include_installed:
        cands += [("vdb", s) for s in problem["installed"] if atom_matches(target, s)]
    if not cands:
        return []
    best = cands[0]
    for c in cands[1:]:
        if pv.cmp_fullver(c[1]["ver"], best[1]["ver"]) > 0:
            best = c
    return [c for c in cands if pv.cmp_fullver(c[1]["ver"], best[1]["ver"]) == 0]


def restrict_to(problem, name, keep_ver):
    """Copy of the problem whose *source* repository offers only version keep_ver of `name`."""
    return {
        "source": [s for s in problem["source"] if s["name"] != name or pv.cmp_fullver(s["ver"], keep_ver) == 0],
        "installed": list(problem["installed"]),
        "targets": list(problem["targets"]),
    }


def mentions_name(problem, name):
    """Does any dependency anywhere in the problem mention `name` (used to keep the C16 policy oracle
    to cases where the choice for that name is made by the target alone)?"""
    for s in problem["source"] + problem["installed"]:
        for cls in DEP_CLASSES:
            for c in s["deps"].get(cls, ()):
                alts = c["any"] if "any" in c else [c]
                for alt in alts:
                    for a in (alt["all"] if "all" in alt else [alt]):
                        if a["name"] == name:
                            return True
    return False
