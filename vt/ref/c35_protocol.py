"""Specification automaton of the Python <-> ebuild-daemon line protocol (DESIGN.md appendix C).

check(events) replays one recorded session (the list of (kind, payload) produced by vt.ebd.Trace:
kind 'W' = text Python wrote, 'R' = a line Python read, 'RB' = a counted blob Python read) and
returns a list of anomalies [(index, code, detail)].  Written from the bash sources' alphabet
(what the daemon emits / consumes) -- it does not import pkgcore.
"""

import re
from collections import deque

READONLY_RE = re.compile(r"^[A-Za-z_][A-Za-z0-9_]*( [A-Za-z_][A-Za-z0-9_]*)*$")
HELPER_RE = re.compile(r"^[a-z_][a-z0-9_.]*$")
REPLY_HELPER_RE = re.compile(r"^-?\d+(\x07[^\n\r]*)?$")

INIT, IDLE, METADATA, PHASE_SETUP, PHASE_RUN, END = "INIT", "IDLE", "METADATA", "PHASE_SETUP", "PHASE_RUN", "END"


def _text(p):
    return p.decode("utf-8", "replace") if isinstance(p, (bytes, bytearray)) else p


class Checker:
    def __init__(self):
        self.state = INIT
        self.pending = deque()      # expected daemon replies, FIFO: (label, predicate)
        self.anomalies = []
        self.daemon_req = None      # outstanding daemon-initiated request awaiting Python's answer
        self.helper_lines = 0
        self.expect_blob = None     # bytes count of a blob Python is about to read
        self.dying = False
        self.counts = {}
        self.desync_detected = False

    def bad(self, i, code, detail):
        self.anomalies.append((i, code, str(detail)[:300]))

    def c(self, k):
        self.counts[k] = self.counts.get(k, 0) + 1

    def expect(self, label, pred):
        self.pending.append((label, pred))

    # ---------------------------------------------------------------- python -> daemon
    def on_write(self, i, text):
        if self.state == END:
            # writes after the end (e.g. shutdown of a dead daemon) are harmless
            return
        head, nl, rest = text.partition("\n")
        words = head.split(" ")
        cmd = words[0]
        if self.desync_detected and cmd not in ("alive", "shutdown_daemon"):
            self.bad(i, "processor-reused-after-failed-liveness-probe", repr(head[:80]))
        # answers to daemon-initiated requests
        if self.daemon_req in ("inherit", "bashrcs"):
            if cmd in ("path", "transfer") and self.daemon_req_stage == 0:
                self.daemon_req_stage = 1
                if nl and rest:
                    self.daemon_req_stage = 0
                    self._inherit_answered()
                return
            if self.daemon_req_stage == 1:
                self.daemon_req_stage = 0
                self._inherit_answered()
                return
            if self.daemon_req == "bashrcs" and cmd == "end_request":
                self.daemon_req = None
                return
        if self.daemon_req == "helper":
            self.c("helper_replies")
            line = text.rstrip("\n")
            if "\n" in line or "\r" in line or not REPLY_HELPER_RE.match(line):
                self.bad(i, "helper-reply-malformed", repr(text))
            self.daemon_req = None
            return
        if self.daemon_req == "sandbox_summary":
            if head == "end_sandbox_summary":
                self.daemon_req = None
            return
        self.c("req:" + cmd)
        if cmd == "ebd?":
            self.expect("ebd!", lambda l: l == "ebd!")
        elif cmd == "no_sandbox":
            self.expect("readonly-vars", lambda l: READONLY_RE.match(l) is not None)
            self.after_handshake = True
        elif cmd == "sandbox_log?":
            self.expect("sandbox-log-path", lambda l: l.startswith("/"))
            self.expect("readonly-vars", lambda l: READONLY_RE.match(l) is not None)
        elif cmd == "alive":
            self.expect("yep!", lambda l: l == "yep!")
        elif cmd == "preload_eclass":
            self.expect("preload_eclass succeeded|failed", lambda l: l in ("preload_eclass succeeded", "preload_eclass failed"))
        elif cmd == "clear_preloaded_eclasses":
            self.expect("clear_preloaded_eclasses succeeded", lambda l: l == "clear_preloaded_eclasses succeeded")
        elif cmd in ("set_metadata_path", "gen_metadata", "gen_ebuild_env"):
            self._counted(i, words, rest, nl)
            if cmd == "set_metadata_path":
                self.expect("metadata_path_received", lambda l: l == "metadata_path_received")
            else:
                if self.state != IDLE:
                    self.bad(i, "request-in-wrong-state", "%s in %s" % (cmd, self.state))
                self.state = METADATA
        elif cmd == "process_ebuild":
            if self.state != IDLE:
                self.bad(i, "request-in-wrong-state", "%s in %s" % (cmd, self.state))
            self.state = PHASE_SETUP
        elif cmd == "start_receiving_env":
            if self.state != PHASE_SETUP:
                self.bad(i, "request-in-wrong-state", "%s in %s" % (head, self.state))
            if len(words) >= 3 and words[1] == "bytes":
                self._counted(i, words, rest, nl)
            self.expect("env_received|env_receiving_failed", lambda l: l in ("env_received", "env_receiving_failed"))
        elif cmd == "set_sandbox_state":
            pass
        elif cmd == "logging":
            self.expect("logging_ack", lambda l: l == "logging_ack")
        elif cmd == "start_processing":
            if self.state != PHASE_SETUP:
                self.bad(i, "request-in-wrong-state", "%s in %s" % (cmd, self.state))
            if self.pending:
                self.bad(i, "start_processing-with-unanswered-requests", [p[0] for p in self.pending])
            self.state = PHASE_RUN
        elif cmd == "shutdown_daemon":
            self.state = END
        else:
            self.bad(i, "python-sent-unknown-command", repr(head[:80]))

    def _counted(self, i, words, rest, nl):
        try:
            n = int(words[-1])
        except ValueError:
            self.bad(i, "length-not-integer", words)
            return
        self.c("counted_payloads")
        actual = len(rest.encode("utf-8"))
        if not nl or actual != n:
            self.bad(i, "announced-length-differs-from-bytes", "announced=%d bytes=%d chars=%d" % (n, actual, len(rest)))

    def _inherit_answered(self):
        if self.daemon_req == "inherit":
            self.daemon_req = None
        elif self.daemon_req == "bashrcs":
            # daemon replies 'next' (or 'failed') after sourcing
            self.expect("next|failed", lambda l: l in ("next", "failed"))

    # ---------------------------------------------------------------- daemon -> python
    def on_read(self, i, line):
        if line == "":
            # EOF: daemon side closed
            self.state = END
            return
        line = line.rstrip("\n")
        if self.state == END and not self.dying:
            return
        first = line.split(" ", 1)[0]
        if self.dying:
            if line.strip() == "dead":
                self.dying = False
                self.state = END
            return
        if self.helper_lines:
            self.helper_lines -= 1
            if not self.helper_lines:
                self.daemon_req = "helper"
            return
        if first == "dying":
            self.c("evt:dying")
            self.dying = True
            return
        if first in ("SIGINT", "SIGTERM") and line == first:
            self.c("evt:" + first)
            self.state = END
            return
        if self.pending:
            label, pred = self.pending.popleft()
            self.c("replies_matched")
            if not pred(line):
                if label == "yep!":
                    # a failed liveness probe: Python sees the mismatch and must give the processor up
                    self.desync_detected = True
                    self.c("failed_liveness_probes")
                    self.bad(i, "liveness-probe-got-other-line", "expected yep!, got %r" % (line[:120],))
                    return
                self.bad(i, "reply-does-not-match-request", "expected %s, got %r" % (label, line[:120]))
            elif line == "env_receiving_failed":
                pass
            return
        if self.state in (METADATA, PHASE_RUN):
            self.c("evt:" + first)
            if first == "phases":
                rest = line.split(" ", 2)
                if len(rest) < 2 or rest[1] not in ("succeeded", "failed"):
                    self.bad(i, "malformed-phases-line", repr(line[:120]))
                self.state = IDLE
                self.daemon_req = None
            elif first == "request_inherit":
                self.daemon_req, self.daemon_req_stage = "inherit", 0
            elif first == "request_bashrcs":
                self.daemon_req, self.daemon_req_stage = "bashrcs", 0
            elif first == "key":
                if "=" not in line:
                    self.bad(i, "malformed-key-line", repr(line[:120]))
            elif first == "receive_env":
                try:
                    self.expect_blob = int(line.split()[1])
                except (IndexError, ValueError):
                    self.bad(i, "receive_env-without-size", repr(line[:80]))
            elif first in ("__request_sandbox_summary", "request_sandbox_summary"):
                self.daemon_req = "sandbox_summary"
            elif HELPER_RE.match(line) and self.state == PHASE_RUN:
                # helper frame: command line followed by 5 more lines
                self.c("helper_requests")
                self.helper_lines = 5
            else:
                self.bad(i, "unknown-daemon-command", repr(line[:120]))
            return
        if self.state == PHASE_SETUP and first == "phases":
            # env_receiving_failed path: the subshell exits, main loop reports failure
            self.state = IDLE
            return
        self.bad(i, "unsolicited-daemon-line", "state=%s line=%r" % (self.state, line[:120]))

    def on_blob(self, i, data):
        if self.expect_blob is None:
            self.bad(i, "unexpected-blob-read", len(data))
            return
        if len(data) != self.expect_blob:
            self.bad(i, "blob-length-differs", "announced=%d got=%d" % (self.expect_blob, len(data)))
        self.expect_blob = None

    def feed(self, events):
        for i, (kind, payload) in enumerate(events):
            if kind == "W":
                self.on_write(i, _text(payload))
            elif kind == "R":
                self.on_read(i, _text(payload))
            elif kind == "RB":
                self.on_blob(i, payload)
            if self.state == INIT and not self.pending and getattr(self, "after_handshake", False):
                self.state = IDLE
        return self.anomalies


def check(events):
    ck = Checker()
    ck.daemon_req_stage = 0
    ck.feed(events)
    return ck.anomalies, ck.counts
