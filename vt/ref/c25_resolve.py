"""Reference for C25: where an entry recorded through symlinked directories really lives ("as for a live merge").

The set records symlinks as {recorded location: target}.  An entry's real location is obtained the way the
kernel walks a path during a merge: every directory component (all but the last) that is a symlink of the set is
replaced by the link's target (absolute targets are relative to the package root, relative ones to the link's own
directory) and the walk restarts; the last component is never followed.

``resolve(path, real_links, max_hops=None)`` does that walk; ``real_links`` maps the *real* location of every link to
its target (``real_link_map`` computes it from the recorded locations by iterating to a fixpoint).
``max_hops=1`` gives the answer of one specific wrong implementation (follow at most one link, then stop) and is
used only by the classifier.
"""

import os


class Cycle(Exception):
    pass


def resolved_target(link_loc, target):
    if target.startswith("/"):
        return os.path.normpath(target)
    return os.path.normpath(os.path.join(os.path.dirname(link_loc), target))


def _parts(p):
    p = p.strip("/")
    return p.split("/") if p else []


def resolve(path, real_links, max_hops=None):
    """-> (real path, number of links followed)."""
    parts = _parts(path)
    if not parts:
        return "/", 0
    pending = parts[:-1]
    cur = "/"
    hops = 0
    while pending:
        comp = pending.pop(0)
        if comp == "..":
            cur = os.path.dirname(cur)
            continue
        if comp == ".":
            continue
        cur = os.path.join(cur, comp)
        if cur in real_links and (max_hops is None or hops < max_hops):
            hops += 1
            if hops > 64:
                raise Cycle(path)
            tgt = resolved_target(cur, real_links[cur])
            pending = _parts(tgt) + pending
            cur = "/"
    return os.path.join(cur, parts[-1]), hops


def real_link_map(recorded_links):
    """{recorded location: target} -> {real location: target}."""
    real = dict(recorded_links)
    for _ in range(64):
        new = {}
        for rec, tgt in recorded_links.items():
            new[resolve(rec, real)[0]] = tgt
        if new == real:
            return real
        real = new
    raise Cycle("link locations do not stabilise")


def ancestors(path):
    out = []
    d = os.path.dirname(path)
    while d not in ("/", ""):
        out.append(d)
        d = os.path.dirname(d)
    return out
