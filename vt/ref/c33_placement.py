"""Reference placement model for the PMS install helpers (PMS 12.3.3 "Install commands").

Pure python, no pkgcore imports.  Written from the specification text; every place where PMS is silent
returns verdict "unspecified" (the check then judges nothing about placement for that request).

A request is
    {"helper": name, "eapi": "0".."8", "scope": {...}, "args": [...], "nonfatal": bool}
with scope (the state a real daemon keeps on the bash side: into/insinto/exeinto/docinto/*opts)
    desttree insdesttree exedesttree docdesttree insopts diropts exeopts libopts libdir
and package identity  P = {"category", "PN", "PF", "slot"}.

The source tree is a dict  relpath -> {"type": "file"|"dir"|"link", "content": str, "mode": int, "target": str}
relative to the helper's working directory `cwd`; operands are relative to it (or absolute below it).

model(...) returns
    {"verdict": "ok" | "either" | "reject" | "fail" | "unspecified", "why": str, "rule": str,
     "entries": {image relpath: spec}, "parents": [image relpaths that must be directories afterwards]}
  ok       the request is valid; afterwards the image must equal pre-state + entries (+ parents)
  either   the helper may refuse; if it reports success the image must equal pre-state + entries (+ parents)
  reject   PMS forbids the request (the helper must fail)
  fail     the request cannot succeed (missing source file)
spec: {"type": "file", "src": source relpath, "mode": int|None, "uid": int|None, "gid": int|None, "mtime_src": bool}
      {"type": "dir", "mode": int|None, "optional": bool}
      {"type": "link", "target": str}  |  {"type": "link", "resolves_to": "/abs/norm/path"}
      {"type": "hardlink", "same_as": image relpath}
      {"type": "keepdir", "mode": int|None}   directory that must contain an empty regular file named .keep*
"""

import posixpath
import re

HTML_DEFAULT_EXTS = ("css", "gif", "htm", "html", "jpeg", "jpg", "js", "png")
LANG_RE = re.compile(r"^(.+)\.([a-z]{2}(?:_[A-Z]{2})?)\.([^.]+)$")
# a specific *wrong* detection rule (word-character names only, 'xxYY' instead of 'xx_YY'); used by the checks only
# to recognise that one known mechanism, never as the oracle
LANG_RE_WORDS_NO_UNDERSCORE = re.compile(r"^(\w+)\.([a-z]{2}(?:[A-Z]{2})?)\.(\w+)$")
CLEAR_SECTION_RE = re.compile(r"^[0-9n]$")

FILE_HELPERS = ("doins", "doconfd", "doenvd", "doheader", "doexe", "doinitd", "dobin", "dosbin", "dolib", "dolib.so",
                "dolib.a", "dodoc", "dohtml", "doinfo", "doman", "domo")
ALL_HELPERS = FILE_HELPERS + ("dodir", "keepdir", "dosym", "dohard")


def _res(verdict, why="", rule="", entries=None, parents=None):
    return {"verdict": verdict, "why": why, "rule": rule or verdict, "entries": entries or {}, "parents": parents or []}


def lexnorm(path):
    """Lexical normalisation of an absolute path with Linux semantics: repeated slashes collapse (also leading
    ones), '.' vanishes, '..' removes the previous component and stays at the root."""
    out = []
    for c in path.split("/"):
        if c in ("", "."):
            continue
        if c == "..":
            if out:
                out.pop()
            continue
        out.append(c)
    return "/" + "/".join(out)


def img(path):
    """image-relative key of an absolute-in-image path ('/usr//bin/' -> 'usr/bin')."""
    return lexnorm("/" + path)[1:]


def relative_link_resolves(link_name, text, wanted):
    """dosym -r law: `text` is relative and, read from the directory of the link, names `wanted`."""
    if text.startswith("/") or text == "":
        return False
    linkdir = posixpath.dirname(lexnorm("/" + link_name))
    return lexnorm(linkdir + "/" + text) == lexnorm(wanted)


# ---------------------------------------------------------------------------------------------------------
# `install` option strings as set by insopts/diropts/exeopts/libopts

def parse_symbolic_mode(s):
    """Only 'who=perms' clauses (install starts from mode 0): 'u=rw,go=r' -> 0o644.  None if anything else."""
    mode = 0
    for clause in s.split(","):
        m = re.match(r"^([ugoa]*)=([rwx]*)$", clause)
        if not m:
            return None
        who = m.group(1) or "a"
        bits = sum({"r": 4, "w": 2, "x": 1}[c] for c in set(m.group(2)))
        for w in ("ugo" if "a" in who else who):
            shift = {"u": 6, "g": 3, "o": 0}[w]
            mode = (mode & ~(7 << shift)) | (bits << shift)
    return mode


def parse_install_opts(s):
    """-> {"mode": int, "uid", "gid", "preserve": bool, "known": bool, "harmless_extra": [...]}.

    known=False: an option this model does not understand (the action's outcome is then not modelled)."""
    toks = s.split()
    o = {"mode": 0o755, "uid": None, "gid": None, "preserve": False, "known": True, "extra": []}
    i = 0

    def val(tok, short, long):
        nonlocal i
        if tok == short or tok == long:
            i += 1
            return toks[i] if i < len(toks) else None
        if tok.startswith(long + "="):
            return tok[len(long) + 1:]
        if tok.startswith(short) and not tok.startswith("--"):
            return tok[len(short):]
        return False

    while i < len(toks):
        t = toks[i]
        v = val(t, "-m", "--mode")
        if v is not False:
            if v is None:
                o["known"] = False
            elif re.match(r"^[0-7]{1,4}$", v):
                o["mode"] = int(v, 8)
            else:
                m = parse_symbolic_mode(v)
                if m is None:
                    o["known"] = False
                else:
                    o["mode"] = m
            i += 1
            continue
        hit = False
        for key, short, long in (("uid", "-o", "--owner"), ("gid", "-g", "--group")):
            v = val(t, short, long)
            if v is not False:
                if v == "root":
                    v = "0"
                if v is None or not v.isdigit():
                    o["known"] = False
                else:
                    o[key] = int(v)
                hit = True
                break
        if hit:
            i += 1
            continue
        if t in ("-p", "--preserve-timestamps"):
            o["preserve"] = True
        elif t in ("-C", "--compare"):
            o["extra"].append(t)  # does not change the result
        else:
            o["known"] = False
            o["extra"].append(t)
        i += 1
    return o


# ---------------------------------------------------------------------------------------------------------
# source tree view

class Tree:
    def __init__(self, tree, cwd):
        self.t = tree
        self.cwd = cwd.rstrip("/")

    def rel(self, operand):
        """operand -> key in the tree or None when it lies outside the working directory."""
        p = operand
        if p.startswith("/"):
            p = lexnorm(p)
            if p == self.cwd:
                return ""
            if not p.startswith(self.cwd + "/"):
                return None
            p = p[len(self.cwd) + 1:]
        p = posixpath.normpath(p)
        if p.startswith(".."):
            return None
        return "" if p == "." else p

    def get(self, rel):
        return self.t.get(rel)

    def lexists(self, rel):
        # every ancestor must be a real directory
        if rel == "":
            return True
        parts = rel.split("/")
        for i in range(1, len(parts)):
            a = self.t.get("/".join(parts[:i]))
            if a is None or a["type"] != "dir":
                return False
        return rel in self.t

    def under(self, rel):
        pre = rel + "/"
        return sorted(k for k in self.t if k.startswith(pre))

    def is_empty_dir(self, rel):
        return not self.under(rel)


def _file_spec(src, opts, owner_root=False):
    return {"type": "file", "src": src, "mode": opts["mode"], "uid": 0 if owner_root else opts["uid"],
            "gid": 0 if owner_root else opts["gid"], "mtime_src": bool(opts["preserve"])}


def _parents(paths):
    out = set()
    for p in paths:
        parts = p.split("/")
        for i in range(1, len(parts)):
            out.add("/".join(parts[:i]))
    return out


def _finish(entries, pre, why="", rule="ok"):
    """Collisions with the pre-state where PMS gives no answer -> unspecified, or "either": the helper may refuse the
    request, but if it reports success the image has to be pre-state + entries."""
    either = False
    for p, s in entries.items():
        old = pre.get(p)
        if old is None:
            continue
        if s["type"] == "file" and old["type"] in ("file", "link"):
            # like install(1): whatever non-directory is at the destination is replaced, a symlink is never followed
            continue
        if s["type"] == "link" and "target" in s and old["type"] in ("link", "file") and not s.get("src_dirlink"):
            continue  # a symlink copied by doins replaces the symlink / regular file that is there
        if s["type"] == "link" and "target" in s and old["type"] in ("link", "file") and s.get("src_dirlink"):
            # a symlink to a directory found while recursing, over an existing non-directory: replacing it is what
            # install(1)-like semantics suggest, refusing is tolerated; claiming success and leaving the old entry is not
            either = True
            continue
        if s["type"] in ("dir", "keepdir") and old["type"] == "dir":
            continue
        return _res("unspecified", "destination %r collides with an existing %s" % (p, old["type"]), "collision")
    parents = _parents(entries)
    for p in parents:
        old = pre.get(p)
        if old is not None and old["type"] != "dir":
            return _res("unspecified", "parent %r exists and is not a directory" % p, "collision")
        if p in entries and entries[p]["type"] not in ("dir", "keepdir"):
            return _res("unspecified", "request installs both %r and something below it" % p, "collision")
    out = _res("either" if either else "ok", why, rule, entries, sorted(parents - set(entries)))
    # destinations that currently hold a symlink (dangling or not): replaced, never written through
    out["replaces_links"] = sorted(p for p in entries if pre.get(p, {}).get("type") == "link")
    # destinations that hold a regular file: replaced by a new inode (other hard links of the old one keep theirs)
    out["replaces_files"] = sorted(p for p, s in entries.items() if s["type"] in ("file", "link")
                                   and pre.get(p, {}).get("type") == "file")
    return out


# ---------------------------------------------------------------------------------------------------------

def model(req, tree, cwd, pre, P, quirks=(), umask=0o022):
    """quirks: names of specific wrong behaviours to model instead (classification of known mechanisms only).
    umask: the umask of the process running the helpers; PMS fixes file modes independently of it, directory modes
    that PMS words as "install -d with no additional options" are only judged under the usual 022."""
    h = req["helper"]
    e = int(req["eapi"])
    sc = req["scope"]
    args = list(req["args"])
    T = Tree(tree, cwd)
    if h not in ALL_HELPERS:
        return _res("unspecified", "helper not modelled")
    if h == "dodir" or h == "keepdir":
        return _dodir(h, args, sc, pre)
    if h == "dosym":
        return _dosym(args, e, pre)
    if h == "dohard":
        return _dohard(args, e, pre)
    if h == "doheader" and e < 5:
        return _res("unspecified", "doheader needs EAPI 5")
    if h == "dohtml" and e > 6:
        return _res("unspecified", "dohtml banned")
    if h == "dolib" and e > 6:
        return _res("unspecified", "dolib banned")

    # ---- options in front of the operands
    recursive = False
    lang = None
    html = {"a": None, "A": [], "f": [], "p": "", "x": []}
    if h in ("doins", "doconfd", "doenvd", "doheader", "dodoc"):
        if args and args[0] == "-r":
            recursive = True
            args = args[1:]
    elif h == "doman":
        if args and args[0].startswith("-i18n="):
            lang = args[0][len("-i18n="):]
            args = args[1:]
    elif h == "dohtml":
        while args and args[0].startswith("-") and len(args[0]) == 2:
            o = args[0][1]
            if o == "r":
                recursive = True
                args = args[1:]
            elif o == "V":
                args = args[1:]
            elif o in "aAfxp" and len(args) >= 2:
                if o == "p":
                    html["p"] = args[1]
                elif o == "a":
                    html["a"] = [x for x in args[1].split(",") if x]
                else:
                    html[o] = html[o] + [x for x in args[1].split(",") if x]
                args = args[2:]
            else:
                return _res("unspecified", "dohtml option form")
        if html["x"]:
            return _res("unspecified", "dohtml -x: PMS does not say how directory names are matched")
    if any(a.startswith("-") for a in args):
        return _res("unspecified", "option-like operand")
    if not args:
        return _res("unspecified", "no operands: PMS only says the helper takes one or more files")

    # ---- destination directory and file options
    owner_root = False
    dirmode = None  # mode of directories created by recursion
    if h in ("doins", "doconfd", "doenvd", "doheader"):
        dest = {"doins": sc["insdesttree"] or "/", "doconfd": "/etc/conf.d", "doenvd": "/etc/env.d",
                "doheader": "/usr/include"}[h]
        fo = parse_install_opts("-m0644" if (h != "doins" and e >= 8) else sc["insopts"])
        do = parse_install_opts(sc["diropts"])
        dirmode = do["mode"] if do["known"] else None
        if not do["known"]:
            return _res("unspecified", "diropts not modelled")
    elif h in ("doexe", "doinitd"):
        if h == "doexe" and not sc["exedesttree"]:
            return _res("unspecified", "doexe before exeinto is undefined")
        dest = sc["exedesttree"] if h == "doexe" else "/etc/init.d"
        fo = parse_install_opts("-m0755" if (h == "doinitd" and e >= 8) else sc["exeopts"])
    elif h in ("dobin", "dosbin"):
        dest = sc["desttree"] + ("/bin" if h == "dobin" else "/sbin")
        fo = parse_install_opts("-m0755")
        owner_root = True
    elif h in ("dolib", "dolib.so", "dolib.a"):
        dest = sc["desttree"] + "/" + sc["libdir"]
        fo = parse_install_opts({"dolib": sc["libopts"], "dolib.so": "-m0755", "dolib.a": "-m0644"}[h])
    elif h == "dodoc":
        dest = "/usr/share/doc/%s/%s" % (P["PF"], sc["docdesttree"])
        fo = parse_install_opts("-m0644")
        dirmode = 0o755 if umask == 0o022 else None
        if recursive and e < 4:
            recursive = None  # -r is not an option in these EAPIs
    elif h == "dohtml":
        if html["p"].startswith("/"):
            return _res("unspecified", "dohtml -p must not be absolute")
        dest = "/usr/share/doc/%s/html/%s" % (P["PF"], html["p"])
        fo = parse_install_opts("-m0644")
    elif h == "doinfo":
        dest = "/usr/share/info"
        fo = parse_install_opts("-m0644")
    elif h == "doman":
        dest = "/usr/share/man"
        fo = parse_install_opts("-m0644")
    elif h == "domo":
        dest = (sc["desttree"] + "/share/locale") if e < 7 else "/usr/share/locale"
        fo = parse_install_opts("-m0644")
    if not fo["known"]:
        return _res("unspecified", "install options %r are not modelled" % (fo["extra"],), "opts-unmodelled")
    if "default-insopts-lost" in quirks and h in ("dodoc", "dohtml", "doinfo", "doman", "domo"):
        fo["mode"] = 0o666 & ~umask  # wrong model: the helper's own -m0644 default is not applied
    dest = img(dest)

    entries = {}
    rule = "files"

    def put(path, spec):
        old = entries.get(path)
        if old is not None and old["type"] != spec["type"]:
            raise _Unspec("request installs two different things at %r" % path)
        entries[path] = spec

    try:
        for a in args:
            r = T.rel(a)
            if r is None or r == "":
                return _res("unspecified", "operand outside/equal to the working directory")
            if not T.lexists(r):
                return _res("fail", "operand %r does not exist" % a, "missing-source")
            ent = T.get(r)
            base = posixpath.basename(r)
            if ent["type"] == "link":
                if h in ("doins", "doconfd", "doenvd", "doheader") and e >= 4:
                    tgt = _follow(T, r)
                    if tgt is not None and T.get(tgt) is not None and T.get(tgt)["type"] == "dir":
                        return _res("unspecified", "symlink-to-directory operand")
                    if fo["preserve"] or fo["uid"] is not None or fo["gid"] is not None:
                        return _res("unspecified", "install options applied to a symlink")
                    put(_j(dest, base), {"type": "link", "target": ent["target"]})
                    rule = "symlink-operand" if tgt is not None else "dangling-symlink-operand"
                    continue
                return _res("unspecified", "symlink operand for %s in EAPI %d" % (h, e))
            if ent["type"] == "dir":
                if h == "dohtml" and not recursive:
                    return _res("unspecified", "PMS: undefined whether dohtml fails on a directory without -r")
                if h == "dodoc" and recursive is None:
                    return _res("reject", "directory operand %r: dodoc has no -r in EAPI %d" % (a, e), "dir-without-r")
                if not recursive:
                    return _res("reject", "directory operand %r without -r" % a, "dir-without-r")
                rule = "recursive"
                top = _j(dest, base)
                put(top, {"type": "dir", "mode": None if (h == "dodoc" and top in pre) else dirmode,
                          "optional": T.is_empty_dir(r)})
                for k in T.under(r):
                    sub = T.get(k)
                    d = _j(top, k[len(r) + 1:])
                    if sub["type"] == "dir":
                        put(d, {"type": "dir", "mode": None if (h == "dodoc" and d in pre) else dirmode,
                                "optional": T.is_empty_dir(k) or h == "dohtml"})
                    elif sub["type"] == "link":
                        if h == "dohtml" or h == "dodoc" or e < 4:
                            return _res("unspecified", "symlink inside a recursed directory for %s/EAPI %d" % (h, e))
                        if fo["preserve"] or fo["uid"] is not None or fo["gid"] is not None:
                            return _res("unspecified", "install options applied to a symlink")
                        ft = _follow(T, k)
                        put(d, {"type": "link", "target": sub["target"],
                                "src_dirlink": ft is not None and T.get(ft)["type"] == "dir"})
                        if ft is None:
                            rule = "recursive-dangling-symlink"
                    else:
                        if h == "dohtml" and "html-no-filter-in-dirs" not in quirks \
                                and not _html_allowed(posixpath.basename(k), html):
                            continue
                        put(d, _file_spec(k, fo))
                if h == "dohtml":
                    entries[top]["optional"] = True
                continue
            # regular file operand
            if h == "doman":
                if "." not in base or base.endswith("."):
                    return _res("reject", "man page %r has no section suffix" % a, "man-without-section")
                name, sfx = base, base.rsplit(".", 1)[1]
                sub = ""
                m = (LANG_RE_WORDS_NO_UNDERSCORE if "man-lang-regex" in quirks else LANG_RE).match(base)
                if lang is not None:
                    if e < 4:
                        # PMS words the -i18n paragraph without an EAPI condition, only its precedence over the file
                        # name code is tied to EAPI 4; not judged for older EAPIs to stay on the safe side
                        return _res("unspecified", "-i18n before EAPI 4")
                    if lang == "" and m:
                        return _res("unspecified", "empty -i18n= with a language code in the name")
                    sub = lang
                    rule = "man-i18n"
                elif e >= 2 and m:
                    sub = m.group(2)
                    name = m.group(1) + "." + m.group(3)
                    rule = "man-lang-underscore" if "_" in sub else (
                        "man-lang-plain" if re.match(r"^\w+$", m.group(1)) else "man-lang-name")
                if not CLEAR_SECTION_RE.match(sfx):
                    return _res("unspecified", "section suffix %r: PMS only says 'apparent section suffix'" % sfx)
                put(_j(dest, sub, "man" + sfx, name), _file_spec(r, fo))
            elif h == "domo":
                stem = base.rsplit(".", 1)[0] if "." in base else base
                if not stem:
                    return _res("unspecified", "dot file for domo")
                put(_j(dest, stem, "LC_MESSAGES", P["PN"] + ".mo"), _file_spec(r, fo))
                rule = "domo"
            elif h == "dohtml":
                if _html_allowed(base, html):
                    put(_j(dest, base), _file_spec(r, fo))
                rule = "html-filter"
            else:
                put(_j(dest, base), _file_spec(r, fo, owner_root))
    except _Unspec as u:
        return _res("unspecified", str(u), "collision")
    # the destination directory itself must exist afterwards
    out = _finish(entries, pre, rule=rule)
    if out["verdict"] in ("ok", "either"):
        ps = set(out["parents"]) | _parents([dest + "/x"])
        ps.discard("")
        for p in ps:
            old = pre.get(p)
            if old is not None and old["type"] != "dir":
                return _res("unspecified", "destination directory collides", "collision")
        out["parents"] = sorted(ps - set(entries))
    return out


class _Unspec(Exception):
    pass


def _j(*parts):
    return "/".join(p.strip("/") for p in parts if p.strip("/"))


def _follow(T, rel, depth=0):
    """Lexically follow a symlink inside the source tree: key of the final target or None (dangling/outside)."""
    ent = T.get(rel)
    while ent is not None and ent["type"] == "link":
        depth += 1
        if depth > 8 or ent["target"].startswith("/"):
            return None
        rel = posixpath.normpath(posixpath.join(posixpath.dirname(rel), ent["target"]))
        if rel.startswith(".."):
            return None
        if not T.lexists(rel):
            return None
        ent = T.get(rel)
    return rel if ent is not None else None


def _html_allowed(base, html):
    ext = base.rsplit(".", 1)[1] if "." in base[1:] else ""
    allowed = list(html["a"] if html["a"] else HTML_DEFAULT_EXTS) + list(html["A"])
    return ext in allowed or base in html["f"]


def _dodir(h, args, sc, pre):
    if not args:
        return _res("unspecified", "no operands")
    if any(a.startswith("-") for a in args):
        return _res("unspecified", "option-like operand")
    do = parse_install_opts(sc["diropts"])
    if not do["known"]:
        return _res("unspecified", "diropts %r are not modelled" % (do["extra"],), "opts-unmodelled")
    if do["uid"] is not None or do["gid"] is not None or do["preserve"]:
        return _res("unspecified", "owner/timestamp options on directories")
    entries = {}
    for a in args:
        if ".." in a.split("/"):
            return _res("unspecified", "'..' in a directory operand")
        p = img(a)
        if not p:
            return _res("unspecified", "image root as operand")
        entries[p] = {"type": "keepdir" if h == "keepdir" else "dir", "mode": do["mode"], "optional": False}
    return _finish(entries, pre, rule=h)


def _dosym(args, e, pre):
    rel = False
    if args and args[0] == "-r":
        rel = True
        args = args[1:]
    if len(args) < 2:
        return _res("reject", "dosym needs a target and a link name", "dosym-arity")
    if len(args) > 2 or any(a.startswith("-") for a in args):
        return _res("unspecified", "extra dosym arguments")
    src, name = args
    if rel and e < 8:
        return _res("reject", "dosym -r does not exist in EAPI %d" % e, "dosym-r-eapi")
    if not name or not src:
        return _res("unspecified", "empty argument")
    if name.endswith("/"):
        return _res("reject", "link name %r ends with a slash (no file name)" % name, "dosym-trailing-slash")
    if ".." in name.split("/"):
        return _res("unspecified", "'..' in the link name")
    p = img(name)
    if not p:
        return _res("unspecified", "image root as link name")
    old = pre.get(p)
    if old is not None and old["type"] == "dir":
        return _res("reject", "link name %r is an existing image directory" % name, "dosym-existing-dir")
    if old is not None:
        return _res("unspecified", "link name exists already")
    if rel:
        if not src.startswith("/"):
            return _res("unspecified", "dosym -r with a relative target")
        spec = {"type": "link", "resolves_to": lexnorm(src), "link_name": lexnorm("/" + name)}
        rule = "dosym-relative"
    else:
        spec = {"type": "link", "target": src}
        rule = "dosym"
    return _finish({p: spec}, pre, rule=rule)


def _dohard(args, e, pre):
    if e > 3:
        return _res("unspecified", "dohard banned")
    if len(args) != 2 or any(a.startswith("-") for a in args):
        return _res("unspecified", "dohard arity")
    src, name = args
    if ".." in src.split("/") or ".." in name.split("/") or name.endswith("/"):
        return _res("unspecified", "odd dohard path")
    s, p = img(src), img(name)
    old = pre.get(s)
    if old is None:
        return _res("fail", "dohard source %r is not in the image" % src, "missing-source")
    if old["type"] != "file" or not p or p in pre:
        return _res("unspecified", "dohard on a non-file / existing name")
    return _finish({p: {"type": "hardlink", "same_as": s}}, pre, rule="dohard")


# ---------------------------------------------------------------------------------------------------------
# comparing a model answer with before/after snapshots (vt.fssnap format) of the image

def compare(exp, pre, post, src_snap):
    """-> list of {"path", "problem", ...}; empty when the image is exactly pre + expected entries.

    src_snap: fssnap of the working directory (for content hashes / mtimes of the sources)."""
    bad = []
    entries, parents = exp["entries"], set(exp["parents"])
    for p, s in entries.items():
        got = post.get(p)
        if got is None:
            if s["type"] == "dir" and s.get("optional"):
                continue
            bad.append({"path": p, "problem": "missing", "want": s["type"]})
            continue
        t = s["type"]
        if t == "file":
            src = src_snap.get(s["src"])
            if got["type"] != "file":
                bad.append({"path": p, "problem": "type", "got": got["type"], "want": "file"})
                continue
            if src is None or got.get("sha") != src.get("sha"):
                bad.append({"path": p, "problem": "content"})
            if s["mode"] is not None and got["mode"] != s["mode"]:
                bad.append({"path": p, "problem": "mode", "got": oct(got["mode"]), "want": oct(s["mode"])})
            for k in ("uid", "gid"):
                if s.get(k) is not None and got[k] != s[k]:
                    bad.append({"path": p, "problem": k, "got": got[k], "want": s[k]})
            if s.get("mtime_src") and src is not None and got["mtime_ns"] != src["mtime_ns"]:
                bad.append({"path": p, "problem": "mtime-not-preserved"})
        elif t in ("dir", "keepdir"):
            if got["type"] != "dir":
                bad.append({"path": p, "problem": "type", "got": got["type"], "want": "dir"})
                continue
            if s["mode"] is not None and got["mode"] != s["mode"]:
                bad.append({"path": p, "problem": "mode", "got": oct(got["mode"]), "want": oct(s["mode"])})
            if t == "keepdir":
                keeps = [q for q in post if posixpath.dirname(q) == p and posixpath.basename(q).startswith(".keep")]
                ok = [q for q in keeps if post[q]["type"] == "file" and post[q]["size"] == 0]
                if not ok:
                    bad.append({"path": p, "problem": "no empty .keep* file"})
        elif t == "link":
            if got["type"] != "link":
                bad.append({"path": p, "problem": "type", "got": got["type"], "want": "link"})
            elif "target" in s:
                if got["target"] != s["target"]:
                    bad.append({"path": p, "problem": "link-target", "got": got["target"], "want": s["target"]})
            elif not relative_link_resolves(s["link_name"], got["target"], s["resolves_to"]):
                bad.append({"path": p, "problem": "relative-link-does-not-resolve", "got": got["target"],
                            "want_resolution": s["resolves_to"]})
        elif t == "hardlink":
            other = post.get(s["same_as"])
            if got["type"] != "file" or other is None or list(got["ino"]) != list(other["ino"]):
                bad.append({"path": p, "problem": "not-a-hardlink-of", "want": s["same_as"]})
    keep_dirs = {p for p, s in entries.items() if s["type"] == "keepdir"}
    for p, got in post.items():
        if p in entries:
            continue
        old = pre.get(p)
        if p in parents:
            if got["type"] != "dir":
                bad.append({"path": p, "problem": "parent-not-dir", "got": got["type"]})
            elif old is not None and _ident(old) != _ident(got):
                bad.append({"path": p, "problem": "existing-parent-changed", "was": oct(old["mode"]),
                            "got": oct(got["mode"])})
            continue
        if old is None:
            if posixpath.dirname(p) in keep_dirs and posixpath.basename(p).startswith(".keep") \
                    and got["type"] == "file" and got["size"] == 0:
                continue
            bad.append({"path": p, "problem": "unexpected-entry", "got": got["type"]})
        elif _ident(old) != _ident(got):
            bad.append({"path": p, "problem": "unrelated-entry-changed"})
    for p in pre:
        if p not in post:
            bad.append({"path": p, "problem": "existing-entry-removed"})
    return bad


def _ident(e):
    return (e["type"], e["mode"], e["uid"], e["gid"], e.get("sha"), e.get("target"))
