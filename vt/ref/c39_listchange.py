"""Reference model for C39: Bugzilla list-field updates and the BugUpdate wire payload.

Written from the Bugzilla REST documentation of ``PUT /rest/bug`` (list valued fields take
``{"add": [...], "remove": [...]}`` or ``{"set": [...]}``) and from the property statement;
it does not import pkgcore.

A *change* is a plain dict ``{"add": [...], "remove": [...], "replace": None | [...]}``.
A *list* is the set of values a bug field currently holds (Bugzilla stores list valued fields
without duplicates and without a meaningful order, so lists are compared as sets).
"""

import itertools


def change(add=(), remove=(), replace=None):
    return {"add": list(add), "remove": list(remove), "replace": None if replace is None else list(replace)}


def well_formed(ch):
    """A change Bugzilla would accept: set excludes add/remove, nothing both added and removed."""
    if ch["replace"] is not None and (ch["add"] or ch["remove"]):
        return False
    return not (set(ch["add"]) & set(ch["remove"]))


def apply(ch, current):
    """Apply one change to the set ``current`` (Bugzilla semantics)."""
    if ch["replace"] is not None:
        return frozenset(ch["replace"])
    return (frozenset(current) - frozenset(ch["remove"])) | frozenset(ch["add"])


def sequential(a, b, current):
    return apply(b, apply(a, current))


def values_of(*changes):
    out = []
    for ch in changes:
        for k in ("add", "remove"):
            for v in ch[k]:
                if v not in out:
                    out.append(v)
        for v in ch["replace"] or ():
            if v not in out:
                out.append(v)
    return out


def initial_lists(values, extra=()):
    """Every subset of the values the two changes mention plus bystander values.

    The changes can only distinguish lists by which of *their* values are present; one
    bystander value that no change mentions shows whether untouched members survive."""
    pool = list(values) + [e for e in extra if e not in values]
    for n in range(len(pool) + 1):
        for sub in itertools.combinations(pool, n):
            yield frozenset(sub)


def disagreements(a, b, combined, values=None, extra=("<bystander>",)):
    """Lists on which ``combined`` differs from applying a then b.  Returns [(L, got, want)]."""
    vals = values_of(a, b, combined) if values is None else list(values)
    bad = []
    n = 0
    for cur in initial_lists(vals, extra):
        n += 1
        got = apply(combined, cur)
        want = sequential(a, b, cur)
        if got != want:
            bad.append((sorted(map(str, cur)), sorted(map(str, got)), sorted(map(str, want))))
    return n, bad


# ---- the specific wrong model behind the recorded finding ------------------------------------

def model_left_set_ignored(a, b):
    """What ``a | b`` is if a ``set`` on the left-hand side is simply forgotten: the left operand then
    contributes no add/remove members, so the result is the right operand's add/remove as written."""
    return change(add=list(b["add"]), remove=list(b["remove"]))


# ---- wire payload ---------------------------------------------------------------------------

LIST_FIELDS = ("cc", "keywords", "blocks", "depends_on", "see_also", "groups")
SCALAR_FIELDS = ("status", "resolution", "dupe_of", "summary", "assigned_to", "whiteboard", "deadline")
WIRE_NAME = {"package_list": "cf_stabilisation_atoms", "runtime_testing_required": "cf_runtime_testing_required"}


def change_is_set(ch):
    """A list change counts as 'set' when it asks for anything, including an explicit empty set."""
    return bool(ch["add"] or ch["remove"] or ch["replace"] is not None)


def wire_of_change(ch):
    if ch["replace"] is not None:
        return {"set": [str(x) for x in ch["replace"]]}
    w = {}
    if ch["add"]:
        w["add"] = [str(x) for x in ch["add"]]
    if ch["remove"]:
        w["remove"] = [str(x) for x in ch["remove"]]
    return w


def expected_wire(spec, ids):
    """spec: plain description of an update (see vt/props/C39.py:_random_update) -> expected payload."""
    w = {"ids": [int(i) for i in ids]}
    for k in ("status", "resolution", "summary", "assigned_to", "whiteboard"):
        if spec.get(k) is not None:
            w[k] = spec[k]
    if spec.get("dupe_of") is not None:
        w["dupe_of"] = spec["dupe_of"]
    if spec.get("deadline") is not None:
        w["deadline"] = "%04d-%02d-%02d" % tuple(spec["deadline"])
    for k in LIST_FIELDS:
        if spec.get(k) is not None and change_is_set(spec[k]):
            w[k] = wire_of_change(spec[k])
    if spec.get("flags"):
        out = []
        for f in spec["flags"]:
            d = {"name": f["name"], "status": f["status"]}
            if f.get("requestee") is not None:
                d["requestee"] = f["requestee"]
            out.append(d)
        w["flags"] = out
    if spec.get("comment") is not None:
        c = {"body": spec["comment"]["body"]}
        if spec["comment"].get("is_private"):
            c["is_private"] = True
        w["comment"] = c
    if spec.get("package_list") is not None:
        w["cf_stabilisation_atoms"] = spec["package_list"]
    if spec.get("runtime_testing_required") is not None:
        w["cf_runtime_testing_required"] = spec["runtime_testing_required"]
    return w


def normalise_wire(w):
    """Compare list-change members as strings (Bugzilla accepts ids as numbers or strings)."""
    out = {}
    for k, v in w.items():
        if k in LIST_FIELDS and isinstance(v, dict):
            out[k] = {kk: [str(x) for x in vv] for kk, vv in v.items()}
        elif k == "ids":
            out[k] = [int(x) for x in v]
        else:
            out[k] = v
    return out
