"""Reference model for C20, written from the property statement (no pkgcore code involved).

    Unmerging removes every listed non-directory entry and nothing unlisted, removes listed directories only
    when empty, never follows a symlink to its target, and never removes a protected base-system directory.
    When one package replaces another, entries the new package installs are not removed.

Everything is expressed on lstat-level snapshots ({relpath: entry}, see vt/fssnap.py) of the live root:
`S` = the root when unmerging starts, `B` = the root afterwards.  Listed paths are translated to *physical* paths
(symlinks in the parent chain resolved, last component not) because that is the object the operating system reaches.
"""

from ..gen.c20_world import resolve_parent

# the base-system directories the statement calls "protected" (the documented default of the protection trigger)
BASE_DIRS = ("usr", "usr/lib", "usr/lib64", "usr/lib32", "usr/bin", "usr/sbin", "bin", "sbin", "lib", "lib32",
             "lib64", "etc", "var", "home", "root")

IDENT = ("type", "mode", "uid", "gid", "size", "sha", "target")


def ident(e):
    return None if e is None else tuple(e.get(f) for f in IDENT)


def physical_set(S, rels):
    out = {}
    for rel in rels:
        p = resolve_parent(S, rel)
        if p is not None:
            out.setdefault(p, []).append(rel)
    return out


def expected_after_unmerge(S, listed, keep_phys=()):
    """S: snapshot when the unmerge starts.  listed: {rel: recorded type 'f'|'d'|'l'|'p'}.
    keep_phys: physical paths the replacing package installs (never removed).

    Returns (E, either, disp): E = expected snapshot afterwards, `either` = physical paths the statement does not
    decide (not compared), disp = {rel: (physical path, disposition)}."""
    keep_phys = set(keep_phys)
    E = dict(S)
    either = set()
    disp = {}
    rm_files = []
    cand_dirs = []
    for rel, rtype in listed.items():
        p = resolve_parent(S, rel)
        if p is None:
            disp[rel] = (None, "unresolvable")
            continue
        e = S.get(p)
        if e is None:
            disp[rel] = (p, "absent")
            continue
        on_disk_dir = e["type"] == "dir"
        if p in BASE_DIRS:
            if on_disk_dir:
                disp[rel] = (p, "protected")
            else:
                # e.g. /lib is a symlink to usr/lib and is listed: "remove every listed non-directory" and
                # "never remove a base-system directory" pull in opposite directions
                disp[rel] = (p, "either")
                either.add(p)
            continue
        if p in keep_phys:
            disp[rel] = (p, "kept-for-new-package")
            continue
        if rtype != "d":
            if on_disk_dir:
                disp[rel] = (p, "either")  # recorded non-directory turned into a directory: not specified
                either.add(p)
                either.update(q for q in S if q.startswith(p + "/"))
            else:
                disp[rel] = (p, "remove")
                rm_files.append(p)
        else:
            if on_disk_dir:
                disp[rel] = (p, "rmdir-if-empty")
                cand_dirs.append(p)
            else:
                disp[rel] = (p, "either")  # recorded directory is something else now: not specified
                either.add(p)
    for p in rm_files:
        E.pop(p, None)
    for d in sorted(set(cand_dirs), key=lambda x: (-x.count("/"), x), reverse=False):
        kids = [q for q in E if q.startswith(d + "/")]
        if not kids:
            del E[d]
        elif all(q in either for q in kids):
            either.add(d)
    return E, either, disp


def compare(S, E, B, either, listed_phys, keep_phys=(), link_targets=()):
    """Differences between the expected (E) and the observed (B) root.  Returns {rule: [details]}."""
    keep_phys = set(keep_phys)
    link_targets = set(link_targets)
    out = {}

    def add(rule, item):
        out.setdefault(rule, []).append(item)

    for p in sorted(set(E) | set(B) | set(S)):
        if p in either:
            continue
        inE, inB = p in E, p in B
        if inE and not inB:
            if p in BASE_DIRS:
                add("base-dir-removed", p)
            elif p in keep_phys:
                add("replace-new-entry-removed", p)
            elif p in listed_phys:
                add("nonempty-listed-dir-removed", p)
            elif p in link_targets or any(p.startswith(t + "/") for t in link_targets):
                add("symlink-target-removed", p)
            else:
                add("unlisted-removed", p)
        elif inB and not inE:
            if p in S:
                if S[p]["type"] == "dir":
                    if not any(q.startswith(p + "/") for q in B):
                        add("empty-listed-dir-not-removed", p)
                else:
                    add("listed-entry-not-removed", p)
            else:
                add("created", p)
        elif inE and inB:
            if ident(E[p]) != ident(B[p]):
                if p in link_targets:
                    add("symlink-target-changed", p)
                elif p in listed_phys or p in keep_phys:
                    add("listed-survivor-changed", p)
                else:
                    add("unlisted-changed", p)
    return out
