"""C47 reference model: what a repository directory must look like, written from the property statement.

    "Syncing a repository from a tarball either leaves the previous tree in place or installs the complete new
     tree, and a failed download or unpack leaves the previous tree untouched.  After an interruption at any point,
     the repository path holds a complete old or new tree and the next sync completes."

The expected NEW tree comes from the tree *spec* the tarball was built from (vt/gen/c47_scen.py builds the archive
with Python's tarfile; the syncer unpacks it with the external tar), never from anything the syncer produced.
The OLD tree is the state observed before the sync under test.

A tree is compared as {relpath: ("d", mode) | ("f", mode, sha256) | ("l", target)}; ownership and timestamps are
not part of "the tree" for old-or-new (the statement does not mention them), the syncer's own bookkeeping files
`.etag` / `.modified` at the top of the repository are not part of it either.  "Untouched" is stricter: the
lstat-level snapshot of the directory (content, modes, owners, mtimes, bookkeeping files included) is unchanged.
"""

import hashlib

BOOKKEEPING = (".etag", ".modified")


def expected_tree(tree, content):
    """{relpath: ident} for a tree spec; `content(entry)` yields the bytes of a regular file entry."""
    out = {}
    ent = tree["entries"]
    for rel, e in ent.items():
        if e["t"] == "d":
            out[rel] = ("d", e["mode"])
        elif e["t"] == "l":
            out[rel] = ("l", e["target"])
        elif e["t"] == "h":
            t = ent[e["to"]]
            out[rel] = ("f", t["mode"], hashlib.sha256(content(t)).hexdigest())
        else:
            out[rel] = ("f", e["mode"], hashlib.sha256(content(e)).hexdigest())
    return out


def observed_tree(snap, ignore_top=BOOKKEEPING):
    """The same shape from an fssnap snapshot of the repository directory."""
    out = {}
    for rel, e in snap.items():
        if rel in ignore_top:
            continue
        if e["type"] == "dir":
            out[rel] = ("d", e["mode"])
        elif e["type"] == "link":
            out[rel] = ("l", e["target"])
        elif e["type"] == "file":
            out[rel] = ("f", e["mode"], e["sha"])
        else:
            out[rel] = (e["type"], e["mode"])
    return out


def tree_diff(obs, exp, limit=8):
    missing = sorted(set(exp) - set(obs))
    extra = sorted(set(obs) - set(exp))
    changed = sorted(p for p in set(exp) & set(obs) if tuple(obs[p]) != tuple(exp[p]))
    return {"missing": missing[:limit], "extra": extra[:limit], "changed": changed[:limit],
            "n_missing": len(missing), "n_extra": len(extra), "n_changed": len(changed)}


def same(obs, exp):
    return obs is not None and exp is not None and \
        {k: tuple(v) for k, v in obs.items()} == {k: tuple(v) for k, v in exp.items()}


def state_of(obs, old, new):
    """Classify the observed content of a directory.

    obs: observed_tree() or None when the path does not exist (or is not a directory);
    old: tree of the previous generation or None when there was no previous tree;
    new: expected tree of the tarball being synced (or None when nothing installable is served).
    Returns one of "old", "new", "absent", "empty", "mixed".
    With no previous tree, "absent" and "empty" *are* the old state (see old_or_new)."""
    if obs is None:
        return "absent"
    if old is not None and same(obs, old):
        return "old"
    if new is not None and same(obs, new):
        return "new"
    if not obs:
        return "empty"
    return "mixed"


def state_of_any(obs, olds, new):
    """state_of() with several acceptable previous trees (fault sequences: the tree before the first interrupted sync
    and whatever complete tree the earlier fault left are both 'previous')."""
    if obs is None:
        return "absent"
    for o in olds:
        if o is not None and same(obs, o):
            return "old"
    return state_of(obs, None, new)


def old_or_new(state, had_old):
    if state in ("old", "new"):
        return True
    if not had_old and state in ("absent", "empty"):
        # no previous tree: the statement is silent on whether the (still empty) directory may already exist
        return True
    return False


def untouched(before_snap, after_snap, diff):
    """Strict form for "a failed download or unpack leaves the previous tree untouched": `diff` is fssnap.diff."""
    if before_snap is None or after_snap is None:
        return before_snap is None and (after_snap is None or not after_snap), {}
    d = diff(before_snap, after_snap)
    ok = not d["created"] and not d["removed"] and not d["changed"]
    return ok, d
