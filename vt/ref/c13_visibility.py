"""Reference visibility evaluator for C13.

Written from the property statement (and PMS for atom / version / LICENSE syntax); imports nothing from pkgcore.

Configuration (JSON-able dict), the shape vt/gen/c13_cfg.py emits and vt/props/C13.py materialises on disk:

    {"arch": "amd64",
     "repo": {"license_groups": [["FREE", ["MIT", "@GPLS"]], ...],      # profiles/license_groups, in file order
              "masks": ["cat/pkg", ...],                                # profiles/package.mask (repository level)
              "pkgs": [{"cpv": "cat/pkg-1.0-r1", "slot": "0", "keywords": "amd64 ~x86", "license": "|| ( A B )"}]},
     "profile": [{"name": "p0",                                         # parent first, the selected profile last
                  "make_defaults": {"ARCH": "amd64", "ACCEPT_KEYWORDS": "amd64", "ACCEPT_LICENSE": "-* @FREE"},
                  "package.mask": ["cat/pkg", "-cat/other"], "package.unmask": [...],
                  "package.accept_keywords": ["cat/pkg ~amd64", "cat/pkg"], "package.keywords": ["cat/pkg x86"]}],
     "make_conf": {"ACCEPT_KEYWORDS": "~amd64", "ACCEPT_LICENSE": "* -@EULA"},
     "user": {"package.mask": [[None, ["line", ...]]],                   # [[filename-or-None, lines], ...];
              "package.unmask": ..., "package.accept_keywords": ...,    # None = the name is a single file,
              "package.license": ...}}                                  # otherwise files inside a directory

Every clause is evaluated under a set of *options*.  Options in UNSPECIFIED are readings the statement leaves open
(both values are tried; when they disagree the clause is "unknown" and not judged).  Options in DEFECTS describe
specific wrong models used only to *classify* an observed deviation as one recorded mechanism.
"""

import fnmatch
import itertools
import re

from . import pms_version as pv

# ---------------------------------------------------------------------------------------------------------------
# options

UNSPECIFIED = {
    # `=cat/pkg-1*`: PMS compares version components, the historical reading is a string prefix (property C04)
    "glob": ("components", "prefix"),
    # a profile `-atom` line that textually equals a repository-level (profiles/package.mask) mask: PMS says such a
    # line removes a mask of a parent profile, "but not necessarily a global mask"
    "neg_hits_repo": (False, True),
    # the statement does not say that ARCH itself, or K for an accepted ~K, is accepted without being listed
    "implied_stable": (False, True),
    # profile package.keywords (KEYWORDS additions) is not mentioned by the statement
    "profile_keywords": (False, True),
    # ACCEPT_LICENSE not set anywhere: nothing accepted / everything accepted
    "unset_license_all": (False, True),
}

DEFECTS = (
    "profile_license_collapsed",
    "global_kw_wildcards_unexpanded",
    "matchall_empty_entry_chars",
    "license_entry_dedup",
)


def default_opts():
    o = {k: v[0] for k, v in UNSPECIFIED.items()}
    for d in DEFECTS:
        o[d] = False
    return o


# ---------------------------------------------------------------------------------------------------------------
# packages and atoms

_VER_TAIL = re.compile(r"^(?P<name>.+?)-(?P<ver>\d+(?:\.\d+)*[a-z]?(?:_(?:alpha|beta|pre|rc|p)\d*)*)(?:-r(?P<rev>\d+))?$")


def split_cpv(cpv):
    cat, rest = cpv.split("/", 1)
    m = _VER_TAIL.match(rest)
    if not m:
        raise ValueError("unversioned cpv %r" % (cpv,))
    return cat, m.group("name"), m.group("ver"), m.group("rev") or ""


def pkg_view(p):
    cat, name, ver, rev = split_cpv(p["cpv"])
    slot = p.get("slot", "0")
    slot, _, sub = slot.partition("/")
    return {"cat": cat, "name": name, "ver": ver, "rev": rev, "slot": slot, "subslot": sub or slot,
            "keywords": p.get("keywords", "").split(), "license": p.get("license", ""), "cpv": p["cpv"]}


_OPS = (">=", "<=", "=", ">", "<", "~")


def parse_spec(text):
    """Parse a package spec line token: an atom (optionally with operator/version/slot) or an extended glob."""
    t = text
    slot = sub = None
    if ":" in t:
        t, s = t.rsplit(":", 1)
        slot, _, sub = s.partition("/")
        slot = slot or None
        sub = sub or None
    op = ""
    for o in _OPS:
        if t.startswith(o):
            op, t = o, t[len(o):]
            break
    cat, _, rest = t.partition("/")
    spec = {"op": op, "cat": cat, "slot": slot, "subslot": sub, "glob": False, "text": text}
    if op:
        if op == "=" and rest.endswith("*"):
            spec["op"] = "=*"
            rest = rest[:-1]
        m = _VER_TAIL.match(rest)
        if not m:
            raise ValueError("operator without version: %r" % (text,))
        spec.update(name=m.group("name"), ver=m.group("ver"), rev=m.group("rev") or "",
                    has_rev=m.group("rev") is not None)
    else:
        spec.update(name=rest, ver=None, rev=None)
        if "*" in cat or "*" in rest:
            spec["glob"] = True
    return spec


def _glob_version_match(spec, p, mode):
    pf = p["ver"] + ("-r" + p["rev"] if p["rev"] else "")
    sf = spec["ver"] + ("-r" + spec["rev"] if spec["has_rev"] else "")
    if mode == "prefix":
        return pf.startswith(sf)
    # component reading (PMS 8.3.1: "=...*": the package version, taken as a string, starts with the spec's and the
    # match ends at a version component boundary)
    if not pf.startswith(sf):
        return False
    tail = pf[len(sf):]
    if tail == "":
        return True
    if sf[-1].isdigit() and tail[0].isdigit():
        return False
    return True


def spec_matches(spec, p, opts):
    if spec["glob"]:
        if not fnmatch.fnmatchcase(p["cat"], spec["cat"]):
            return False
        if not fnmatch.fnmatchcase(p["name"], spec["name"]):
            return False
    else:
        if spec["cat"] != p["cat"] or spec["name"] != p["name"]:
            return False
    if spec["slot"] is not None and spec["slot"] != p["slot"]:
        return False
    if spec["subslot"] is not None and spec["subslot"] != p["subslot"]:
        return False
    op = spec["op"]
    if not op:
        return True
    if op == "=*":
        return _glob_version_match(spec, p, opts["glob"])
    if op == "~":
        return pv.ver_cmp(p["ver"], "", spec["ver"], "") == 0
    c = pv.ver_cmp(p["ver"], p["rev"], spec["ver"], spec["rev"])
    return pv.OPS[op](c)


_spec_cache = {}


def matches(text, p, opts):
    s = _spec_cache.get(text)
    if s is None:
        s = _spec_cache[text] = parse_spec(text)
        if len(_spec_cache) > 20000:
            _spec_cache.clear()
    return spec_matches(s, p, opts)


# ---------------------------------------------------------------------------------------------------------------
# configuration access helpers


def user_lines(cfg, name):
    """Lines of a user configuration file/directory in the order they are read (files sorted by name)."""
    out = []
    files = cfg.get("user", {}).get(name) or []
    for _fn, lines in sorted(files, key=lambda fl: fl[0] or ""):
        out.extend(lines)
    return out


def incremental(tokens, start=()):
    s = set(start)
    for t in tokens:
        if t == "-*":
            s.clear()
        elif t.startswith("-"):
            s.discard(t[1:])
        else:
            s.add(t)
    return s


def arch_of(cfg):
    arch = None
    for node in cfg["profile"]:
        arch = node.get("make_defaults", {}).get("ARCH", arch)
    return arch


# ---------------------------------------------------------------------------------------------------------------
# masks


def mask_sets(cfg, opts):
    masks = [(m, "repo") for m in cfg["repo"].get("masks", [])]
    unmasks = []
    for node in cfg["profile"]:
        for fname, acc in (("package.mask", masks), ("package.unmask", unmasks)):
            lines = node.get(fname, [])
            neg = [l[1:] for l in lines if l.startswith("-")]
            pos = [l for l in lines if not l.startswith("-")]
            for n in neg:
                # a profile `-atom` line removes the same line of a parent profile; whether it also removes an
                # identical repository-level mask is the unspecified reading `neg_hits_repo`
                acc[:] = [(m, o) for m, o in acc if not (m == n and (o == "profile" or opts["neg_hits_repo"]))]
            acc.extend((l, "profile") for l in pos)
    masks = [m for m, _o in masks] + user_lines(cfg, "package.mask")
    unmasks = [m for m, _o in unmasks] + user_lines(cfg, "package.unmask")
    return masks, unmasks


def mask_clause(cfg, p, opts, detail=None):
    masks, unmasks = mask_sets(cfg, opts)
    hit_m = [m for m in masks if matches(m, p, opts)]
    hit_u = [u for u in unmasks if matches(u, p, opts)]
    if detail is not None:
        detail["masks"] = sorted(set(hit_m))
        detail["unmasks"] = sorted(set(hit_u))
    return not hit_m or bool(hit_u)


# ---------------------------------------------------------------------------------------------------------------
# keywords


def global_accept_keywords(cfg):
    toks = []
    for node in cfg["profile"]:
        toks.extend(node.get("make_defaults", {}).get("ACCEPT_KEYWORDS", "").split())
    toks.extend(cfg.get("make_conf", {}).get("ACCEPT_KEYWORDS", "").split())
    return incremental(toks)


def keyword_entries(cfg):
    """All package.accept_keywords entries: (spec, tokens, origin)."""
    out = []
    for line in user_lines(cfg, "package.accept_keywords"):
        f = line.split()
        out.append((f[0], f[1:], "user"))
    for node in cfg["profile"]:
        for line in node.get("package.accept_keywords", []):
            f = line.split()
            out.append((f[0], f[1:], "profile"))
    return out


def has_profile_keywords(cfg):
    return any(node.get("package.keywords") for node in cfg["profile"])


def keyword_clause(cfg, p, opts, detail=None):
    arch = arch_of(cfg)
    acc = global_accept_keywords(cfg)
    stable_system = ("~" + arch) not in acc
    entries = keyword_entries(cfg)
    allowed = set(acc)
    if opts["implied_stable"]:
        allowed.add(arch)
        allowed.update(k[1:] for k in acc if k.startswith("~"))
    matched = []
    for spec, toks, origin in entries:
        if not matches(spec, p, opts):
            continue
        matched.append((spec, toks))
        if not toks:
            if stable_system:
                if opts["matchall_empty_entry_chars"] and parse_spec(spec)["glob"] and \
                        set(parse_spec(spec)["cat"]) <= {"*"} and set(parse_spec(spec)["name"]) <= {"*"} \
                        and parse_spec(spec)["slot"] is None:
                    allowed.update("~" + arch)  # the characters, one by one
                else:
                    allowed.add("~" + arch)
        else:
            allowed.update(toks)
    kws = list(p["keywords"])
    if opts["profile_keywords"]:
        for node in cfg["profile"]:
            for line in node.get("package.keywords", []):
                f = line.split()
                if matches(f[0], p, opts):
                    kws.extend(f[1:])
    wildcards = True
    if opts["global_kw_wildcards_unexpanded"] and not entries and not has_profile_keywords(cfg):
        wildcards = False
    rule = None
    if wildcards and "**" in allowed:
        rule = "**"
    elif wildcards and "*" in allowed and any(k[0] not in "-~" for k in kws):
        rule = "*"
    elif wildcards and "~*" in allowed and any(k[0] == "~" for k in kws):
        rule = "~*"
    elif any(k in allowed for k in kws if not k.startswith("-")):
        rule = "listed"
    if detail is not None:
        detail["kw_allowed"] = sorted(allowed)
        detail["kw_rule"] = rule
        detail["kw_entries"] = [[s, t] for s, t in matched]
        detail["kw_global_only"] = sorted(acc)
    return rule is not None


# ---------------------------------------------------------------------------------------------------------------
# licenses


def expand_groups(groups_list):
    """{name: set(licenses)} with nested @references expanded (the generator never emits cycles)."""
    raw = {}
    for name, toks in groups_list:
        raw.setdefault(name, []).extend(toks)
    done = {}

    def ex(name, stack):
        if name in done:
            return done[name]
        out = set()
        for t in raw.get(name, ()):
            if t.startswith("@"):
                if t[1:] in stack or t[1:] not in raw:
                    continue
                out |= ex(t[1:], stack + (t[1:],))
            else:
                out.add(t)
        done[name] = out
        return out

    for n in raw:
        ex(n, (n,))
    return done


def parse_license(text):
    """LICENSE string -> tree: ("all", [...]) / ("any", [...]) / ("lic", name).  No USE conditionals (not generated)."""
    toks = text.split()
    pos = 0

    def seq(closing):
        nonlocal pos
        items = []
        while pos < len(toks):
            t = toks[pos]
            if t == ")":
                if not closing:
                    raise ValueError("stray )")
                pos += 1
                return items
            if t == "||":
                if pos + 1 >= len(toks) or toks[pos + 1] != "(":
                    raise ValueError("|| without (")
                pos += 2
                items.append(("any", seq(True)))
            elif t == "(":
                pos += 1
                items.append(("all", seq(True)))
            elif t.endswith("?"):
                raise ValueError("USE conditional in LICENSE is outside the model")
            else:
                pos += 1
                items.append(("lic", t))
        if closing:
            raise ValueError("missing )")
        return items

    return ("all", seq(False))


def license_names(tree):
    if tree[0] == "lic":
        return {tree[1]}
    out = set()
    for c in tree[1]:
        out |= license_names(c)
    return out


def _dedup(seq):
    seen = set()
    out = []
    for x in seq:
        if x not in seen:
            seen.add(x)
            out.append(x)
    return out


def license_token_stream(cfg, p, opts, detail=None):
    prof = []
    for node in cfg["profile"]:
        prof.extend(node.get("make_defaults", {}).get("ACCEPT_LICENSE", "").split())
    conf = cfg.get("make_conf", {}).get("ACCEPT_LICENSE", "").split()
    if opts["profile_license_collapsed"]:
        # the profile value treated as a plain incremental variable: `-x` only deletes the literal token x,
        # then the surviving positive tokens are kept as an (unordered) set
        prof = sorted(incremental(prof))
    glob = prof + conf
    unset = not glob
    ent = []
    matched = []
    for line in user_lines(cfg, "package.license"):
        f = line.split()
        if matches(f[0], p, opts):
            toks = f[1:]
            if opts["license_entry_dedup"]:
                toks = _dedup(toks)
            ent.extend(toks)
            matched.append(line)
    if detail is not None:
        detail["lic_global"] = glob
        detail["lic_entries"] = matched
    if unset and opts["unset_license_all"]:
        glob = ["*"]
    if opts["profile_license_collapsed"] and unset and not user_lines(cfg, "package.license"):
        # ... and a value that collapses to nothing is indistinguishable from "not set": no license filtering at all
        glob = ["*"]
    return glob + ent, unset


def license_accepted(lic, stream, groups):
    ok = False
    for t in stream:
        if t == "*":
            ok = True
        elif t == "-*":
            ok = False
        elif t.startswith("-@"):
            if lic in groups.get(t[2:], ()):
                ok = False
        elif t.startswith("@"):
            if lic in groups.get(t[1:], ()):
                ok = True
        elif t.startswith("-"):
            if t[1:] == lic:
                ok = False
        elif t == lic:
            ok = True
    return ok


def deciding_token(lic, stream, groups):
    """The last token of the stream that sets the state of `lic` (None: never mentioned)."""
    last = None
    for t in stream:
        if t in ("*", "-*"):
            last = t
        elif t.startswith("-@") and lic in groups.get(t[2:], ()):
            last = t
        elif t.startswith("@") and lic in groups.get(t[1:], ()):
            last = t
        elif t.startswith("-") and t[1:] == lic:
            last = t
        elif t == lic:
            last = t
    return last


def _sat(tree, acc):
    kind = tree[0]
    if kind == "lic":
        return acc(tree[1])
    if kind == "all":
        return all(_sat(c, acc) for c in tree[1])
    return any(_sat(c, acc) for c in tree[1])


def license_clause(cfg, p, opts, detail=None):
    groups = expand_groups(cfg["repo"].get("license_groups", []))
    stream, _unset = license_token_stream(cfg, p, opts, detail)
    tree = parse_license(p["license"])
    cache = {}

    def acc(lic):
        if lic not in cache:
            cache[lic] = license_accepted(lic, stream, groups)
        return cache[lic]

    res = _sat(tree, acc)
    if detail is not None:
        detail["lic_accepted"] = sorted(l for l in license_names(tree) if acc(l))
        detail["lic_stream"] = stream
        detail["lic_deciding"] = sorted({str(deciding_token(l, stream, groups)) for l in license_names(tree)})
    return res


# ---------------------------------------------------------------------------------------------------------------
# evaluation over the unspecified readings

CLAUSES = {"mask": mask_clause, "keywords": keyword_clause, "license": license_clause}


def all_specs(cfg):
    """Every package spec written anywhere in the configuration."""
    for m in cfg["repo"].get("masks", []):
        yield m
    for node in cfg["profile"]:
        for fname in ("package.mask", "package.unmask"):
            for l in node.get(fname, []):
                yield l.lstrip("-")
        for fname in ("package.accept_keywords", "package.keywords"):
            for l in node.get(fname, []):
                yield l.split()[0]
    for name in ("package.mask", "package.unmask", "package.accept_keywords", "package.license"):
        for l in user_lines(cfg, name):
            yield l.split()[0]


def relevant_dims(cfg):
    """Unspecified dimensions that can matter for this configuration (keeps the product small)."""
    dims = []
    if any(sp.startswith("=") and sp.split(":")[0].endswith("*") for sp in all_specs(cfg)):
        dims.append("glob")
    repo_masks = set(cfg["repo"].get("masks", []))
    if any(l.startswith("-") and l[1:] in repo_masks for n in cfg["profile"] for l in n.get("package.mask", [])):
        dims.append("neg_hits_repo")
    dims.append("implied_stable")
    if has_profile_keywords(cfg):
        dims.append("profile_keywords")
    if not any(n.get("make_defaults", {}).get("ACCEPT_LICENSE", "").split() for n in cfg["profile"]) and \
            not cfg.get("make_conf", {}).get("ACCEPT_LICENSE", "").split():
        dims.append("unset_license_all")
    return dims


def option_space(cfg, base=None):
    dims = relevant_dims(cfg)
    for combo in itertools.product(*(UNSPECIFIED[d] for d in dims)):
        o = default_opts()
        if base:
            o.update(base)
        o.update(zip(dims, combo))
        yield o


def evaluate(cfg, p, defects=None, want_detail=False):
    """-> {"mask": v, "keywords": v, "license": v, "visible": v, "detail": {...}} with v in True / False / None.

    None = the readings the statement leaves open disagree (not judged).  `defects` switches on wrong models."""
    base = {d: True for d in (defects or ())}
    per = {c: set() for c in CLAUSES}
    vis = set()
    detail = {} if want_detail else None
    first = True
    for o in option_space(cfg, base):
        r = {}
        for c, fn in CLAUSES.items():
            r[c] = fn(cfg, p, o, detail if first else None)
            per[c].add(r[c])
        vis.add(all(r.values()))
        first = False
    out = {c: (next(iter(v)) if len(v) == 1 else None) for c, v in per.items()}
    out["visible"] = next(iter(vis)) if len(vis) == 1 else None
    if want_detail:
        out["detail"] = detail
    return out
