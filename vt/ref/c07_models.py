"""Classification of C07 witnesses by mechanism (the C07 oracle itself is the implication law, not this file).

A witness carries the two recipes (vt/gen/c07_recipes.py).  The recipes are normalised (construction-route details
that cannot change the meaning are dropped), aligned, and every place where they still differ ("leaf difference")
must be one of the specific look-alike shapes below, otherwise the witness stays unclassified.

No pkgcore import.
"""

import json

from ..gen import c02_pairs as g2
from . import c02_models as m2

COMPLEMENT = {"<": ">=", ">=": "<", "<=": ">", ">": "<="}
OPSETS = {"<": {-1}, "<=": {-1, 0}, "=": {0}, ">=": {0, 1}, ">": {1}, "~": {0}}
IDHASH_TAGS = ("Flatten", "Func", "StrConv")
LIST_SLOT = {"VBool": 3, "PBool": 3, "Cond": 3, "ReqCond": 3, "DepSet": 2}
SINGLE_CHILD = {"Flatten": 1, "StrConv": 1, "AnyMatch": 1, "PkgR": 2}


def norm(r):
    """Drop construction-route details that cannot change what the object is."""
    if not isinstance(r, list) or not r:
        return r
    tag = r[0]
    if tag == "StrExact":
        exact = r[1] if r[2] else r[1].lower()
        return [tag, exact, bool(r[2]), bool(r[3])]
    if tag == "StrGlob":
        return [tag, r[1] if r[2] else r[1].lower(), bool(r[2]), bool(r[3]), bool(r[4])]
    if tag == "Contain":
        return [tag, sorted(set(r[1])), bool(r[2]), bool(r[3])]
    if tag in ("Flatten", "Func"):
        return [tag, norm(r[1]), bool(r[2])]
    if tag == "VersionMatch":
        # route "pos" passes negate positionally: only the inner _VersionMatch is negated, the wrapper is not
        return [tag, r[1], r[2], r[3], bool(r[4]), bool(r[4]) and r[5] == "kw"]
    if tag == "UseDepDefault":
        return [tag, bool(r[1]), sorted(set(r[2])), sorted(set(r[3]))]
    if tag == "UseDefault":
        return [tag, bool(r[1]), sorted(set(r[2])), bool(r[3])]
    if tag == "StaticUseDep":
        return [tag, sorted(set(r[1])), sorted(set(r[2]))]
    if tag in LIST_SLOT:
        i = LIST_SLOT[tag]
        return r[:i] + [[norm(c) for c in r[i]]] + r[i + 1:]
    if tag in SINGLE_CHILD:
        i = SINGLE_CHILD[tag]
        return r[:i] + [norm(r[i])] + r[i + 1:]
    return r


def leafdiffs(a, b):
    """Aligned descent; -> list of (sub-recipe of a, sub-recipe of b) where they differ."""
    if a == b:
        return []
    if isinstance(a, list) and isinstance(b, list) and a and b and a[0] == b[0]:
        tag = a[0]
        if tag in LIST_SLOT and tag != "DepSet":
            i = LIST_SLOT[tag]
            if a[:i] == b[:i] and a[i + 1:] == b[i + 1:] and len(a[i]) == len(b[i]):
                out = []
                for x, y in zip(a[i], b[i]):
                    out.extend(leafdiffs(x, y))
                return out
        if tag in SINGLE_CHILD:
            i = SINGLE_CHILD[tag]
            if a[:i] == b[:i] and a[i + 1:] == b[i + 1:]:
                return leafdiffs(a[i], b[i])
    return [(a, b)]


def _revint(r):
    return int(r or "0")


def _effective(op, negate):
    s = OPSETS[op]
    return frozenset({-1, 0, 1} - s) if negate else frozenset(s)


def contains_tag(r, tags):
    if isinstance(r, list):
        if r and r[0] in tags:
            return True
        return any(contains_tag(x, tags) for x in r)
    return False


def _canon(x):
    return json.dumps(x, sort_keys=True)


def _use_default_only(fa, fb):
    """atoms identical except for the sign of USE-dep defaults ((+) vs (-)) on the same tokens"""
    if fa.get("use") is None or fb.get("use") is None:
        return False
    if {k: v for k, v in fa.items() if k != "use"} != {k: v for k, v in fb.items() if k != "use"}:
        return False
    sa, sb = sorted(fa["use"]), sorted(fb["use"])
    strip = lambda t: t.replace("(+)", "(?)").replace("(-)", "(?)")
    return sa != sb and sorted(map(strip, sa)) == sorted(map(strip, sb))


def mechanisms(p, q):
    """-> set of mechanism names explaining why the leaf recipes p, q are (wrongly or harmlessly) taken as equal."""
    out = set()
    if not (isinstance(p, list) and isinstance(q, list) and p and q):
        return out
    if {p[0], q[0]} == {"Contain", "UseDefault"}:
        # a plain ContainmentMatch(all) and a USE-default containment over the same flags: equality does not look at the class
        c, u = (p, q) if p[0] == "Contain" else (q, p)
        if c[2] and c[1] == sorted(set(u[2])) and bool(c[3]) == bool(u[3]):
            out.add("ifmissing")
        return out
    if p[0] != q[0]:
        return out
    tag = p[0]
    if tag in ("VerMatch", "VersionMatch"):
        if tag == "VersionMatch" and p[5] != q[5]:
            return out  # the wrappers differ in their own negate flag: they are not equal to begin with
        if p[2] != q[2] or _revint(p[3]) != _revint(q[3]):
            return out
        if p[1] == "~" and q[1] == "~":
            if bool(p[4]) != bool(q[4]):
                out.add("tilde")
        elif "~" not in (p[1], q[1]):
            if _effective(p[1], p[4]) == _effective(q[1], q[4]) and (p[1], bool(p[4])) != (q[1], bool(q[4])):
                out.add("negop")
            elif (p[1], bool(p[4])) != (q[1], bool(q[4])):
                return set()
        else:
            return set()
        if p[3] != q[3]:
            out.add("rev")
            if (p[3] is None) != (q[3] is None) and "~" not in (p[1], q[1]):
                # rev=None is == Revision("")/("0") but ver_cmp orders None below every Revision object
                out.add("revnone")
        return out
    if tag == "UseDefault":
        if p[2] == q[2] and bool(p[3]) == bool(q[3]) and bool(p[1]) != bool(q[1]):
            out.add("ifmissing")
        return out
    if tag == "UseDepDefault":
        if p[2] == q[2] and p[3] == q[3] and bool(p[1]) != bool(q[1]):
            out.add("ifmissing")
        return out
    if tag == "Atom":
        fa, fb = p[1], q[1]
        ea, eb = m2.atom_eq_attrs(fa), m2.atom_eq_attrs(fb)
        if ea == eb and g2.atom_str(fa) != g2.atom_str(fb):
            out.add("atomhash")
        if _use_default_only(fa, fb):
            out.add("ifmissing-atom")
        return out
    if tag == "DepSet":
        if p[1] == q[1] and {_canon(x) for x in p[2]} == {_canon(x) for x in q[2]} and p[2] != q[2]:
            out.add("depset")
        return out
    return out


KEYS = {
    "tilde": "C07:tilde-negate-ignored",
    "negop": "C07:versionmatch-negated-op-hash",
    "rev": "C07:versionmatch-revision-hash-of-spelling",
    "revnone": "C07:versionmatch-rev-none-not-zero",
    "ifmissing": "C07:usedep-default-containment-eq-inherited",
    "ifmissing-atom": "C07:usedep-default-containment-eq-inherited",
    "atomhash": "C07:atom-hash-of-spelling",
    "depset": "C07:depset-hash-order-sensitive",
    "idhash": "C07:identity-hash-structural-eq",
}
HASH_PRIORITY = ["tilde", "negop", "rev", "atomhash", "depset", "idhash"]
MATCH_PRIORITY = ["tilde", "ifmissing", "revnone"]


def _and_signatures(r, out):
    from ..gen import c07_recipes as gen

    for _p, n in gen.nodes(r):
        _and_signature_of_node(n, out)
        if n[0] == "DepSet":  # nodes() stops at dependency sets; their members are atoms / REQUIRED_USE nodes
            for m in n[2]:
                _and_signatures(m, out)


def _and_signature_of_node(r, out):
    """(frozenset(false flags), frozenset(true flags)) -> flavours, for every construct in recipe r that makes pkgcore build
    values.AndRestriction(<containment negate>, <containment>) over USE flags (the instance cache keys that object by its
    children, and plain / (+) / (-) containments over the same flags are equal and hash equally)."""
    if not isinstance(r, list) or not r:
        return
    tag = r[0]
    if tag == "StaticUseDep" and r[1] and r[2]:
        out.setdefault((frozenset(r[1]), frozenset(r[2])), set()).add("static")
    elif tag == "UseDepDefault" and r[2] and r[3]:
        out.setdefault((frozenset(r[2]), frozenset(r[3])), set()).add("default+" if r[1] else "default-")
    elif tag == "Atom" and r[1].get("use"):
        groups = {"static": ([], []), "default+": ([], []), "default-": ([], [])}
        for t in r[1]["use"]:
            if t[-1] in "?=":
                return  # transitive USE deps are expanded per USE state; not modelled here
            fl = "static"
            if t.endswith("(+)"):
                fl, t = "default+", t[:-3]
            elif t.endswith("(-)"):
                fl, t = "default-", t[:-3]
            if t.startswith("-"):
                groups[fl][0].append(t[1:])
            else:
                groups[fl][1].append(t)
        for fl, (fa, tr) in groups.items():
            if fa and tr:
                out.setdefault((frozenset(fa), frozenset(tr)), set()).add(fl)


def _instance_cache_explained(a, b):
    from ..gen import c07_recipes as gen

    want = ("tilde", "ifmissing", "ifmissing-atom", "revnone")
    nb = [y for _p, y in gen.nodes(b)]
    for _p, x in gen.nodes(a):
        for y in nb:
            if not (isinstance(x, list) and isinstance(y, list) and x and y) or x == y:
                continue
            sub = set()
            for p_, q_ in leafdiffs(x, y):
                m = mechanisms(p_, q_)
                if not m:
                    sub = None
                    break
                sub |= m
            if sub:
                for m in want:
                    if m in sub:
                        return KEYS[m]
    sa, sb = {}, {}
    _and_signatures(a, sa)
    _and_signatures(b, sb)
    for sig, fl in sa.items():
        if sig in sb and (fl | sb[sig]) != fl & sb[sig]:
            return KEYS["ifmissing"]
    return None


def classify(w):
    kind = w.get("kind")
    r1, r2 = w.get("r1"), w.get("r2")
    if not isinstance(r1, list) or not isinstance(r2, list):
        return None
    if w.get("path"):
        return None  # special construction paths (incremental build) have no recorded mechanism
    a, b = norm(r1), norm(r2)
    if kind == "instance-cache-returns-other-query":
        # the weak instance cache is keyed by constructor arguments, i.e. by child restrictions: it is enough that
        # some sub-tree of r2 is a known wrongly-equal look-alike of some sub-tree of r1
        return _instance_cache_explained(a, b)
    leaves = leafdiffs(a, b)
    mechs = set()
    for p, q in leaves:
        m = mechanisms(p, q)
        if not m:
            return None  # a difference nobody has explained: stays a violation
        mechs |= m
    if kind != "equal-hash-differs":
        # plain / (+) / (-) USE containments over the same flag sets inside the pair: whichever And-tree was built first
        # is handed to the others by the instance cache, so the outcome depends on build and evaluation order
        sig = {}
        _and_signatures(a, sig)
        _and_signatures(b, sig)
        if any(len(fl) > 1 for fl in sig.values()):
            mechs.add("ifmissing")
    if kind == "equal-hash-differs":
        if contains_tag(a, IDHASH_TAGS) and contains_tag(b, IDHASH_TAGS):
            mechs.add("idhash")
        for m in HASH_PRIORITY:
            if m in mechs:
                return KEYS[m]
        return None
    if kind in ("equal-match-differs", "query-cache-returns-other-query", "compiled-cache-returns-other-query"):
        for m in MATCH_PRIORITY:
            if m in mechs:
                return KEYS[m]
        return None
    return None
