"""C11 *classifier* model (NOT the oracle): a mechanistic model of how ChunkedDataDict stores chunks, with one switch
per recorded defect mechanism.  The oracle of C11 is the ordered fold in c11_use_stack.py; this model is only used
to decide WHICH recorded mechanism explains an already-detected violation:

    classify(witness) = the smallest set S of recorded mechanisms such that  model(S buggy, rest repaired)  gives
                        exactly the wrong answer the real code gave.

A violation whose wrong answer is not reproduced by any combination of recorded mechanisms stays unclassified
(=> VIOLATION).  With every switch repaired the model equals the ordered fold (checked by the module's self test and on
every run for the witness at hand), with every switch buggy it describes the snapshot's behaviour.

Mechanisms (each has a proposed repair in the final report):
  collapse-reset-not-barrier      _build_cp_atom_payload walks right->left remembering the last mention of every
                                  name and treats "*" / "PREFIX_*" in neg as just another name: the reset is hoisted
                                  to the front of the collapsed chunk (or pushed behind it, for non-simple keys), so it no
                                  longer clears exactly the entries that preceded it.
  optimize-delta-drops-override   second pass of _build_cp_atom_payload drops a specific entry's -x (+x) when the collapsed
                                  simple chunk already says -x (+x), although an intervening specific entry flipped x.
  specific-add-reapplies-globals  update_from_stream() re-appends every chunk of _global_settings that is not `in` the key's
                                  list; after a collapse the collapsed chunk is a new object, so all earlier globals are
                                  applied a second time, after the key's specific entries.
  clone-factory-aliases-source    clone() builds the new defaultdict with partial(list, self._global_settings): new keys of
                                  the clone are seeded from the SOURCE's (live) global list, not from the clone's own.
"""

from . import c11_use_stack as ref

MECHS = (
    "collapse-reset-not-barrier",
    "specific-add-reapplies-globals",
    "clone-factory-aliases-source",
    "optimize-delta-drops-override",
)


def is_reset(n):
    return n == "*" or n.endswith("_*")


def has_reset(ch):
    return any(is_reset(n) for n in ch[1])


def cp_of(r):
    """cat/pkg of an atom-like spec, None for "*" and "c/*"."""
    if r == "*" or r.endswith("/*"):
        return None
    s = r[1:] if r.startswith("=") else r
    s = s.split(":", 1)[0]
    if r.startswith("="):
        s = s.rsplit("-", 1)[0]
    return s


def is_simple(r):
    return r == "*" or (cp_of(r) == r)


def collapse(seq, restrict, bug_reset, bug_delta):
    """_build_cp_atom_payload at chunk level.  chunk = (r, neg tuple, pos tuple)."""
    seq = list(seq)
    if not bug_reset:
        # repaired: a reset-bearing chunk is a barrier; it is kept verbatim and segments are collapsed independently
        if len(seq) <= 1:
            return tuple(seq)
        out, seg = [], []
        for ch in seq:
            if has_reset(ch):
                out.extend(_collapse_segment(seg, restrict, bug_delta))
                out.append(ch)
                seg = []
            else:
                seg.append(ch)
        out.extend(_collapse_segment(seg, restrict, bug_delta))
        return tuple(out)
    return _collapse_segment(seq, restrict, bug_delta)


def _collapse_segment(seq, restrict, bug_delta):
    if len(seq) <= 1:
        return tuple(seq)
    locked = {}
    l = []
    for r, neg, pos in reversed(seq):
        if is_simple(r):
            for n in neg:
                locked.setdefault(n, False)
            for p in pos:
                locked.setdefault(p, True)
            continue
        neg = tuple(x for x in neg if x not in locked)
        pos = tuple(x for x in pos if x not in locked)
        if neg or pos:
            l.append((r, neg, pos))
    if not locked:
        return tuple(reversed(l))
    new_l = [(restrict, tuple(k for k, v in locked.items() if not v), tuple(k for k, v in locked.items() if v))]
    for r, neg, pos in reversed(l):
        if bug_delta:
            neg = tuple(x for x in neg if locked.get(x, True))
            pos = tuple(x for x in pos if not locked.get(x, False))
        if neg or pos:
            new_l.append((r, neg, pos))
    return tuple(new_l)


class Dict_:
    """One ChunkedDataDict instance."""

    def __init__(self, bugs):
        self.bugs = bugs
        self.G = []
        self.D = {}
        self.factory = self.G  # the list object new keys are seeded from
        self.frozen = False

    def _collapse(self, seq, restrict):
        return collapse(seq, restrict, "collapse-reset-not-barrier" in self.bugs,
                        "optimize-delta-drops-override" in self.bugs)

    def _key(self, k):
        if k not in self.D:
            self.D[k] = list(self.factory)
        return self.D[k]

    def add_global(self, r, neg, pos):
        if not neg and not pos:
            return
        payload = (r, tuple(set(neg)), tuple(set(pos)))
        for vals in self.D.values():
            vals.append(payload)
        self._expand_globals([payload])

    def _expand_globals(self, new):
        self.G.extend(new)
        if new[0][0] == "*":
            self.G[:] = list(self._collapse(self.G, "*"))

    def add(self, e):
        r = e["r"]
        k = cp_of(r)
        if k is None:
            self.add_global(r, e["neg"], e["pos"])
            return
        lst = self._key(k)
        if "specific-add-reapplies-globals" in self.bugs:
            for x in list(self.G):
                if x not in lst:
                    lst.append(x)
        lst.append((r, tuple(e["neg"]), tuple(e["pos"])))

    def merge(self, other):
        for k, values in list(other.D.items()):
            self._key(k).extend(values)
        if other.G:
            for k in set(self.D) - set(other.D):
                self.D[k].extend(other.G)
            self._expand_globals(list(other.G))

    def freeze(self):
        if not self.frozen:
            self.frozen = True
            self.D = {k: list(v) for k, v in self.D.items()}
            self.G = list(self.G)
            self.factory = self.G

    def clone(self, unfreeze):
        o = Dict_(self.bugs)
        if self.frozen and not unfreeze:
            o.D, o.G, o.frozen, o.factory = self.D, self.G, True, self.G
            return o
        if "clone-factory-aliases-source" in self.bugs:
            o.factory = self.G
            for k, values in self.D.items():
                o.D[k] = list(self.G) + list(values)
            o.G = list(self.G)
        else:
            o.G = list(self.G)
            o.factory = o.G
            for k, values in self.D.items():
                o.D[k] = list(values)
        return o

    def optimize(self):
        newd = {k: list(self._collapse(v, k)) for k, v in self.D.items()}
        g = list(self._collapse(self.G, "*"))
        if self.frozen:
            self.D, self.G = newd, g
            self.factory = self.G
        else:
            self.D.update(newd)
            self.G[:] = g

    def read(self, pkg, pre):
        cat, name, _ver, _slot = ref.pkg_parts(pkg)
        items = self.D.get("%s/%s" % (cat, name))
        if items is None:
            items = self.G
        flags = set(pre)
        for r, neg, pos in items:
            # a collapsed per-key chunk carries the key ("c/p") as restriction: it applies to every package of the key
            if ref.applies(r, pkg):
                ref.apply_entry(flags, neg, pos)
        return flags


class Runner:
    """Steps a C11 program (ChunkedDataDict registers only) on the model."""

    def __init__(self, bugs):
        self.bugs = frozenset(bugs)
        self.regs = {}

    def step(self, st):
        regs = self.regs
        op, v = st["op"], st["v"]
        if op == "new":
            regs[v] = Dict_(self.bugs)
        elif op == "bare":
            regs[v].add_global("*", st["neg"], st["pos"])
        elif op == "glob":
            regs[v].add_global(st["e"]["r"], st["e"]["neg"], st["e"]["pos"])
        elif op == "add":
            regs[v].add(st["e"])
        elif op == "stream":
            for e in st["es"]:
                regs[v].add(e)
        elif op == "pstream":
            # profiles._parse_package_use: the lines of one file are grouped per cat/pkg, each group goes through
            # _build_cp_atom_payload directly, then everything is fed to update_from_stream
            groups = {}
            for e in st["es"]:
                groups.setdefault(cp_of(e["r"]), []).append((e["r"], tuple(e["neg"]), tuple(e["pos"])))
            for k, chunks in groups.items():
                for r, neg, pos in regs[v]._collapse(chunks, k):
                    regs[v].add({"r": r, "neg": list(neg), "pos": list(pos)})
        elif op == "merge":
            regs[v].merge(regs[st["w"]])
        elif op == "freeze":
            regs[v].freeze()
        elif op == "clone":
            regs[st["to"]] = regs[v].clone(st["unfreeze"])
        elif op == "optimize":
            regs[v].optimize()
        elif op == "render":
            pass
        else:
            raise ValueError(op)


def run(prog, bugs):
    r = Runner(bugs)
    for st in prog:
        r.step(st)
    return r.regs


def explain(prog, v, pkg, pre, impl):
    """Smallest set of recorded mechanisms whose model reproduces the wrong answer `impl`; None if there is none."""
    import itertools

    impl = set(impl)
    for k in range(1, len(MECHS) + 1):
        for s in itertools.combinations(MECHS, k):
            try:
                got = run(prog, s)[v].read(pkg, pre)
            except Exception:
                continue
            if got == impl:
                return list(s)
    return None
