"""C30 reference model of the world file, written from the property statement (no pkgcore imports).

World file = one entry per line.  Entries are package atoms; comment lines (#...) and set references (@name) are not
entries (pkgcore documents that it drops @set lines on update).  Adding / removing an atom touches exactly the entry

    <category/name>            when the atom has no slot, or slot "0"
    <category/name>:<slot>     when the atom has a non-zero slot (the whole slot string)

and nothing else.  flush() makes the file contain exactly the in-memory entries, one per line, by atomic replacement.
"""

import re

SLOT_RE = re.compile(r"^[A-Za-z0-9_][A-Za-z0-9+_.-]*$")  # PMS 3.1.3


def atom_text(a):
    """Compose the textual atom from the generator's structured description
    {"key", "vop", "ver", "slot", "sub", "sop", "repo", "use"} -> [vop]key[-ver][:slot[/sub][=] | :sop][::repo][[use]]"""
    t = (a.get("vop") or "") + a["key"]
    if a.get("ver"):
        t += "-" + a["ver"]
    if a.get("slot"):
        t += ":" + a["slot"]
        if a.get("sub"):
            t += "/" + a["sub"]
        if a.get("sop") == "=":
            t += "="
    elif a.get("sop"):
        t += ":" + a["sop"]
    if a.get("repo"):
        t += "::" + a["repo"]
    if a.get("use"):
        t += "[" + a["use"] + "]"
    return t


def entry_for(key, slot):
    """The statement: 'exactly its name, or name:slot when a non-zero slot is given'."""
    if slot is None or slot == "" or slot == "0":
        return key
    return "%s:%s" % (key, slot)


def tolerated_entries(key, slot, sub, op):
    """Spellings the statement does not decide between (never reported as violations, counted as unspecified):
    a kept sub-slot / '=' operator, and a slot that is numerically zero but not the string '0'."""
    alt = set()
    if slot is not None and slot not in ("", "0"):
        if sub:
            alt.add("%s:%s/%s" % (key, slot, sub))
            if op == "=":
                alt.add("%s:%s/%s=" % (key, slot, sub))
        if op == "=":
            alt.add("%s:%s=" % (key, slot))
        if set(slot) == {"0"}:
            alt.add(key)
    elif slot == "0" and sub:
        alt.add("%s:0/%s" % (key, sub))
    return alt


def entries_of_text(text):
    """Entry lines of a world file text (set) + list of formatting problems."""
    problems = []
    seen = []
    for ln in text.split("\n"):
        s = ln.strip()
        if not s or s.startswith("#") or s.startswith("@"):
            continue
        if s != ln:
            problems.append("whitespace around entry %r" % ln)
        if len(s.split()) != 1:
            problems.append("more than one token on a line %r" % ln)
        if s in seen:
            problems.append("duplicate entry %r" % s)
        seen.append(s)
    return set(seen), problems


class Model:
    """mem = entries of the in-memory set, disk = entries of the file."""

    def __init__(self, entries):
        self.disk = set(entries)
        self.mem = set(entries)

    def add(self, key, slot):
        self.mem.add(entry_for(key, slot))
        return None

    def remove(self, key, slot):
        e = entry_for(key, slot)
        if e not in self.mem:
            return "KeyError"
        self.mem.discard(e)
        return None

    def flush(self):
        self.disk = set(self.mem)

    def reopen(self):
        self.mem = set(self.disk)


# --------------------------------------------------------------------------------------------------------------
# A specific WRONG model, used only by classify() to recognise one known mechanism:
# "the slot string is iterated character by character, each character handled as a slot of its own".

def _valid_single(ch):
    # what the atom parser accepts as a one-character slot: any slot character that is not a leading '-' or '.'
    return bool(re.match(r"^[A-Za-z0-9+_]$", ch))


def per_character_outcome(mem_before, op, key, slot):
    """(mem_after, exception_kind) of add/remove under the per-character mechanism."""
    mem = set(mem_before)
    if not slot:
        return None
    for ch in slot:
        if not _valid_single(ch):
            return mem, "MalformedAtom"
        e = key if ch == "0" else "%s:%s" % (key, ch)
        if op == "add":
            mem.add(e)
        else:
            if e not in mem:
                return mem, "KeyError"
            mem.discard(e)
    return mem, None
