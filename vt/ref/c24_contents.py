"""Reference model for C24 (vdb CONTENTS round trip), written from the property statement.

An entry is a 5-tuple ``(type, path, md5, mtime, target)``:

    ("obj", path, md5:int, mtime:number, None)
    ("sym", path, None,    mtime:number, target:str)
    ("dir"|"fif"|"dev", path, None, None, None)

``expected(entries)`` is what a reader must yield for a written set according to the statement:
type, path, MD5 and *integral* mtime for files, target and mtime for symlinks, the path alone for
directories, fifos and devices.  Nothing in here parses or prints like pkgcore does, except the two
``wrong_*`` functions, which describe two *specific wrong readers* and exist only so that the
classifier can recognise exactly those mechanisms.
"""

import os

TYPES = ("obj", "sym", "dir", "fif", "dev")


def norm(e):
    t, path, md5, mtime, target = e
    if t == "obj":
        return ("obj", path, int(md5), int(mtime), None)
    if t == "sym":
        return ("sym", path, None, int(mtime), target)
    return (t, path, None, None, None)


def expected(entries):
    """{location: normalised entry} -- the round-trip specification."""
    return {e[1]: norm(e) for e in entries}


def reference_line(e):
    """The line the (portage-compatible) CONTENTS format prescribes for an entry."""
    t, path, md5, mtime, target = e
    if t == "obj":
        return "obj %s %032x %d" % (path, int(md5), int(mtime))
    if t == "sym":
        return "sym %s -> %s %d" % (path, target, int(mtime))
    return "%s %s" % (t, path)


def reference_file(entries):
    return "".join(reference_line(e) + "\n" for e in sorted(entries, key=lambda e: e[1]))


# ---- hazards (inputs on which a recorded mechanism can fire) ----------------------------------

def sym_location_has_arrow_token(e):
    return e[0] == "sym" and "->" in e[1].split(" ")


def pathonly_trailing_whitespace(e):
    return e[0] in ("dir", "fif", "dev") and e[1] != e[1].rstrip()


def is_live_device(path):
    import stat

    try:
        st = os.lstat(path)
    except OSError:
        return False
    return stat.S_ISCHR(st.st_mode) or stat.S_ISBLK(st.st_mode)


# ---- two specific wrong readers ---------------------------------------------------------------

def _in_file_order(entries):
    return sorted(entries, key=lambda e: e[1])


def wrong_first_arrow(entries):
    """A reader that splits a ``sym`` line at the FIRST stand-alone ``->`` token (so an arrow inside the
    link's own location is taken for the separator); later lines overwrite earlier ones of the same location."""
    out = {}
    for e in _in_file_order(entries):
        n = norm(e)
        if e[0] == "sym":
            s = ("sym %s -> %s %d" % (e[1], e[4], int(e[3]))).split(" ")
            p = s.index("->")
            loc = os.path.normpath(" ".join(s[1:p]))
            n = ("sym", loc, None, int(e[3]), " ".join(s[p + 1:-1]))
        out[n[1]] = n
    return out


def wrong_strip_lines(entries):
    """A reader that strips every line (str.strip) before parsing: a path-only entry loses trailing whitespace."""
    out = {}
    for e in _in_file_order(entries):
        n = norm(e)
        if e[0] in ("dir", "fif", "dev"):
            n = (e[0], os.path.normpath(e[1].rstrip()), None, None, None)
        out[n[1]] = n
    return out
