"""Reference semantics for restriction-tree *specs* (C06, reused by C08).

A spec is a plain JSON-able description of a restriction tree (see vt/gen/c06_spec.py for the
builder that turns it into real pkgcore objects).  This module gives the spec its meaning
straight from the property statement: boolean nodes are propositional connectives, leaves are
elementary string / membership predicates.  Nothing here imports pkgcore.

Package level specs                               meaning for a package `p` (dict attr -> value)
  {"k":"pr","attr":A,"neg":b,"v":V}               value(V, p[A]) xor b
  {"k":"not","x":P}                               not P
  {"k":"and"|"or"|"one"|"amo","neg":b,"xs":[..]}  all / any / exactly one / at most one, xor b
  {"k":"const","val":b}                           b
  {"k":"atom","s":"[op]cat/pkg[-ver][:slot][[use]]"}  conjunction of its parts
Value level specs                                 meaning for a value `x`
  {"k":"exact","s":S,"neg":b}                     (str(x) == S) xor b
  {"k":"glob","s":S,"prefix":bool,"neg":b}        startswith / endswith
  {"k":"re","lit":S,"bol":b,"eol":b,"match":b,"neg":b}   literal regex, optional ^ $; search or match
  {"k":"has","vals":[..],"all":b,"neg":b}         substring (str) or membership (collections)
  {"k":"vnot","x":V}, {"k":"vand"|"vor"|"vone"|"vamo",...}, {"k":"vconst","val":b}
"""

import json

NODE_KINDS = ("and", "or", "one", "amo")
VNODE_KINDS = ("vand", "vor", "vone", "vamo")


class Unspecified(Exception):
    """The statement does not fix the meaning of this construct (e.g. empty any-of)."""


def _combine(kind, truths):
    n = sum(1 for t in truths if t)
    if kind in ("and", "vand"):
        return n == len(truths)
    if kind in ("or", "vor"):
        return n >= 1
    if kind in ("one", "vone"):
        return n == 1
    if kind in ("amo", "vamo"):
        return n <= 1
    raise ValueError(kind)


def has_empty_group(spec):
    """True when the tree contains an empty any-of / exactly-one-of group.

    Propositional logic reads an empty disjunction (and "exactly one of nothing") as false while PMS
    reads empty groups as satisfied; the statement does not choose, so such trees are not judged."""
    k = spec["k"]
    if k in ("or", "one", "vor", "vone") and not spec["xs"]:
        return True
    if k in ("and", "vand") and spec["neg"] and not spec["xs"]:
        return True  # derived through an empty any-of of the negated children
    if k in NODE_KINDS or k in VNODE_KINDS:
        return any(has_empty_group(x) for x in spec["xs"])
    if k in ("not", "vnot"):
        return has_empty_group(spec["x"])
    if k == "pr":
        return has_empty_group(spec["v"])
    return False


# -- value level ---------------------------------------------------------------------------
def eval_v(spec, x):
    k = spec["k"]
    if k == "exact":
        return (str(x) == spec["s"]) != spec["neg"]
    if k == "glob":
        s = str(x)
        r = s.startswith(spec["s"]) if spec["prefix"] else s.endswith(spec["s"])
        return r != spec["neg"]
    if k == "re":
        s = "" if x is None else str(x)
        lit = spec["lit"]
        if spec["bol"] or spec["match"]:
            r = (s == lit) if spec["eol"] else s.startswith(lit)
        else:
            r = s.endswith(lit) if spec["eol"] else (lit in s)
        return r != spec["neg"]
    if k == "has":
        vals = spec["vals"]
        if isinstance(x, str):
            if spec["all"] and len(vals) > 1:
                raise Unspecified("containment match_all against a string")
            r = any(v in x for v in vals)
        else:
            xs = set(x)
            r = all(v in xs for v in vals) if spec["all"] else any(v in xs for v in vals)
        return r != spec["neg"]
    if k == "vnot":
        return not eval_v(spec["x"], x)
    if k == "vconst":
        return bool(spec["val"])
    if k in VNODE_KINDS:
        return _combine(k, [eval_v(c, x) for c in spec["xs"]]) != spec["neg"]
    raise ValueError("unknown value spec %r" % (k,))


# -- atoms ---------------------------------------------------------------------------------
def parse_simple_atom(s):
    """Parse the tiny atom dialect used by the generators: [op]cat/pkg[-N][:slot][[flag|-flag]].

    Versions are plain non-negative integers without leading zeros (so that version comparison is
    integer comparison and nothing of C01/C04 leaks into this oracle)."""
    use = None
    if s.endswith("]"):
        s, use = s[:-1].split("[", 1)
    slot = None
    if ":" in s:
        s, slot = s.split(":", 1)
    op = ""
    for o in ("<=", ">=", "<", ">", "="):
        if s.startswith(o):
            op, s = o, s[len(o):]
            break
    cat, rest = s.split("/", 1)
    ver = None
    if op:
        rest, ver = rest.rsplit("-", 1)
        ver = int(ver)
    return {"op": op, "category": cat, "package": rest, "ver": ver, "slot": slot, "use": use}


def eval_atom(s, p):
    a = parse_simple_atom(s)
    if p["category"] != a["category"] or p["package"] != a["package"]:
        return False
    if a["op"]:
        v = int(p["fullver"])
        c = (v > a["ver"]) - (v < a["ver"])
        if not {"<": c < 0, "<=": c <= 0, "=": c == 0, ">=": c >= 0, ">": c > 0}[a["op"]]:
            return False
    if a["slot"] is not None and p["slot"] != a["slot"]:
        return False
    if a["use"] is not None:
        for flag in a["use"].split(","):
            if flag.startswith("-"):
                if flag[1:] in p["use"]:
                    return False
            elif flag not in p["use"]:
                return False
    return True


# -- package level -------------------------------------------------------------------------
def eval_p(spec, p):
    k = spec["k"]
    if k == "pr":
        return eval_v(spec["v"], p[spec["attr"]]) != spec["neg"]
    if k == "not":
        return not eval_p(spec["x"], p)
    if k == "const":
        return bool(spec["val"])
    if k == "atom":
        return eval_atom(spec["s"], p)
    if k in NODE_KINDS:
        return _combine(k, [eval_p(c, p) for c in spec["xs"]]) != spec["neg"]
    raise ValueError("unknown package spec %r" % (k,))


def evaluate(spec, subject):
    """Meaning of a spec for one subject: a package dict (package-level spec) or a value."""
    if spec["k"] in ("pr", "not", "const", "atom") or spec["k"] in NODE_KINDS:
        return eval_p(spec, subject)
    return eval_v(spec, subject)


# -- the one recorded wrong model ------------------------------------------------------------
def _dnf_fallthrough(spec, ev):
    """Truth of the DNF that a derivation returns when a *negated any-of* emits its De Morgan
    clauses and then ALSO the clauses of the un-negated node (missing `return`): the result is
    (not any-of) OR any-of-children's-DNF.  Everything else is derived correctly."""
    k = spec["k"]
    if k in ("and", "vand"):
        if spec["neg"]:
            # rewritten to any-of(Negate(child)...): Negate wrappers are opaque leaves => correct
            return not all(ev(c) for c in spec["xs"])
        return all(_dnf_fallthrough(c, ev) for c in spec["xs"])
    if k in ("or", "vor"):
        plain = any(_dnf_fallthrough(c, ev) for c in spec["xs"])
        if spec["neg"]:
            return (not any(ev(c) for c in spec["xs"])) or plain
        return plain
    return ev(spec)  # leaves, Negate wrappers, exactly-one / at-most-one nodes are opaque


def _cnf_fallthrough(spec, ev):
    k = spec["k"]
    if k in ("and", "vand") and not spec["neg"]:
        return all(_cnf_fallthrough(c, ev) for c in spec["xs"])
    if k in ("or", "vor") and not spec["neg"]:
        return any(_dnf_fallthrough(c, ev) for c in spec["xs"])
    return ev(spec)


def fallthrough_model(spec, subject, form):
    """Answer of the recorded wrong model (`form` is "dnf" or "cnf") for one subject."""
    ev = lambda s: evaluate(s, subject)  # noqa: E731
    return _dnf_fallthrough(spec, ev) if form == "dnf" else _cnf_fallthrough(spec, ev)


def contains_negated_or(spec):
    k = spec["k"]
    if k in ("or", "vor") and spec["neg"]:
        return True
    if k in NODE_KINDS or k in VNODE_KINDS:
        return any(contains_negated_or(c) for c in spec["xs"])
    if k in ("not", "vnot"):
        return contains_negated_or(spec["x"])
    if k == "pr":
        return contains_negated_or(spec["v"])
    return False


# -- shape measures ---------------------------------------------------------------------------
def depth(spec):
    k = spec["k"]
    if k in NODE_KINDS or k in VNODE_KINDS:
        return 1 + max([depth(c) for c in spec["xs"]] or [0])
    if k in ("not", "vnot"):
        return depth(spec["x"])
    if k == "pr":
        return depth(spec["v"])
    return 0


def count_kinds(spec, acc=None):
    acc = {} if acc is None else acc
    k = spec["k"]
    tag = k + ("!" if spec.get("neg") else "")
    acc[tag] = acc.get(tag, 0) + 1
    if k in NODE_KINDS or k in VNODE_KINDS:
        for c in spec["xs"]:
            count_kinds(c, acc)
    elif k in ("not", "vnot"):
        count_kinds(spec["x"], acc)
    elif k == "pr":
        count_kinds(spec["v"], acc)
    return acc


def has_negation(spec):
    return any(t.endswith("!") or t in ("not", "vnot") for t in count_kinds(spec))


def canon(spec):
    return json.dumps(spec, sort_keys=True, separators=(",", ":"))
