"""Reference selection model for package query strings (property C44).

Written from the property statement: every glob is a whole-string shell pattern over one field, version
constraints follow PMS, repository is an equality.  Does not import pkgcore.

A query is a dict with the fields
    op       "" | "<" | "<=" | "=" | ">=" | ">" | "~"
    cat      category glob or None (category-less query)
    pkg      package glob
    ver      version text (may carry -rN) or None
    slot     slot glob or None
    subslot  sub-slot glob or None
    repo     repository id or None
A package is a dict with category, package, version, revision ('' when absent), slot, subslot, repo.
"""

import fnmatch

from . import pms_version as pv

SHELL_SPECIALS = set("?[]\\")


def glob_ok(pat):
    """Patterns the model is willing to interpret: no shell specials besides '*'."""
    return pat is not None and not (set(pat) & SHELL_SPECIALS)


def glob_match(value, pat):
    if pat is None:
        return True
    return fnmatch.fnmatchcase(value, pat)


def version_ok(q, p):
    op, ver = q.get("op") or "", q.get("ver")
    if not op:
        return True
    v, r = pv.split_fullver(ver)
    if op == "~":
        return pv.ver_cmp(p["version"], "", v, "") == 0
    return pv.OPS[op](pv.ver_cmp(p["version"], p["revision"] or "", v, r))


def selects(q, p, ignore=()):
    """True iff package p is selected by query q.  `ignore` names constraints to leave out
    (used only to recognise specific wrong models when classifying a violation)."""
    if "cat" not in ignore and not glob_match(p["category"], q.get("cat")):
        return False
    if "pkg" not in ignore and not glob_match(p["package"], q.get("pkg")):
        return False
    if "slot" not in ignore and not glob_match(p["slot"], q.get("slot")):
        return False
    if "subslot" not in ignore and not glob_match(p["subslot"], q.get("subslot")):
        return False
    if "repo" not in ignore and q.get("repo") is not None and p["repo"] != q["repo"]:
        return False
    if "ver" not in ignore and not version_ok(q, p):
        return False
    return True


def render(q):
    """The query text for a structured query (the concrete syntax of the docstring of parse_match)."""
    s = q.get("op") or ""
    if q.get("cat") is not None:
        s += q["cat"] + "/"
    s += q["pkg"]
    if q.get("ver") is not None:
        s += "-" + q["ver"]
        if q.get("verglob"):
            s += "*"
    if q.get("slot") is not None or q.get("subslot") is not None:
        s += ":" + (q.get("slot") or "")
        if q.get("subslot") is not None:
            s += "/" + q["subslot"]
        if q.get("slotop"):
            s += q["slotop"]
    if q.get("repo") is not None:
        s += "::" + q["repo"]
    if q.get("use"):
        s += "[" + q["use"] + "]"
    return s
