"""Parent process of a check: shards the workload, watches the workers, merges, decides.

Exit status: 0 held (known findings printed), 1 violation (VIOLATION lines), 2 inconclusive.
"""

import argparse
import json
import os
import shutil
import signal
import subprocess
import sys
import time

from . import core

ROOT = core.ROOT
PY = "/venv/bin/python"
SCRATCH_BASE = "/var/tmp"


def ensure_setup(need_ebd=False):
    deps = os.path.join(ROOT, ".deps")
    if not os.path.isdir(os.path.join(deps, "icontract")):
        subprocess.run(
            [PY, "-m", "pip", "install", "-q", "--no-index", "--find-links", "/opt/veriftools/wheels",
             "--target", deps, "icontract", "deal", "jsonschema"],
            stdout=subprocess.DEVNULL, stderr=subprocess.DEVNULL, check=False,
            env=dict(os.environ, PIP_NO_INDEX="1"),
        )
    if need_ebd:
        from . import ebdbuild
        ebdbuild.ensure_generated()


def kill_run(run_id, procs):
    """SIGKILL every process that carries VT_RUN_ID=<run_id> in its environment."""
    for p in procs:
        try:
            os.killpg(p.pid, signal.SIGKILL)
        except (ProcessLookupError, PermissionError):
            pass
    needle = ("VT_RUN_ID=" + run_id).encode()
    me = os.getpid()
    sessions = {str(p.pid) for p in procs}
    for _ in range(2):
        for d in os.listdir("/proc"):
            if not d.isdigit() or int(d) == me:
                continue
            # the ebuild daemon gets a scrubbed environment and its own process group, but it
            # stays in the worker's session (workers are session leaders)
            try:
                with open("/proc/%s/stat" % d) as f:
                    sid = f.read().rsplit(")", 1)[1].split()[3]
                if sid in sessions:
                    os.kill(int(d), signal.SIGKILL)
                    continue
            except (OSError, IndexError, ProcessLookupError):
                pass
            try:
                with open("/proc/%s/environ" % d, "rb") as f:
                    env = f.read()
            except OSError:
                continue
            if needle in env.split(b"\0"):
                try:
                    os.kill(int(d), signal.SIGKILL)
                except (ProcessLookupError, PermissionError):
                    pass
        time.sleep(0.05)


def merge(results):
    m = {
        "evaluations": 0, "counters": {}, "hashes": set(), "hashes_capped": False,
        "nontrivial_total": 0, "samples": [], "violations": {}, "unspecified": {},
        "notes": [], "inconclusive": [],
    }
    for r in results:
        m["evaluations"] += r["evaluations"]
        for k, v in r["counters"].items():
            m["counters"][k] = m["counters"].get(k, 0) + v
        m["hashes"].update(r["hashes"])
        m["hashes_capped"] |= r["hashes_capped"]
        m["nontrivial_total"] += r["nontrivial_total"]
        for s in r["samples"]:
            if len(m["samples"]) < 8:
                m["samples"].append(s)
        for k, v in r["unspecified"].items():
            m["unspecified"][k] = m["unspecified"].get(k, 0) + v
        for n in r["notes"]:
            if n not in m["notes"] and len(m["notes"]) < 30:
                m["notes"].append(n)
        for dk, ent in r["violations"].items():
            e = m["violations"].setdefault(dk, {"n": 0, "key": ent["key"], "kind": ent["kind"], "examples": []})
            e["n"] += ent["n"]
            for w in ent["examples"]:
                if len(e["examples"]) < core.MAX_VIOL_PER_KEY:
                    e["examples"].append(w)
        if r.get("inconclusive"):
            m["inconclusive"].append("shard %s: %s" % (r["shard"], r["inconclusive"]))
    return m


def short(w, n=300):
    s = json.dumps(w, sort_keys=True, ensure_ascii=True)
    return s if len(s) <= n else s[: n - 3] + "..."


def main(argv=None):
    ap = argparse.ArgumentParser(prog="check")
    ap.add_argument("prop")
    ap.add_argument("--tier", default=os.environ.get("VERIF_TIER") or "quick", choices=["quick", "thorough"])
    ap.add_argument("--replay")
    ap.add_argument("--shards", type=int)
    ap.add_argument("--keep", action="store_true", help="keep scratch dir and logs")
    ap.add_argument("--no-evidence", action="store_true")
    args = ap.parse_args(argv)
    pid = args.prop
    try:
        seed = int(os.environ.get("VERIF_SEED", "0") or 0)
    except ValueError:
        seed = 0
    t0 = time.monotonic()
    os.chdir(ROOT)
    sys.path.insert(0, ROOT)
    os.environ["PYTHONDONTWRITEBYTECODE"] = "1"
    os.environ["PYTHONHASHSEED"] = "0"
    mod = core._load_prop(pid)
    ensure_setup(need_ebd=getattr(mod, "NEEDS_EBD", False))

    tier = args.tier
    nshards = args.shards or mod.SHARDS[tier]
    timeout = mod.TIMEOUT[tier]
    if args.replay:
        nshards = 1
    run_id = "vt%d_%d" % (os.getpid(), int(time.time()))
    scratch = os.path.join(SCRATCH_BASE, run_id)
    os.makedirs(scratch, exist_ok=True)
    procs = []
    env = dict(os.environ)
    for k in ("PKGCORE_VERIF", "PKGCORE_VERIF_TRACE"):
        env.pop(k, None)
    # VT_PKGCORE_ROOT (development only): run against a scratch copy/worktree of pkgcore instead
    # of /repo, e.g. to try a seeded breaking change without touching /repo.  Registered checks
    # never set it, so they always exercise /repo's working tree (editable install in /venv).
    alt = os.environ.get("VT_PKGCORE_ROOT")
    pypath = ROOT + (os.pathsep + os.path.join(alt, "src") if alt else "")
    env.update(
        VT_RUN_ID=run_id, PYTHONPATH=pypath, PYTHONHASHSEED="0", PYTHONDONTWRITEBYTECODE="1",
        LC_ALL="C.UTF-8", LANG="C.UTF-8", PKGCORE_VERIF="1",
    )
    env.pop("PYTEST_CURRENT_TEST", None)
    for s in range(nshards):
        sd = os.path.join(scratch, "s%d" % s)
        os.makedirs(sd)
        e = dict(env, VT_SCRATCH=sd, TMPDIR=sd)
        out = os.path.join(scratch, "r%d.json" % s)
        log = open(os.path.join(scratch, "w%d.log" % s), "wb")
        cmd = [PY, "-X", "faulthandler", "-m", "vt.worker", pid, tier, str(seed), str(s), str(nshards), out,
               str(timeout * 0.8)]
        if args.replay:
            cmd.append(os.path.abspath(args.replay))
        p = subprocess.Popen(cmd, cwd=ROOT, env=e, stdin=subprocess.DEVNULL, stdout=log, stderr=log,
                             start_new_session=True)
        log.close()
        procs.append(p)
    deadline = time.monotonic() + timeout
    watchdog = False
    while any(p.poll() is None for p in procs):
        if time.monotonic() > deadline:
            watchdog = True
            break
        time.sleep(0.05)
    if watchdog:
        # workers run with -X faulthandler: SIGABRT makes a stuck worker write the stacks of all its threads to its log,
        # the tail of which goes into the INCONCLUSIVE line
        for p in procs:
            if p.poll() is None:
                try:
                    os.kill(p.pid, signal.SIGABRT)
                except OSError:
                    pass
        time.sleep(1.5)
    kill_run(run_id, procs)
    for p in procs:
        try:
            p.wait(timeout=5)
        except subprocess.TimeoutExpired:
            pass

    results = []
    incon = []
    for s in range(nshards):
        out = os.path.join(scratch, "r%d.json" % s)
        try:
            with open(out) as f:
                results.append(json.load(f))
        except (OSError, ValueError):
            tail = b""
            try:
                with open(os.path.join(scratch, "w%d.log" % s), "rb") as f:
                    tail = f.read()[-3000:]
            except OSError:
                pass
            incon.append("shard %d produced no result (%s): %s" % (
                s, "watchdog kill" if watchdog else "worker died", tail.decode("utf-8", "replace")))
    m = merge(results)
    incon.extend(m["inconclusive"])

    known = [k for k in core.load_known() if k.get("property") == pid]
    known_keys = {k["key"]: k for k in known if k.get("status") == "known"}
    lines = []
    new_viol = []
    known_hits = {}
    for dk, ent in sorted(m["violations"].items()):
        key = ent["key"]
        if key and key in known_keys:
            known_hits[key] = ent
        else:
            new_viol.append((dk, ent))
    for key, ent in known_hits.items():
        lines.append("KNOWN-FINDING: property=%s %s: %s (n=%d e.g. %s)" % (
            pid, key, known_keys[key].get("what", ""), ent["n"], short(ent["examples"][0], 240)))
    rdir = os.path.join(ROOT, "replays", pid)
    for dk, ent in new_viol[:8]:
        os.makedirs(rdir, exist_ok=True)
        name = "%s-%016x.json" % ("".join(c if c.isalnum() or c in "-_" else "_" for c in dk)[:60],
                                  core.h64(ent["examples"][0]))
        path = os.path.join(rdir, name)
        with open(path, "w") as f:
            json.dump({"property": pid, "mechanism": ent["key"], "kind": ent["kind"], "count": ent["n"],
                       "tier": tier, "seed": seed, "witness": ent["examples"][0],
                       "more_examples": ent["examples"][1:]}, f, indent=1, sort_keys=True)
        lines.append("VIOLATION property=%s replay=%s" % (pid, path))
        lines.append("  detail: %s n=%d %s" % (dk, ent["n"], short(ent["examples"][0], 400)))

    distinct = len(m["hashes"])
    min_evals = getattr(mod, "MIN_EVALS", 1)
    if not args.replay:
        if m["evaluations"] < min_evals:
            incon.append("only %d oracle evaluations (< %d): deciding monitor not reached" % (m["evaluations"], min_evals))
        if distinct < 2:
            incon.append("fewer than 2 distinct non-trivial cases observed")
        for cname in getattr(mod, "REQUIRED_COUNTERS", ()):
            if not m["counters"].get(cname):
                incon.append("required monitor counter %r is zero" % cname)

    wall = time.monotonic() - t0
    if not args.replay and not args.no_evidence:
        cov = {
            "evaluations": m["evaluations"],
            "distinct_nontrivial": distinct,
            "rule": mod.RULE + (" [distinct-hash set capped at %d per shard: count is a lower bound]" % core.MAX_HASHES
                                if m["hashes_capped"] else ""),
            "samples": m["samples"] or ["<none>"],
            "nontrivial_observations_total": m["nontrivial_total"],
            "counters": dict(sorted(m["counters"].items())),
            "unspecified_skipped": m["unspecified"],
            "shards": nshards,
            "shards_completed": len(results),
            "known_finding_hits": {k: e["n"] for k, e in known_hits.items()},
            "unlisted_violation_groups": {dk: e["n"] for dk, e in new_viol},
            "inconclusive_reasons": incon,
            "notes": m["notes"],
        }
        if getattr(mod, "EXHAUSTIVE", None) and m["counters"].get("exhaustive_complete"):
            cov["exhaustive"] = True
        ev = {
            "property_id": pid, "tier": tier, "seed": seed, "level": mod.LEVEL, "coverage": cov,
            "assumptions": list(mod.ASSUMPTIONS), "wall_s": round(wall, 2),
            "violations": sum(e["n"] for _, e in new_viol),
        }
        os.makedirs(os.path.join(ROOT, "evidence"), exist_ok=True)
        tmp = os.path.join(ROOT, "evidence", pid + ".json.tmp")
        with open(tmp, "w") as f:
            json.dump(ev, f, indent=1, sort_keys=True)
        os.replace(tmp, os.path.join(ROOT, "evidence", pid + ".json"))

    if not args.keep:
        shutil.rmtree(scratch, ignore_errors=True)
    else:
        print("scratch kept at", scratch)

    for ln in lines:
        print(ln)
    summary = "%s tier=%s seed=%d shards=%d evals=%d distinct_nontrivial=%d wall=%.1fs" % (
        pid, tier, seed, nshards, m["evaluations"], distinct, wall)
    if new_viol:
        print("RESULT violated " + summary)
        return 1
    if incon:
        for r in incon[:5]:
            print("INCONCLUSIVE property=%s reason=%s" % (pid, r.replace("\n", " | ")[:1500]))
        print("RESULT inconclusive " + summary)
        return 2
    if args.replay:
        print("RESULT replay: witness no longer violates " + summary)
        return 0
    print("RESULT held " + summary + (" known_findings=%d" % len(known_hits) if known_hits else ""))
    return 0


if __name__ == "__main__":
    sys.exit(main())
