"""lstat-level filesystem snapshots and diffs (never follows symlinks)."""

import hashlib
import os
import stat


def _kind(mode):
    if stat.S_ISREG(mode):
        return "file"
    if stat.S_ISDIR(mode):
        return "dir"
    if stat.S_ISLNK(mode):
        return "link"
    if stat.S_ISFIFO(mode):
        return "fifo"
    if stat.S_ISCHR(mode) or stat.S_ISBLK(mode):
        return "dev"
    if stat.S_ISSOCK(mode):
        return "sock"
    return "other"


def entry(path, content=True):
    st = os.lstat(path)
    k = _kind(st.st_mode)
    e = {"type": k, "mode": stat.S_IMODE(st.st_mode), "uid": st.st_uid, "gid": st.st_gid,
         "mtime_ns": st.st_mtime_ns, "size": st.st_size if k == "file" else 0,
         "ino": (st.st_dev, st.st_ino), "nlink": st.st_nlink}
    if k == "file" and content:
        h = hashlib.sha256()
        with open(path, "rb") as f:
            for chunk in iter(lambda: f.read(1 << 16), b""):
                h.update(chunk)
        e["sha"] = h.hexdigest()
    elif k == "link":
        e["target"] = os.readlink(path)
    return e


def snap(root, content=True):
    """{relpath: entry}; relpath '' is the root itself (not included)."""
    out = {}
    root = os.path.abspath(root)

    def walk(d, rel):
        try:
            names = sorted(os.listdir(d))
        except OSError:
            return
        for n in names:
            p = os.path.join(d, n)
            r = n if not rel else rel + "/" + n
            try:
                e = entry(p, content)
            except FileNotFoundError:
                continue
            out[r] = e
            if e["type"] == "dir":
                walk(p, r)

    walk(root, "")
    return out


IDENT_FIELDS = ("type", "mode", "uid", "gid", "size", "sha", "target")


def ident(e, fields=IDENT_FIELDS):
    """Identity of an entry for old-or-new comparisons."""
    if e is None:
        return None
    return tuple(e.get(f) for f in fields)


def diff(a, b, ignore_fields=("ino", "nlink")):
    """Classify differences between snapshots a (before) and b (after)."""
    created = sorted(set(b) - set(a))
    removed = sorted(set(a) - set(b))
    changed = {}
    for p in set(a) & set(b):
        ea, eb = a[p], b[p]
        d = [f for f in set(ea) | set(eb) if f not in ignore_fields and ea.get(f) != eb.get(f)]
        if d:
            changed[p] = sorted(d)
    return {"created": created, "removed": removed, "changed": changed}


def inode_groups(s):
    """frozenset of frozensets of paths sharing an inode (size >= 2), files only."""
    g = {}
    for p, e in s.items():
        if e["type"] == "file":
            g.setdefault(tuple(e["ino"]), set()).add(p)
    return frozenset(frozenset(v) for v in g.values() if len(v) > 1)


def brief(e):
    if e is None:
        return None
    d = {k: v for k, v in e.items() if k not in ("ino",)}
    if "sha" in d:
        d["sha"] = d["sha"][:12]
    if "mode" in d:
        d["mode"] = oct(d["mode"])
    return d
