"""Ebuild-daemon harness: protocol trace capture (no repo hook needed), repo builders, stall detector.

Trace capture: `install_trace()` replaces the `os` name inside pkgcore.ebuild.processor by a proxy
whose fdopen() wraps the two pipe file objects of every EbuildProcessor in recording tees.  Every
line/blob Python writes to or reads from the daemon is appended to `ebp.ebd_write.trace`
(the same Trace object is attached to `ebp.ebd_read`).
"""

import os
import signal
import textwrap
import threading
import time


class Trace:
    def __init__(self):
        self.events = []  # (seq, t_ns, kind, payload)  kind: W (python->daemon), R (daemon->python), RE read-enter
        self.lock = threading.Lock()
        self.reading_since = None
        self.read_fd = None
        self.write_fd = None
        self.closed = False
        self.last_busy = time.monotonic()   # a freshly spawned daemon is busy initialising

    def add(self, kind, payload):
        with self.lock:
            self.events.append((len(self.events), time.monotonic_ns(), kind, payload))

    def lines(self):
        """[(dir, text)] with writes split into lines; blobs read with read(n) are kind 'RB'."""
        out = []
        for _, _, k, p in self.events:
            if k == "W":
                out.append(("W", p))
            elif k in ("R", "RB"):
                out.append((k, p))
        return out

    def shape(self):
        """Abstract trace shape: sequence of (dir, first word) with payload details dropped."""
        sh = []
        for k, p in self.lines():
            if isinstance(p, bytes):
                p = p.decode("utf-8", "replace")
            first = p.split("\n", 1)[0].split(" ", 1)[0][:24] if p.strip() else ""
            sh.append(k + ":" + first)
        return tuple(sh)


class TeeWriter:
    def __init__(self, f, trace):
        self._f = f
        self.trace = trace
        self._buf = ""

    def write(self, s):
        self.trace.add("W", s)
        return self._f.write(s)

    def flush(self):
        return self._f.flush()

    def close(self):
        self.trace.closed = True
        return self._f.close()

    def __getattr__(self, name):
        return getattr(self._f, name)


class TeeReader:
    def __init__(self, f, trace):
        self._f = f
        self.trace = trace

    def readline(self, *a):
        self.trace.add("RE", "readline")
        self.trace.reading_since = time.monotonic()
        try:
            data = self._f.readline(*a)
        finally:
            self.trace.reading_since = None
        self.trace.add("R", data)
        return data

    def read(self, *a):
        self.trace.add("RE", "read %r" % (a,))
        self.trace.reading_since = time.monotonic()
        try:
            data = self._f.read(*a)
        finally:
            self.trace.reading_since = None
        self.trace.add("RB", data)
        return data

    def close(self):
        return self._f.close()

    def __getattr__(self, name):
        return getattr(self._f, name)


class _OsProxy:
    """Stands in for the `os` module inside pkgcore.ebuild.processor."""

    def __init__(self, real, registry):
        self.__dict__["_real"] = real
        self.__dict__["_registry"] = registry
        self.__dict__["_pending"] = None

    def __getattr__(self, name):
        return getattr(self._real, name)

    def fdopen(self, fd, mode="r", *a, **kw):
        f = self._real.fdopen(fd, mode, *a, **kw)
        if mode == "w":
            tr = Trace()
            tr.write_fd = fd
            try:
                import sys
                import weakref
                owner = sys._getframe(1).f_locals.get("self")
                tr.ebp_ref = weakref.ref(owner) if owner is not None else (lambda: None)
            except Exception:
                tr.ebp_ref = lambda: None
            self.__dict__["_pending"] = tr
            self._registry.append(tr)
            return TeeWriter(f, tr)
        if mode == "rb" and self._pending is not None:
            tr = self._pending
            self.__dict__["_pending"] = None
            tr.read_fd = fd
            return TeeReader(f, tr)
        return f


_installed = None
STALLS = []          # one dict per detected both-sides-blocked observation (see StallMonitor)
_monitor = None


def install_trace(monitor=True):
    """Idempotent. Returns the list that collects one Trace per EbuildProcessor created afterwards.

    With monitor=True a background StallMonitor watches every traced processor."""
    global _installed, _monitor
    if _installed is None:
        from pkgcore.ebuild import processor

        registry = []
        processor.os = _OsProxy(os, registry)
        _installed = registry
    if monitor and _monitor is None:
        _monitor = StallMonitor(_installed)
        _monitor.start()
    return _installed


def take_stalls():
    out = list(STALLS)
    del STALLS[:]
    return out


def trace_of(ebp):
    return getattr(ebp.ebd_write, "trace", None)


# ---------------------------------------------------------------------------------------------
# repositories on disk

def write(path, text):
    os.makedirs(os.path.dirname(path), exist_ok=True)
    with open(path, "w") as f:
        f.write(text)


def make_repo(path, repo_id="vt", masters=(), cache_formats="", eapi="5"):
    write(os.path.join(path, "profiles", "repo_name"), repo_id + "\n")
    write(os.path.join(path, "profiles", "eapi"), eapi + "\n")
    write(os.path.join(path, "metadata", "layout.conf"),
          "masters = %s\ncache-formats = %s\nthin-manifests = true\n" % (" ".join(masters), cache_formats))
    os.makedirs(os.path.join(path, "eclass"), exist_ok=True)
    return path


def open_repo(path, masters=()):
    """Fresh UnconfiguredTree (fresh eclass cache, fresh metadata cache objects)."""
    from pkgcore.ebuild import repo_objs, repository

    cfg = repo_objs.RepoConfig(location=path)
    if masters:
        return repository.UnconfiguredTree(path, repo_config=cfg, masters=tuple(masters))
    return repository.UnconfiguredTree(path, repo_config=cfg)


def ebuild_path(repo, cpvstr):
    from pkgcore.ebuild.cpv import VersionedCPV

    c = VersionedCPV(cpvstr)
    return os.path.join(repo, c.category, c.package, "%s-%s.ebuild" % (c.package, c.fullver))


def shutdown_all():
    try:
        from pkgcore.ebuild import processor

        for lst in (processor.active_ebp_list, processor.inactive_ebp_list):
            while lst:
                ebp = lst.pop()
                try:
                    if ebp.pid:
                        os.killpg(ebp.pid, signal.SIGKILL)
                        os.waitpid(ebp.pid, 0)
                    ebp.pid = None
                except (OSError, ChildProcessError):
                    pass
    except Exception:
        pass


# ---------------------------------------------------------------------------------------------
# stall detector: turns "both sides waiting to read" into an observation

def _proc_children(pid):
    out = []
    try:
        for t in os.listdir("/proc/%d/task" % pid):
            with open("/proc/%d/task/%s/children" % (pid, t)) as f:
                out.extend(int(x) for x in f.read().split())
    except OSError:
        pass
    return out


def proc_tree(pid):
    seen, todo = [], [pid]
    while todo:
        p = todo.pop()
        if p in seen:
            continue
        seen.append(p)
        todo.extend(_proc_children(p))
    return seen


def proc_syscall(pid):
    try:
        with open("/proc/%d/syscall" % pid) as f:
            return f.read().split()
    except OSError:
        return None


def proc_syscall_of_task(pid, tid):
    try:
        with open("/proc/%d/task/%d/syscall" % (pid, tid)) as f:
            return f.read().split()
    except OSError:
        return None


def proc_state(pid):
    try:
        with open("/proc/%d/stat" % pid) as f:
            return f.read().rsplit(")", 1)[1].split()[0]
    except (OSError, IndexError):
        return None


SYS_READ, SYS_WAIT4, SYS_PSELECT6, SYS_RT_SIGSUSPEND = "0", "61", "270", "130"


def daemon_blocked_reading(pid, read_fd_hint=None):
    """True iff every process in the daemon's tree is sleeping in read()/wait4().

    Returns (blocked, detail)."""
    detail = []
    any_read = False
    for p in proc_tree(pid):
        sc = proc_syscall(p)
        st = proc_state(p)
        if sc is None or st is None:
            continue
        if st == "Z":
            continue
        if sc[0] == "running" or st == "R":
            return False, [(p, "running")]
        if sc[0] == SYS_READ:
            any_read = True
            detail.append((p, "read fd=%d" % int(sc[1], 16)))
        elif sc[0] == SYS_WAIT4:
            detail.append((p, "wait4"))
        else:
            return False, [(p, "syscall " + sc[0])]
    return any_read, detail


def daemon_busy(pid, ebp):
    """True iff the daemon exists and is doing something other than sleeping in read() on an EMPTY command pipe
    (running, stopped, waiting for a helper, reading elsewhere, or with unread input)."""
    if proc_state(pid) in (None, "Z", "X"):
        return False
    blocked, _d = daemon_blocked_reading(pid)
    if not blocked:
        return True
    diag = stall_diagnostics(pid, ebp)
    return bool(diag["reads_elsewhere"] or not diag["reads_on_command_pipe"] or diag["command_pipe_unread"] != 0)


def pipe_holders(target, exclude=()):
    """[(pid, fd, state, cmdline)] of every process that has the pipe `target` ('pipe:[ino]') open."""
    res = []
    for d in os.listdir("/proc"):
        if not d.isdigit() or int(d) in exclude:
            continue
        try:
            for fd in os.listdir("/proc/%s/fd" % d):
                try:
                    if os.readlink("/proc/%s/fd/%s" % (d, fd)) == target:
                        with open("/proc/%s/cmdline" % d, "rb") as f:
                            cl = f.read().replace(b"\0", b" ").decode("utf-8", "replace")[:100]
                        res.append([int(d), int(fd), proc_state(int(d)), cl])
                except OSError:
                    pass
        except OSError:
            pass
    return res[:12]


def stall_diagnostics(pid, ebp):
    """Extra facts about a suspected stall: what each daemon process is reading from, and whether that is the
    command pipe Python writes to (same pipe inode); unread bytes in that pipe."""
    out = {"procs": [], "command_pipe_unread": None, "reads_on_command_pipe": 0, "reads_elsewhere": 0}
    try:
        cmd_ino = os.fstat(ebp.ebd_write.fileno()).st_ino
        out["command_pipe_unread"] = fionread(ebp.ebd_write.fileno())
    except (OSError, ValueError, AttributeError):
        cmd_ino = None
    for p in proc_tree(pid):
        sc = proc_syscall(p)
        st = proc_state(p)
        ent = {"pid": p, "state": st, "syscall": sc[0] if sc else None}
        try:
            with open("/proc/%d/cmdline" % p, "rb") as f:
                ent["cmdline"] = f.read().replace(b"\0", b" ").decode("utf-8", "replace")[:120]
        except OSError:
            pass
        if sc and sc[0] == SYS_READ and st != "Z":
            fd = int(sc[1], 16)
            ent["fd"] = fd
            try:
                ent["target"] = os.readlink("/proc/%d/fd/%d" % (p, fd))
                ino = os.stat("/proc/%d/fd/%d" % (p, fd)).st_ino
                ent["is_command_pipe"] = cmd_ino is not None and ino == cmd_ino
            except OSError:
                ent["target"] = None
                ent["is_command_pipe"] = None
            if ent.get("target", None) and ent["target"].startswith("pipe:") and not ent.get("is_command_pipe"):
                ent["other_holders"] = pipe_holders(ent["target"], exclude=(p,))
            if ent.get("is_command_pipe"):
                out["reads_on_command_pipe"] += 1
            else:
                out["reads_elsewhere"] += 1
        out["procs"].append(ent)
    return out


def fionread(fd):
    import fcntl
    import struct
    import termios

    try:
        return struct.unpack("i", fcntl.ioctl(fd, termios.FIONREAD, b"\0\0\0\0"))[0]
    except OSError:
        return -1


OBSERVED = {}   # counters of near-stalls the monitor deliberately did not report (see StallMonitor.sample)


class StallMonitor(threading.Thread):
    """Global variant: watches every Trace in the registry.  When Python has been blocked in a read on a
    daemon pipe for `grace` seconds while every process of that daemon sleeps in read()/wait4() and the
    pipe towards Python is empty -- on two consecutive samples with no trace progress -- it appends an
    observation to STALLS and SIGKILLs the daemon's process group (Python then sees EOF and carries on)."""

    def __init__(self, registry, grace=3.0, period=0.5):
        super().__init__(daemon=True)
        self.registry = registry
        self.grace = grace
        self.period = period
        self.state = {}
        self.main_tid = threading.main_thread().native_id
        self.wait_key, self.wait_hits = None, 0

    def run(self):
        while True:
            time.sleep(self.period)
            for tr in list(self.registry):
                try:
                    self.sample(tr)
                except Exception:
                    pass
            try:
                self.check_waitpid()
            except Exception:
                pass

    def check_waitpid(self):
        """pkgcore's non-forced shutdown_processor() waits for the daemon's exit without having told it to exit when
        the liveness probe before it went unanswered; an idle daemon then never exits and the harness would hang in
        waitpid() until the watchdog.  Not a read/read wait (outside C35's wording): counted, and the daemon's group
        is killed so that the run goes on."""
        sc = proc_syscall_of_task(os.getpid(), self.main_tid)
        key = None
        if sc and sc[0] == SYS_WAIT4:
            raw = int(sc[1], 16) & 0xFFFFFFFF          # pid_t is a 32-bit int in the first argument register
            waited = raw - (1 << 32) if raw >= (1 << 31) else raw
            if waited < -1:
                pgid = -waited
                ebp = None
                for tr in list(self.registry):
                    e = getattr(tr, "ebp_ref", lambda: None)()
                    if e is not None and e.pid == pgid:
                        ebp = e
                if ebp is not None and proc_state(pgid) not in (None, "Z", "X") and not daemon_busy(pgid, ebp):
                    key = pgid
        if key is not None and key == self.wait_key:
            self.wait_hits += 1
        else:
            self.wait_key, self.wait_hits = key, (1 if key is not None else 0)
        if key is not None and self.wait_hits >= 8:     # ~4 s of an idle daemon being waited for
            OBSERVED["python_waitpid_on_idle_daemon"] = OBSERVED.get("python_waitpid_on_idle_daemon", 0) + 1
            self.wait_key, self.wait_hits = None, 0
            try:
                os.killpg(key, signal.SIGKILL)
            except OSError:
                pass

    def sample(self, tr):
        ebp = getattr(tr, "ebp_ref", lambda: None)()
        if ebp is None or tr.closed or getattr(tr, "stalled", False):
            return
        pid = ebp.pid
        since = tr.reading_since
        if pid:
            # activity history for consumers that must tell "daemon slower than a timeout" from "daemon never going
            # to answer": the last moment the daemon was seen doing anything but waiting on an empty command pipe
            try:
                if daemon_busy(pid, ebp):
                    tr.last_busy = time.monotonic()
            except Exception:
                pass
        if not pid or since is None or time.monotonic() - since < self.grace:
            self.state.pop(id(tr), None)
            return
        n = len(tr.events)
        diag = None
        if proc_state(pid) is None:
            blocked, detail = True, [(pid, "daemon process gone, pipe still open")]
        else:
            blocked, detail = daemon_blocked_reading(pid)
            if blocked:
                # "waiting to read" means waiting for PYTHON: every blocked read must be on the command pipe Python
                # writes to, and that pipe must hold no unread bytes.  A daemon that waits for a helper of its own
                # (e.g. a still-running command substitution whose process was re-parented) is merely slow.
                try:
                    diag = stall_diagnostics(pid, ebp)
                except Exception:
                    diag = None
                if diag is None or diag["reads_elsewhere"] or not diag["reads_on_command_pipe"] or diag["command_pipe_unread"] != 0:
                    blocked = False
                    OBSERVED["daemon_waiting_on_something_else"] = OBSERVED.get("daemon_waiting_on_something_else", 0) + 1
        try:
            empty = fionread(ebp.ebd_read.fileno()) == 0
        except (ValueError, OSError, AttributeError):
            empty = False
        if blocked and empty:
            # a read bounded by pkgcore's own alarm (liveness probe) is not an unbounded wait
            try:
                if signal.getitimer(signal.ITIMER_REAL)[0] > 0:
                    blocked = False
                    OBSERVED["python_read_bounded_by_alarm"] = OBSERVED.get("python_read_bounded_by_alarm", 0) + 1
            except (OSError, ValueError):
                pass
        if blocked and empty and proc_state(pid) is not None:
            # someone outside the daemon's process tree may still hold the write end of the pipe Python reads
            try:
                tree = set(proc_tree(pid))
                target = os.readlink("/proc/self/fd/%d" % ebp.ebd_read.fileno())
                for hp, hfd, hst, hcl in pipe_holders(target, exclude=(os.getpid(),)):
                    if hp not in tree and hst in ("R", "D"):
                        blocked = False
                        OBSERVED["outside_writer_still_running"] = OBSERVED.get("outside_writer_still_running", 0) + 1
            except (OSError, ValueError, AttributeError):
                pass
        hits, last = self.state.get(id(tr), (0, -1))
        hits = hits + 1 if (blocked and empty and n == last) else 0
        self.state[id(tr)] = (hits, n)
        if hits >= 2:
            tr.stalled = True
            STALLS.append({
                "diag": diag,
                "daemon": [list(d) for d in detail],
                "python_reading_for_s": round(time.monotonic() - since, 2),
                "last_events": [[k, (p if isinstance(p, str) else p.decode("utf-8", "replace"))[:160]]
                                for _, _, k, p in tr.events[-14:] if k != "RE"],
                "shape_tail": list(tr.shape()[-12:]),
            })
            try:
                os.killpg(pid, signal.SIGKILL)
            except OSError:
                pass


class StallDetector(threading.Thread):
    """Samples one processor; when Python has been inside a read on the daemon pipe for `grace`
    seconds, every daemon process sleeps in read()/wait4() and both pipes are empty, twice in a
    row, records a DEADLOCK observation and kills the daemon's process group."""

    def __init__(self, ebp, grace=1.5, period=0.25):
        super().__init__(daemon=True)
        self.ebp = ebp
        self.trace = trace_of(ebp)
        self.grace = grace
        self.period = period
        self.stop_flag = False
        self.deadlock = None

    def run(self):
        hits = 0
        last_len = -1
        while not self.stop_flag:
            time.sleep(self.period)
            tr = self.trace
            pid = self.ebp.pid
            if tr is None or not pid or tr.closed:
                hits = 0
                continue
            since = tr.reading_since
            if since is None or time.monotonic() - since < self.grace:
                hits = 0
                continue
            n = len(tr.events)
            blocked, detail = daemon_blocked_reading(pid)
            try:
                empty = fionread(self.ebp.ebd_read.fileno()) == 0
            except (ValueError, OSError):
                empty = False
            if blocked and empty and n == last_len:
                hits += 1
            else:
                hits = 0
            last_len = n
            if hits >= 2:
                self.deadlock = {"daemon": [list(d) for d in detail],
                                 "python_reading_for_s": round(time.monotonic() - since, 2),
                                 "last_events": [(k, (p if isinstance(p, str) else p.decode("utf-8", "replace"))[:120])
                                                 for _, _, k, p in tr.events[-8:]]}
                try:
                    os.killpg(pid, signal.SIGKILL)
                except OSError:
                    pass
                return

    def stop(self):
        self.stop_flag = True
