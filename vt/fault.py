"""Crash / EIO injection at Python-level filesystem mutation points, inside a forked child.

    res = run_injected(fn, mode, k, roots=[dir, ...])

forks; in the child every mutating filesystem entry point used by pkgcore/snakeoil is
interposed and numbered 1..N (only operations that touch a path under one of `roots`, or
that are dir_fd/fd relative).  `mode`:

    "count"         run fn() to completion, return the operation list
    "crash-before"  at operation k: os._exit(137) before performing it
    "crash-after"   perform operation k, then os._exit(137)
    "torn"          operation k must be a file write: write the first half, flush, os._exit(137)
                    (for other operations behaves like crash-before)
    "eio"           operation k raises OSError(EIO) instead of being performed; fn() continues

os._exit is real process death: no finally, no __exit__, no atexit, no __del__.
A sys.addaudithook cross-check counts the interpreter's own audit events for mutations under
the roots; `audit_unnumbered` > 0 means an un-interposed mutation path exists (=> inconclusive).

The result dict: {"status": "done"|"crashed"|"raised"|"child-died", "ops": [[k, name, detail], ...],
"nops": N, "exc": repr or None, "exc_type": name, "result": fn's JSON-able return value, "audit_unnumbered": n,
"injected": bool}
"""

import builtins
import errno
import io
import json
import os
import shutil
import signal
import sys
import traceback

from .core import jsonable

WRITE_FLAGS = os.O_WRONLY | os.O_RDWR | os.O_CREAT | os.O_TRUNC | os.O_APPEND

# (module, attribute, index/kw of the path-like arguments)
OS_FUNCS = {
    "rename": (0, 1), "replace": (0, 1), "link": (0, 1), "symlink": (1,), "mkdir": (0,), "mkfifo": (0,),
    "mknod": (0,), "chmod": (0,), "chown": (0,), "lchown": (0,), "utime": (0,), "unlink": (0,), "remove": (0,),
    "rmdir": (0,), "truncate": (0,), "removedirs": (0,), "renames": (0, 1),
}
FD_FUNCS = ("fchmod", "fchown", "ftruncate")


class _Crash(BaseException):
    pass


class Injector:
    def __init__(self, mode, k, roots, report_fd):
        self.mode = mode
        self.k = k
        self.roots = [os.path.realpath(r) for r in roots]
        self.n = 0
        self.ops = []
        self.report_fd = report_fd
        self.injected = False
        self.audit_seen = 0
        self.numbered_auditable = 0
        self.active = True
        self.in_op = 0
        self.fd_paths = {}

    # -- bookkeeping -----------------------------------------------------------------
    def under(self, path):
        if path is None:
            return False
        if isinstance(path, int):
            return True
        try:
            p = os.fspath(path)
        except TypeError:
            return False
        if isinstance(p, bytes):
            p = os.fsdecode(p)
        if not os.path.isabs(p):
            p = os.path.join(os.getcwd(), p)
        p = os.path.normpath(p)
        d = os.path.dirname(p)
        try:
            p2 = os.path.join(os.path.realpath(d), os.path.basename(p))
        except OSError:
            p2 = p
        for r in self.roots:
            if p == r or p.startswith(r + "/") or p2 == r or p2.startswith(r + "/"):
                return True
        return False

    def rel(self, path):
        try:
            p = os.fsdecode(os.fspath(path)) if not isinstance(path, int) else "<fd %d>" % path
        except TypeError:
            return repr(path)
        for r in self.roots:
            if p.startswith(r + "/"):
                return p[len(r) + 1:]
        return p

    def report(self, status, **kw):
        d = {"status": status, "ops": self.ops, "nops": self.n, "injected": self.injected,
             "audit_unnumbered": max(0, self.audit_seen - self.numbered_auditable)}
        d.update(kw)
        data = json.dumps(jsonable(d)).encode()
        os.write(self.report_fd, data) if len(data) < 60000 else self._big_write(data)

    def _big_write(self, data):
        view = memoryview(data)
        while view:
            n = os.write(self.report_fd, view[:60000])
            view = view[n:]

    def die(self):
        self.injected = True
        self.active = False
        self.report("crashed")
        os._exit(137)

    def op(self, name, detail, perform, auditable=True, torn=None):
        """Number one mutating operation and apply the injection policy."""
        if not self.active or self.in_op:
            return perform()
        self.n += 1
        k = self.n
        self.ops.append([k, name, detail])
        if auditable:
            self.numbered_auditable += 1
        if k == self.k and self.mode != "count":
            if self.mode == "crash-before":
                self.die()
            if self.mode == "torn":
                if torn is not None:
                    self.in_op += 1
                    try:
                        torn()
                    finally:
                        self.in_op -= 1
                self.die()
            if self.mode == "eio":
                self.injected = True
                raise OSError(errno.EIO, "injected I/O error (vt.fault)", detail if isinstance(detail, str) else None)
            if self.mode == "crash-after":
                self.in_op += 1
                try:
                    perform()
                finally:
                    self.in_op -= 1
                self.die()
        self.in_op += 1
        try:
            return perform()
        finally:
            self.in_op -= 1

    # -- interposers -----------------------------------------------------------------
    def install(self):
        inj = self
        shutil._USE_CP_SENDFILE = False
        if hasattr(shutil, "_USE_CP_COPY_FILE_RANGE"):
            shutil._USE_CP_COPY_FILE_RANGE = False

        def wrap_os(name, idxs):
            orig = getattr(os, name)

            def wrapper(*a, **kw):
                paths = [a[i] for i in idxs if i < len(a)]
                for key in ("src", "dst", "path"):
                    if key in kw:
                        paths.append(kw[key])
                relative = kw.get("dir_fd") is not None or kw.get("src_dir_fd") is not None or kw.get("dst_dir_fd") is not None
                if not relative and not any(inj.under(p) for p in paths):
                    return orig(*a, **kw)
                return inj.op(name, " ".join(inj.rel(p) for p in paths), lambda: orig(*a, **kw))

            wrapper.__name__ = name
            wrapper.__wrapped__ = orig
            setattr(os, name, wrapper)

        for name, idxs in OS_FUNCS.items():
            if hasattr(os, name):
                wrap_os(name, idxs)

        def wrap_fd(name):
            orig = getattr(os, name)

            def wrapper(fd, *a, **kw):
                if fd not in inj.fd_paths:
                    return orig(fd, *a, **kw)
                return inj.op(name, inj.fd_paths[fd], lambda: orig(fd, *a, **kw), auditable=False)

            wrapper.__wrapped__ = orig
            setattr(os, name, wrapper)

        for name in FD_FUNCS:
            if hasattr(os, name):
                wrap_fd(name)

        orig_os_open = os.open

        def os_open(path, flags, mode=0o777, *, dir_fd=None):
            if not (flags & WRITE_FLAGS) or (dir_fd is None and not inj.under(path)):
                return orig_os_open(path, flags, mode, dir_fd=dir_fd)
            fd = inj.op("os.open", "%s flags=%#o" % (inj.rel(path), flags), lambda: orig_os_open(path, flags, mode, dir_fd=dir_fd))
            inj.fd_paths[fd] = inj.rel(path)
            return fd

        os.open = os_open

        orig_os_write = os.write

        def os_write(fd, data):
            if fd not in inj.fd_paths:
                return orig_os_write(fd, data)
            half = bytes(data)[: max(1, len(data) // 2)]
            return inj.op("os.write", "%s %dB" % (inj.fd_paths[fd], len(data)), lambda: orig_os_write(fd, data),
                          auditable=False, torn=lambda: orig_os_write(fd, half))

        os.write = os_write

        orig_os_close = os.close

        def os_close(fd):
            inj.fd_paths.pop(fd, None)
            return orig_os_close(fd)

        os.close = os_close

        orig_open = builtins.open

        def py_open(file, mode="r", *a, **kw):
            writing = any(c in mode for c in "wax+")
            if not writing or isinstance(file, int) or not inj.under(file):
                return orig_open(file, mode, *a, **kw)
            f = inj.op("open", "%s mode=%s" % (inj.rel(file), mode), lambda: orig_open(file, mode, *a, **kw))
            return FileProxy(f, inj, inj.rel(file))

        builtins.open = py_open
        io.open = py_open

        import subprocess
        orig_popen_init = subprocess.Popen.__init__

        def popen_init(self_, args, *a, **kw):
            return inj.op("subprocess", repr(args)[:120], lambda: orig_popen_init(self_, args, *a, **kw), auditable=False)

        subprocess.Popen.__init__ = popen_init
        try:
            from snakeoil.process import spawn as spawn_mod
            orig_spawn = spawn_mod.spawn

            def spawn(mycommand, *a, **kw):
                return inj.op("spawn", repr(mycommand)[:120], lambda: orig_spawn(mycommand, *a, **kw), auditable=False)

            spawn_mod.spawn = spawn
            for modname, m in list(sys.modules.items()):
                if m is not None and modname.startswith(("pkgcore", "snakeoil")) and getattr(m, "spawn", None) is orig_spawn:
                    m.spawn = spawn
        except ImportError:
            pass

        # names bound with "from os import x" / "from shutil import y" before we got here
        for modname, m in list(sys.modules.items()):
            if m is None or not modname.startswith(("pkgcore", "snakeoil")):
                continue
            for name in list(OS_FUNCS) + list(FD_FUNCS):
                w = getattr(os, name, None)
                if w is not None and getattr(m, name, None) is getattr(w, "__wrapped__", object()):
                    setattr(m, name, w)
            if getattr(m, "open", None) is orig_open:
                m.open = py_open

        AUDIT = {"os.rename", "os.remove", "os.rmdir", "os.mkdir", "os.link", "os.symlink", "os.chmod", "os.chown",
                 "os.utime", "os.truncate"}

        def hook(event, args):
            if not inj.active:
                return
            try:
                if event == "open":
                    path, mode, flags = args
                    if isinstance(path, (str, bytes)) and isinstance(flags, int) and (flags & WRITE_FLAGS) and inj.under(path):
                        inj.audit_seen += 1
                elif event in AUDIT:
                    # dir_fd-relative forms carry the fd in the last argument
                    paths = [a for a in args[:2] if isinstance(a, (str, bytes))]
                    fdrel = any(isinstance(a, int) and a >= 0 for a in args[-2:]) and event in ("os.remove", "os.rmdir", "os.mkdir")
                    if any(inj.under(p) for p in paths if os.path.isabs(os.fsdecode(p))) or (fdrel and not any(os.path.isabs(os.fsdecode(p)) for p in paths)):
                        inj.audit_seen += 1
            except Exception:
                pass

        sys.addaudithook(hook)


class FileProxy:
    """Write-mode file object whose write/truncate/close are numbered operations."""

    def __init__(self, f, inj, path):
        self.__dict__["_f"] = f
        self.__dict__["_inj"] = inj
        self.__dict__["_path"] = path

    def __getattr__(self, name):
        return getattr(self.__dict__["_f"], name)

    def __setattr__(self, name, value):
        try:
            setattr(self._f, name, value)
        except AttributeError:
            self.__dict__[name] = value

    def __enter__(self):
        self._f.__enter__()
        return self

    def __exit__(self, *exc):
        self.close()
        return False

    def __iter__(self):
        return iter(self._f)

    def __next__(self):
        return next(self._f)

    def write(self, data):
        f = self._f

        def torn():
            n = max(1, len(data) // 2) if len(data) > 1 else 0
            if n:
                f.write(data[:n])
            f.flush()

        return self._inj.op("write", "%s %d" % (self._path, len(data)), lambda: f.write(data), auditable=False, torn=torn)

    def writelines(self, lines):
        for ln in lines:
            self.write(ln)

    def truncate(self, *a):
        return self._inj.op("ftruncate", self._path, lambda: self._f.truncate(*a), auditable=False)

    def close(self):
        f = self._f
        if f.closed:
            return None
        return self._inj.op("close", self._path, f.close, auditable=False, torn=None)


def run_injected(fn, mode="count", k=0, roots=(), timeout=120):
    """Fork, interpose, run fn() under the injection policy; see module docstring."""
    rfd, wfd = os.pipe()
    sys.stdout.flush()
    sys.stderr.flush()
    pid = os.fork()
    if pid == 0:
        # ---- child
        try:
            os.close(rfd)
            signal.alarm(int(timeout))
            inj = Injector(mode, k, roots, wfd)
            inj.install()
            try:
                res = fn()
                inj.active = False
                inj.report("done", result=res, exc=None)
            except BaseException as e:  # noqa
                inj.active = False
                inj.report("raised", exc=repr(e)[:500], exc_type=type(e).__name__,
                           tb=traceback.format_exc()[-1500:])
        except BaseException:
            try:
                os.write(wfd, json.dumps({"status": "harness-error", "tb": traceback.format_exc()[-2000:]}).encode())
            except Exception:
                pass
        finally:
            os._exit(0)
    # ---- parent
    os.close(wfd)
    chunks = []
    while True:
        b = os.read(rfd, 1 << 16)
        if not b:
            break
        chunks.append(b)
    os.close(rfd)
    _, st = os.waitpid(pid, 0)
    data = b"".join(chunks)
    if not data:
        return {"status": "child-died", "wait_status": st, "ops": [], "nops": 0, "injected": False, "audit_unnumbered": 0}
    try:
        # a crash report may be followed by nothing; a 'done' report is a single JSON document
        return json.loads(data.decode())
    except ValueError:
        return {"status": "harness-error", "raw": data[:500].decode("utf-8", "replace"), "ops": [], "nops": 0,
                "injected": False, "audit_unnumbered": 0}


KINDS = ("crash-before", "crash-after", "torn", "eio")


def is_write_op(op):
    return op[1] in ("write", "os.write")
